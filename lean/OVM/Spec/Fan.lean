import OVM.Spec.Incidence
/-
  S: the fan of halffaces around a halfedge, computed from the definitions alone, and the
  decidable "single fan" predicate of C09.
-/
namespace OVM
namespace Kernel

/-- the other halfface of cell `c` at the edge of `he` (S-level): a halfface of the cell, different
    from `hf` and from its opposite, that contains the opposite halfedge; `none` unless unique -/
def sAdj (k : Kernel) (c hf he : Nat) : Option Nat :=
  match (k.cellAt c).filter (fun x => x != hf && x != opp hf && (k.hfHes x).contains (opp he)) with
  | [x] => some x
  | _ => none

/-- successor of `hf` in the rotation around `he`: the opposite of its neighbour inside its cell -/
def sFanNext (k : Kernel) (he hf : Nat) : Option Nat :=
  match k.sCellOf hf with
  | none => none
  | some c => (k.sAdj c hf he).map opp

/-- follow `sFanNext` from `start` for at most `fuel` steps, collecting the halffaces visited;
    stops at a boundary halfface or when it comes back to `start` -/
def sFanWalk (k : Kernel) (he start : Nat) : Nat → Nat → List Nat → List Nat
  | 0, _, acc => acc
  | fuel + 1, cur, acc =>
    let acc := acc ++ [cur]
    match k.sFanNext he cur with
    | none => acc
    | some nx => if nx == start then acc else sFanWalk k he start fuel nx acc

/-- the halffaces around `he`, each face using the edge exactly once; `none` otherwise -/
def sFanSet (k : Kernel) (he : Nat) : Option (List Nat) :=
  let H := k.sHfsOfHe he
  if H.eraseDups.length == H.length && H.all (fun hf => !(H.contains (opp hf))) then some H else none

/-- the rotational order C09 specifies for a single fan: `(order, isCycle)`; `none` when the edge is
    not a single fan -/
def sFanOrder (k : Kernel) (he : Nat) : Option (List Nat × Bool) :=
  match k.sFanSet he with
  | none => none
  | some H =>
    if H.isEmpty then some ([], false) else
    let bnd := H.filter (fun hf => (k.sCellOf hf).isNone)
    -- every non-boundary member must have a successor inside H
    let okNext := H.all (fun hf => (k.sCellOf hf).isNone || (match k.sFanNext he hf with | some nx => H.contains nx | none => false))
    if !okNext then none else
    match bnd with
    | [] =>
      let w := k.sFanWalk he (H.headD 0) (H.length + 1) (H.headD 0) []
      if w.length == H.length && w.eraseDups.length == w.length then some (w, true) else none
    | [_last] =>
      -- the chain starts at the member nobody points to
      let targets := H.filterMap (k.sFanNext he)
      match H.filter (fun hf => !(targets.contains hf)) with
      | [first] =>
        let w := k.sFanWalk he first (H.length + 1) first []
        if w.length == H.length && w.eraseDups.length == w.length then some (w, false) else none
      | _ => none
    | _ => none

end Kernel
end OVM

import OVM.Kernel.Delete
/-
  S — specification layer: every upward query as a brute-force scan over the stored edge,
  face and cell definitions of the not-deleted entities.  Nothing here looks at a cache.
  Results are ascending lists (duplicate-free where the relation is a set; with multiplicity
  where the C++ enumerates with multiplicity).
-/
namespace OVM
namespace Kernel

def liveE (k : Kernel) (e : Nat) : Bool := e < k.nE && !k.eDeleted e
def liveF (k : Kernel) (f : Nat) : Bool := f < k.nF && !k.fDeleted f
def liveC (k : Kernel) (c : Nat) : Bool := c < k.nC && !k.cDeleted c
def liveV (k : Kernel) (v : Nat) : Bool := v < k.nV && !k.vDeleted v

def liveHes (k : Kernel) : List Nat := (List.range k.nHE).filter (fun h => k.liveE (eOf h))
def liveHfs (k : Kernel) : List Nat := (List.range k.nHF).filter (fun h => k.liveF (eOf h))

/-- outgoing halfedges of `v`: all live halfedges whose source is `v` (ascending) -/
def sOut (k : Kernel) (v : Nat) : List Nat := k.liveHes.filter (fun h => k.fromV h == v)
def sIn (k : Kernel) (v : Nat) : List Nat := k.liveHes.filter (fun h => k.toV h == v)

/-- halffaces around halfedge `h`, each as often as `h` occurs in it (ascending) -/
def sHfsOfHe (k : Kernel) (h : Nat) : List Nat :=
  k.liveHfs.flatMap (fun hf => List.replicate ((k.hfHes hf).count h) hf)

/-- the live cells containing halfface `hf` (ascending) -/
def sCellsOfHf (k : Kernel) (hf : Nat) : List Nat := k.liveCells.filter (fun c => (k.cellAt c).contains hf)
def sCellOf (k : Kernel) (hf : Nat) : Option Nat := (k.sCellsOfHf hf).head?

/-- C01's stated precondition: no halfface is used by two live cells (or twice by one) -/
def oneCell (k : Kernel) : Bool :=
  (List.range k.nHF).all (fun hf => (k.liveCells.map (fun c => (k.cellAt c).count hf)).sum ≤ 1)

/-! derived relations -/
def faceTouchesV (k : Kernel) (f v : Nat) : Bool := (k.faceAt f).any (fun h => k.fromV h == v || k.toV h == v)
def faceHasEdge (k : Kernel) (f e : Nat) : Bool := (k.faceAt f).any (fun h => eOf h == e)
def cellHasFace (k : Kernel) (c f : Nat) : Bool := (k.cellAt c).any (fun hf => eOf hf == f)

def sVV (k : Kernel) (v : Nat) : List Nat := sortL ((k.sOut v).map k.toV)
def sVE (k : Kernel) (v : Nat) : List Nat := sortL ((k.sOut v).map eOf)
def sVF (k : Kernel) (v : Nat) : List Nat := k.liveFaces.filter (fun f => k.faceTouchesV f v)
def sVHF (k : Kernel) (v : Nat) : List Nat := (k.sVF v).flatMap (fun f => [2 * f, 2 * f + 1])
def sVC (k : Kernel) (v : Nat) : List Nat :=
  k.liveCells.filter (fun c => (k.cellAt c).any (fun hf => k.liveF (eOf hf) && k.faceTouchesV (eOf hf) v))
def sEF (k : Kernel) (e : Nat) : List Nat := k.liveFaces.filter (fun f => k.faceHasEdge f e)
def sHEF (k : Kernel) (h : Nat) : List Nat := k.sEF (eOf h)
/-- with multiplicity: one pair of halffaces per use of the edge -/
def sEHF (k : Kernel) (e : Nat) : List Nat :=
  sortL (k.liveFaces.flatMap (fun f => (List.replicate ((k.faceAt f).countP (fun h => eOf h == e)) [2 * f, 2 * f + 1]).flatten))
def sHEC (k : Kernel) (h : Nat) : List Nat :=
  k.liveCells.filter (fun c => (k.cellAt c).any (fun hf => k.liveF (eOf hf) && (k.hfHes hf).contains h))
def sCC (k : Kernel) (c : Nat) : List Nat :=
  k.liveCells.filter (fun c' => (k.cellAt c).any (fun hf => (k.cellAt c').contains (opp hf)))

def sBoundaryHF (k : Kernel) (hf : Nat) : Bool := (k.sCellsOfHf hf).isEmpty
def sBoundaryF (k : Kernel) (f : Nat) : Bool := k.sBoundaryHF (2 * f) || k.sBoundaryHF (2 * f + 1)
def sBoundaryHE (k : Kernel) (h : Nat) : Bool :=
  k.liveFaces.any (fun f => ((k.hfHes (2 * f)).contains h || (k.hfHes (2 * f + 1)).contains h) && k.sBoundaryF f)
def sBoundaryE (k : Kernel) (e : Nat) : Bool := (k.sEF e).any k.sBoundaryF
def sBoundaryV (k : Kernel) (v : Nat) : Bool := (k.sOut v).any k.sBoundaryHE
def sBoundaryC (k : Kernel) (c : Nat) : Bool := (k.cellAt c).any (fun hf => k.sBoundaryF (eOf hf))

/-! ### the cache invariant, as an executable test (the `Prop` form is in `Refine/Inv`) -/
def cacheInvVB (k : Kernel) : Bool :=
  !k.vBU || (k.outHes.length == k.nV && (List.range k.nV).all (fun v => sortL (k.outOf v) == k.sOut v))
def cacheInvEB (k : Kernel) : Bool :=
  !k.eBU || (k.incHfs.length == k.nHE && (List.range k.nHE).all (fun h => sortL (k.hfsOf h) == k.sHfsOfHe h))
def cacheInvFB (k : Kernel) : Bool :=
  !k.fBU || (k.incCell.length == k.nHF && (List.range k.nHF).all (fun hf => k.cellOf hf == k.sCellOf hf))
def cacheInvB (k : Kernel) : Bool := k.cacheInvVB && k.cacheInvEB && k.cacheInvFB

end Kernel
end OVM

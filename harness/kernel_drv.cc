// kernel_drv: generates structured operation histories on a real OpenVolumeMesh kernel
// (public API only), executes them in-process and writes, after every operation, a
// canonical dump of the whole observable state.  Format: DESIGN.md Appendix A.
//
//   kernel_drv --kind poly|tet|hex --profile core|c11|c17|c09|c12|c04|c10 --seed S
//              --traces N --ops M --out FILE [--queries P] [--replay TRACE]
//
// Every trace runs in a forked child; a sanitizer abort / signal / timeout leaves the partial
// trace followed by an `X <reason>` line.
#include "common.hh"
#include <OpenVolumeMesh/Mesh/PolyhedralMesh.hh>
#include <OpenVolumeMesh/Mesh/TetrahedralMesh.hh>
#include <OpenVolumeMesh/Mesh/HexahedralMesh.hh>
#include <OpenVolumeMesh/Attribs/StatusAttrib.hh>
#include <sys/wait.h>
#include <unistd.h>
#include <signal.h>
#include <functional>
#include <map>
#include <memory>
#include <set>

using namespace OpenVolumeMesh;
using Vec3d = Geometry::Vec3d;
typedef GeometricPolyhedralMeshV3d PolyMesh;
typedef GeometricTetrahedralMeshV3d TetMesh;
typedef GeometricHexahedralMeshV3d HexMesh;

static FILE* OUT = stdout;

// ---------------------------------------------------------------------------------------------
// property columns (tokens)
struct PropBase {
    std::string key; int kind; std::string type; long dflt;
    virtual ~PropBase() {}
    virtual size_t size() const = 0;
    virtual long get(size_t i) const = 0;
    virtual void set(size_t i, long tok) = 0;
};
template <class T> struct Tok;
template <> struct Tok<int> { static int enc(long t) { return (int)t; } static long dec(int v) { return v; } static const char* name() { return "int"; } };
template <> struct Tok<bool> { static bool enc(long t) { return (t & 1) != 0; } static long dec(bool v) { return v ? 1 : 0; } static const char* name() { return "bool"; } };
template <> struct Tok<double> { static double enc(long t) { return (double)t; } static long dec(double v) { return (long)v; } static const char* name() { return "double"; } };
template <> struct Tok<std::string> { static std::string enc(long t) { return std::to_string(t); } static long dec(const std::string& v) { return v.empty() ? -777 : atol(v.c_str()); } static const char* name() { return "string"; } };
template <> struct Tok<Vec3d> { static Vec3d enc(long t) { return Vec3d((double)t, 0, 0); } static long dec(const Vec3d& v) { return (long)v[0]; } static const char* name() { return "vec3d"; } };

template <class T, class Tag> struct PropBox : PropBase {
    PropertyPtr<T, Tag> p;
    explicit PropBox(PropertyPtr<T, Tag> pp) : p(std::move(pp)) {}
    size_t size() const override { return p.size(); }
    long get(size_t i) const override { return Tok<T>::dec(T(p.data_vector()[i])); }
    void set(size_t i, long tok) override { p[HandleT<Tag>((int)i)] = Tok<T>::enc(tok); }
};

static const char* KIND_NAMES[7] = {"v", "e", "he", "f", "hf", "c", "m"};

// ---------------------------------------------------------------------------------------------
struct Op { std::string name; std::vector<long> a; };

struct Driver {
    TopologyKernel& m;
    std::string kind;       // poly | tet | hex
    vh::Rng rng;
    std::string profile;
    int query_pct = 34;
    std::vector<std::unique_ptr<PropBase>> props;
    long next_tok = 100;
    int prop_counter = 0;
    // paired all-BU mesh for C12 (profile c12)
    TopologyKernel* twin = nullptr;
    std::vector<std::unique_ptr<PropBase>> twin_props;

    Driver(TopologyKernel& mm, std::string k, uint64_t seed, std::string prof) : m(mm), kind(std::move(k)), rng(seed), profile(std::move(prof)) {}

    // ---------------- helpers on the current mesh (definition scans only: no BU needed)
    int nV() const { return (int)m.n_vertices(); }
    int nE() const { return (int)m.n_edges(); }
    int nF() const { return (int)m.n_faces(); }
    int nC() const { return (int)m.n_cells(); }
    bool liveV(int v) const { return v >= 0 && v < nV() && !m.is_deleted(VertexHandle(v)); }
    bool liveE(int e) const { return e >= 0 && e < nE() && !m.is_deleted(EdgeHandle(e)); }
    bool liveF(int f) const { return f >= 0 && f < nF() && !m.is_deleted(FaceHandle(f)); }
    bool liveC(int c) const { return c >= 0 && c < nC() && !m.is_deleted(CellHandle(c)); }
    bool liveHE(int h) const { return h >= 0 && liveE(h / 2); }
    bool liveHF(int h) const { return h >= 0 && liveF(h / 2); }
    std::vector<int> live(int kindIdx) const {
        std::vector<int> r;
        int n = kindIdx == 0 ? nV() : kindIdx == 1 ? nE() : kindIdx == 2 ? nF() : nC();
        for (int i = 0; i < n; ++i) {
            bool l = kindIdx == 0 ? liveV(i) : kindIdx == 1 ? liveE(i) : kindIdx == 2 ? liveF(i) : liveC(i);
            if (l) r.push_back(i);
        }
        return r;
    }
    int from(int he) const { return m.halfedge(HalfEdgeHandle(he)).from_vertex().idx(); }
    int to(int he) const { return m.halfedge(HalfEdgeHandle(he)).to_vertex().idx(); }
    std::vector<int> hf_hes(int hf) const {
        std::vector<int> r;
        for (auto h : m.halfface(HalfFaceHandle(hf)).halfedges()) r.push_back(h.idx());
        return r;
    }
    std::vector<int> hf_verts(int hf) const {
        std::vector<int> r;
        for (int h : hf_hes(hf)) r.push_back(from(h));
        return r;
    }
    bool hf_in_live_cell(int hf) const {
        for (int c = 0; c < nC(); ++c) {
            if (!liveC(c)) continue;
            for (auto h : m.cell(CellHandle(c)).halffaces()) if (h.idx() == hf) return true;
        }
        return false;
    }
    bool face_in_live_cell(int f) const { return hf_in_live_cell(2 * f) || hf_in_live_cell(2 * f + 1); }
    bool edge_in_live_face(int e) const {
        for (int f = 0; f < nF(); ++f) {
            if (!liveF(f)) continue;
            for (auto h : m.face(FaceHandle(f)).halfedges()) if (h.idx() / 2 == e) return true;
        }
        return false;
    }
    bool closed_loop(const std::vector<long>& hes) const {
        if (hes.empty()) return false;
        for (size_t i = 0; i < hes.size(); ++i)
            if (to((int)hes[i]) != from((int)hes[(i + 1) % hes.size()])) return false;
        return true;
    }
    bool closed_surface(const std::vector<long>& hfs) const {
        std::multiset<int> H;
        for (long hf : hfs) for (int h : hf_hes((int)hf)) H.insert(h);
        if (H.empty()) return false;
        for (int h : H) { if (H.count(h) != 1) return false; if (H.count(h ^ 1) != 1) return false; }
        return true;
    }
    // live halfface (either side) with exactly this vertex cycle (up to rotation), -1 if none
    int find_hf_by_verts(const std::vector<int>& vs) const {
        size_t n = vs.size();
        for (int hf = 0; hf < 2 * nF(); ++hf) {
            if (!liveHF(hf)) continue;
            std::vector<int> w = hf_verts(hf);
            if (w.size() != n) continue;
            for (size_t r = 0; r < n; ++r) {
                bool ok = true;
                for (size_t i = 0; i < n && ok; ++i) ok = w[(i + r) % n] == vs[i];
                if (ok) return hf;
            }
        }
        return -1;
    }

    // ---------------- output
    void print_list(const char* tag, long idx, const std::vector<int>& v) {
        fprintf(OUT, "%s %ld %zu", tag, idx, v.size());
        for (int x : v) fprintf(OUT, " %d", x);
        fputc('\n', OUT);
    }
    void dump_mesh(const TopologyKernel& k, const std::vector<std::unique_ptr<PropBase>>& pr, const char* pfx) {
        fprintf(OUT, "%sn %zu %zu %zu %zu l %zu %zu %zu %zu gc %d genus %d\n", pfx, k.n_vertices(), k.n_edges(), k.n_faces(), k.n_cells(),
                k.n_logical_vertices(), k.n_logical_edges(), k.n_logical_faces(), k.n_logical_cells(), k.needs_garbage_collection() ? 1 : 0, k.genus());
        fprintf(OUT, "%sm %d %d %d %d %d\n", pfx, k.deferred_deletion_enabled(), k.fast_deletion_enabled(),
                k.has_vertex_bottom_up_incidences(), k.has_edge_bottom_up_incidences(), k.has_face_bottom_up_incidences());
        fprintf(OUT, "%svd %zu", pfx, k.n_vertices());
        for (size_t v = 0; v < k.n_vertices(); ++v) fprintf(OUT, " %d", k.is_deleted(VertexHandle((int)v)) ? 1 : 0);
        fputc('\n', OUT);
        for (size_t e = 0; e < k.n_edges(); ++e) {
            auto ed = k.edge(EdgeHandle((int)e));
            fprintf(OUT, "%se %zu %d %d %d\n", pfx, e, ed.from_vertex().idx(), ed.to_vertex().idx(), k.is_deleted(EdgeHandle((int)e)) ? 1 : 0);
        }
        for (size_t f = 0; f < k.n_faces(); ++f) {
            const auto& hes = k.face(FaceHandle((int)f)).halfedges();
            fprintf(OUT, "%sf %zu %d %zu", pfx, f, k.is_deleted(FaceHandle((int)f)) ? 1 : 0, hes.size());
            for (auto h : hes) fprintf(OUT, " %d", h.idx());
            fputc('\n', OUT);
        }
        for (size_t c = 0; c < k.n_cells(); ++c) {
            const auto& hfs = k.cell(CellHandle((int)c)).halffaces();
            fprintf(OUT, "%sc %zu %d %zu", pfx, c, k.is_deleted(CellHandle((int)c)) ? 1 : 0, hfs.size());
            for (auto h : hfs) fprintf(OUT, " %d", h.idx());
            fputc('\n', OUT);
        }
        if (k.has_vertex_bottom_up_incidences())
            for (size_t v = 0; v < k.n_vertices(); ++v) {
                fprintf(OUT, "%sov %zu", pfx, v);
                std::vector<int> l;
                for (auto it = k.voh_iter(VertexHandle((int)v)); it.valid(); ++it) l.push_back(it->idx());
                fprintf(OUT, " %zu", l.size());
                for (int x : l) fprintf(OUT, " %d", x);
                fputc('\n', OUT);
            }
        if (k.has_edge_bottom_up_incidences())
            for (size_t h = 0; h < k.n_halfedges(); ++h) {
                std::vector<int> l;
                for (auto it = k.hehf_iter(HalfEdgeHandle((int)h)); it.valid(); ++it) l.push_back(it->idx());
                fprintf(OUT, "%sih %zu %zu", pfx, h, l.size());
                for (int x : l) fprintf(OUT, " %d", x);
                fputc('\n', OUT);
            }
        if (k.has_face_bottom_up_incidences())
            for (size_t h = 0; h < k.n_halffaces(); ++h)
                fprintf(OUT, "%sic %zu %d\n", pfx, h, k.incident_cell(HalfFaceHandle((int)h)).idx());
        for (const auto& p : pr) {
            fprintf(OUT, "%sp %s %s %s %ld %zu", pfx, KIND_NAMES[p->kind], p->key.c_str(), p->type.c_str(), p->dflt, p->size());
            for (size_t i = 0; i < p->size(); ++i) fprintf(OUT, " %ld", p->get(i));
            fputc('\n', OUT);
        }
    }
    void dump() {
        dump_mesh(m, props, "");
        if (twin) dump_mesh(*twin, twin_props, "T");
    }

    // ---------------- queries (q lines), only asked when the needed incidences exist
    template <class It> void q_iter(const char* name, long arg, It it) {
        std::vector<int> l;
        for (; it.valid(); ++it) l.push_back(it->idx());
        print_list(name, arg, l);
    }
    void q_bool(const char* name, long arg, bool b) { fprintf(OUT, "%s %ld %d\n", name, arg, b ? 1 : 0); }
    void dump_queries() {
        bool vbu = m.has_vertex_bottom_up_incidences(), ebu = m.has_edge_bottom_up_incidences(), fbu = m.has_face_bottom_up_incidences();
        bool full = vbu && ebu && fbu;
        for (int v = 0; v < nV(); ++v) {
            VertexHandle vh(v);
            if (vbu) {
                q_iter("qvoh", v, m.voh_iter(vh)); q_iter("qvih", v, m.vih_iter(vh)); q_iter("qvv", v, m.vv_iter(vh)); q_iter("qve", v, m.ve_iter(vh));
                fprintf(OUT, "qvalv %d %zu\n", v, m.valence(vh));
            }
            if (vbu && ebu) q_iter("qvhf", v, m.vhf_iter(vh));
            if (full) { q_iter("qvf", v, m.vf_iter(vh)); q_iter("qvc", v, m.vc_iter(vh)); q_bool("qbv", v, m.is_boundary(vh)); }
        }
        for (int e = 0; e < nE(); ++e) {
            EdgeHandle eh(e);
            if (ebu) { q_iter("qef", e, m.ef_iter(eh)); q_iter("qehf", e, m.ehf_iter(eh)); fprintf(OUT, "qvale %d %zu\n", e, m.valence(eh)); }
            if (ebu && fbu) { q_iter("qec", e, m.ec_iter(eh)); q_bool("qbe", e, m.is_boundary(eh)); }
        }
        for (int h = 0; h < 2 * nE(); ++h) {
            HalfEdgeHandle hh(h);
            if (ebu) { q_iter("qhehf", h, m.hehf_iter(hh)); q_iter("qhef", h, m.hef_iter(hh)); }
            if (ebu && fbu) { q_iter("qhec", h, m.hec_iter(hh)); q_bool("qbhe", h, m.is_boundary(hh)); }
        }
        for (int f = 0; f < nF(); ++f) {
            FaceHandle fh(f);
            fprintf(OUT, "qvalf %d %zu\n", f, m.valence(fh));
            if (fbu) q_bool("qbf", f, m.is_boundary(fh));
        }
        if (fbu) for (int h = 0; h < 2 * nF(); ++h) {
            q_bool("qbhf", h, m.is_boundary(HalfFaceHandle(h)));
            fprintf(OUT, "qic %d %d\n", h, m.incident_cell(HalfFaceHandle(h)).idx());
        }
        for (int c = 0; c < nC(); ++c) {
            CellHandle ch(c);
            fprintf(OUT, "qvalc %d %zu\n", c, m.valence(ch));
            if (fbu) { q_iter("qcc", c, m.cc_iter(ch)); q_bool("qbc", c, m.is_boundary(ch)); }
        }
        // boundary iterators
        if (full) { std::vector<int> l; for (auto it = m.bv_iter(); it.valid(); ++it) l.push_back(it->idx()); print_list("qbiv", 0, l); }
        if (ebu && fbu) {
            std::vector<int> l; for (auto it = m.bhe_iter(); it.valid(); ++it) l.push_back(it->idx()); print_list("qbihe", 0, l);
            l.clear(); for (auto it = m.be_iter(); it.valid(); ++it) l.push_back(it->idx()); print_list("qbie", 0, l);
        }
        if (fbu) {
            std::vector<int> l; for (auto it = m.bhf_iter(); it.valid(); ++it) l.push_back(it->idx()); print_list("qbihf", 0, l);
            l.clear(); for (auto it = m.bf_iter(); it.valid(); ++it) l.push_back(it->idx()); print_list("qbif", 0, l);
            l.clear(); for (auto it = m.bc_iter(); it.valid(); ++it) l.push_back(it->idx()); print_list("qbic", 0, l);
        }
    }

    // ---------------- iterators / circulators (C05): every class x centre x max_laps 1..3
    template <class Pair> void dump_circ(const char* name, long centre, int laps, Pair pr) {
        auto it = pr.first;
        std::vector<int> seq;
        size_t cap = 4096;
        while (it.valid() && seq.size() < cap) { seq.push_back(it->idx()); ++it; }
        bool endeq = (it == pr.second);
        size_t cnt = 0;
        for (auto jt = pr.first; jt != pr.second && cnt < cap; ++jt) ++cnt;
        // forward j steps then back j steps, from begin, for a few j that stay on valid positions
        bool backok = true;
        size_t n = seq.size();
        for (size_t j : {(size_t)1, n / 2, n > 0 ? n - 1 : 0}) {
            if (n == 0 || j == 0 || j >= n) continue;
            auto a = pr.first;
            for (size_t i = 0; i < j; ++i) ++a;
            for (size_t i = 0; i < j; ++i) --a;
            if (!(a == pr.first) || a->idx() != pr.first->idx()) backok = false;
        }
        // the whole sequence backwards (all laps): from the last position, -- until invalid = forward sequence reversed
        if (n > 0 && n < cap) {
            auto a = pr.first;
            for (size_t i = 0; i + 1 < n; ++i) ++a;
            std::vector<int> back;
            while (a.valid() && back.size() < n + 2) { back.push_back(a->idx()); --a; }
            if (back.size() != n) backok = false;
            else for (size_t i = 0; i < n; ++i) if (back[i] != seq[n - 1 - i]) backok = false;
        }
        int peh = -2, pev = -1;
        if (n > 0) { auto e = pr.second; --e; peh = e->idx(); pev = e.valid() ? 1 : 0; }
        fprintf(OUT, "it_%s %ld %d %d %zu %d %d %d %zu", name, centre, laps, endeq ? 1 : 0, cnt, backok ? 1 : 0, peh, pev, n);
        for (int x : seq) fprintf(OUT, " %d", x);
        fputc('\n', OUT);
    }
    template <class Pair> void dump_entity_iter(const char* name, Pair pr) {
        auto it = pr.first;
        std::vector<int> seq;
        while (it.valid() && seq.size() < 100000) { seq.push_back(it->idx()); ++it; }
        bool endeq = (it == pr.second);
        size_t cnt = 0;
        for (auto jt = pr.first; jt != pr.second && cnt < 100000; ++jt) ++cnt;
        bool backok = true;
        size_t n = seq.size();
        for (size_t j : {(size_t)1, n / 2, n > 0 ? n - 1 : 0}) {
            if (n == 0 || j == 0 || j >= n) continue;
            auto a = pr.first;
            for (size_t i = 0; i < j; ++i) ++a;
            for (size_t i = 0; i < j; ++i) --a;
            if (!(a == pr.first)) backok = false;
        }
        // the whole range backwards: from the last element, -- until the iterator reports invalid; that must be the
        // forward sequence reversed (deleted entities at the FRONT of the array are skipped on the way down, too)
        if (n > 0) {
            auto a = pr.first;
            for (size_t i = 0; i + 1 < n; ++i) ++a;
            std::vector<int> back;
            while (a.valid() && back.size() < n + 2) { back.push_back(a->idx()); --a; }
            if (back.size() != n) backok = false;
            else for (size_t i = 0; i < n; ++i) if (back[i] != seq[n - 1 - i]) backok = false;
        }
        int peh = -2, pev = -1;
        if (n > 0) { auto e = pr.second; --e; peh = e->idx(); pev = e.valid() ? 1 : 0; }
        fprintf(OUT, "ite_%s 0 1 %d %zu %d %d %d %zu", name, endeq ? 1 : 0, cnt, backok ? 1 : 0, peh, pev, n);
        for (int x : seq) fprintf(OUT, " %d", x);
        fputc('\n', OUT);
    }
    void dump_iters() {
        dump_entity_iter("v", m.vertices()); dump_entity_iter("e", m.edges()); dump_entity_iter("he", m.halfedges());
        dump_entity_iter("f", m.faces()); dump_entity_iter("hf", m.halffaces()); dump_entity_iter("c", m.cells());
        for (int laps = 1; laps <= 3; ++laps) {
            for (int v = 0; v < nV(); ++v) {
                VertexHandle h(v);
                dump_circ("voh", v, laps, m.outgoing_halfedges(h, laps)); dump_circ("vih", v, laps, m.incoming_halfedges(h, laps));
                dump_circ("vv", v, laps, m.vertex_vertices(h, laps)); dump_circ("ve", v, laps, m.vertex_edges(h, laps));
                dump_circ("vhf", v, laps, m.vertex_halffaces(h, laps)); dump_circ("vf", v, laps, m.vertex_faces(h, laps));
                dump_circ("vc", v, laps, m.vertex_cells(h, laps));
            }
            for (int e = 0; e < nE(); ++e) {
                EdgeHandle h(e);
                dump_circ("ehf", e, laps, m.edge_halffaces(h, laps)); dump_circ("ef", e, laps, m.edge_faces(h, laps)); dump_circ("ec", e, laps, m.edge_cells(h, laps));
            }
            for (int e = 0; e < 2 * nE(); ++e) {
                HalfEdgeHandle h(e);
                dump_circ("hehf", e, laps, m.halfedge_halffaces(h, laps)); dump_circ("hef", e, laps, m.halfedge_faces(h, laps)); dump_circ("hec", e, laps, m.halfedge_cells(h, laps));
            }
            for (int f = 0; f < nF(); ++f) {
                FaceHandle h(f);
                if (m.face(h).halfedges().empty()) continue;
                dump_circ("fv", f, laps, m.face_vertices(h, laps)); dump_circ("fhe", f, laps, m.face_halfedges(h, laps)); dump_circ("fe", f, laps, m.face_edges(h, laps));
            }
            for (int f = 0; f < 2 * nF(); ++f) {
                HalfFaceHandle h(f);
                if (m.face(FaceHandle(f / 2)).halfedges().empty()) continue;
                dump_circ("hfv", f, laps, m.halfface_vertices(h, laps)); dump_circ("hfhe", f, laps, m.halfface_halfedges(h, laps)); dump_circ("hfe", f, laps, m.halfface_edges(h, laps));
                dump_circ("bhfhf", f, laps, m.boundary_halfface_halffaces(h, laps));
            }
            for (int c = 0; c < nC(); ++c) {
                CellHandle h(c);
                dump_circ("cv", c, laps, m.cell_vertices(h, laps)); dump_circ("che", c, laps, m.cell_halfedges(h, laps)); dump_circ("ce", c, laps, m.cell_edges(h, laps));
                dump_circ("chf", c, laps, m.cell_halffaces(h, laps)); dump_circ("cf", c, laps, m.cell_faces(h, laps)); dump_circ("cc", c, laps, m.cell_cells(h, laps));
            }
        }
    }

    // ---------------- lookups (C10): exhaustive over small argument spaces
    void dump_lookups() {
        bool vbu = m.has_vertex_bottom_up_incidences(), ebu = m.has_edge_bottom_up_incidences(), fbu = m.has_face_bottom_up_incidences();
        if (!(vbu && ebu && fbu)) return;
        std::vector<int> lv = live(0);
        if (lv.size() > 7) { rng.shuffle(lv); lv.resize(7); std::sort(lv.begin(), lv.end()); }
        for (int a : lv) for (int b : lv) fprintf(OUT, "lfhe %d %d %d\n", a, b, m.find_halfedge(VertexHandle(a), VertexHandle(b)).idx());
        for (int a : lv) for (int b : lv) for (int c : lv) {
            if (a == b || b == c) continue;
            std::vector<VertexHandle> vs{VertexHandle(a), VertexHandle(b), VertexHandle(c)};
            fprintf(OUT, "lfhf3 %d %d %d %d\n", a, b, c, m.find_halfface(vs).idx());
            fprintf(OUT, "lfhfx3 %d %d %d %d\n", a, b, c, m.find_halfface_extensive(vs).idx());
        }
        // full vertex tuples of existing halffaces: rotated / reversed / as is
        for (int hf = 0; hf < 2 * nF(); ++hf) {
            if (!liveHF(hf)) continue;
            std::vector<int> w = hf_verts(hf);
            // the halfedge list of this side as the library reports it (C08: the odd side is the reversed list of opposites)
            { std::vector<int> l = hf_hes(hf); fprintf(OUT, "lhfhes %d %zu", hf, l.size()); for (int x : l) fprintf(OUT, " %d", x); fputc('\n', OUT);
              fprintf(OUT, "lopphf %d %d\n", hf, m.opposite_halfface_handle(HalfFaceHandle(hf)).idx()); }
            if (w.size() < 3) {      // loops and 2-gons: the cycle queries only
                for (int h : hf_hes(hf)) {
                    fprintf(OUT, "lnext %d %d %d\n", h, hf, m.next_halfedge_in_halfface(HalfEdgeHandle(h), HalfFaceHandle(hf)).idx());
                    fprintf(OUT, "lprev %d %d %d\n", h, hf, m.prev_halfedge_in_halfface(HalfEdgeHandle(h), HalfFaceHandle(hf)).idx());
                }
                { auto r = m.get_halfface_vertices(HalfFaceHandle(hf)); std::vector<int> l; for (auto x : r) l.push_back(x.idx()); print_list("lghv", hf, l); }
                continue;
            }
            for (int variant = 0; variant < 3; ++variant) {
                std::vector<int> u = w;
                if (variant == 1) std::rotate(u.begin(), u.begin() + 1, u.end());
                if (variant == 2) std::reverse(u.begin(), u.end());
                std::vector<VertexHandle> vs; for (int x : u) vs.push_back(VertexHandle(x));
                fprintf(OUT, "lfhfx %zu", u.size()); for (int x : u) fprintf(OUT, " %d", x);
                fprintf(OUT, " %d\n", m.find_halfface_extensive(vs).idx());
                fprintf(OUT, "lfhfv %zu", u.size()); for (int x : u) fprintf(OUT, " %d", x);
                fprintf(OUT, " %d\n", m.find_halfface(vs).idx());
            }
            // get_halfface_vertices x3
            { auto r = m.get_halfface_vertices(HalfFaceHandle(hf)); std::vector<int> l; for (auto x : r) l.push_back(x.idx()); print_list("lghv", hf, l); }
            for (int v : w) { auto r = m.get_halfface_vertices(HalfFaceHandle(hf), VertexHandle(v)); fprintf(OUT, "lghvv %d %d %zu", hf, v, r.size()); for (auto x : r) fprintf(OUT, " %d", x.idx()); fputc('\n', OUT); }
            for (int h : hf_hes(hf)) { auto r = m.get_halfface_vertices(HalfFaceHandle(hf), HalfEdgeHandle(h)); fprintf(OUT, "lghvh %d %d %zu", hf, h, r.size()); for (auto x : r) fprintf(OUT, " %d", x.idx()); fputc('\n', OUT); }
            for (int h : hf_hes(hf)) {
                fprintf(OUT, "lnext %d %d %d\n", h, hf, m.next_halfedge_in_halfface(HalfEdgeHandle(h), HalfFaceHandle(hf)).idx());
                fprintf(OUT, "lprev %d %d %d\n", h, hf, m.prev_halfedge_in_halfface(HalfEdgeHandle(h), HalfFaceHandle(hf)).idx());
            }
        }
        // find_halfface(halfedges): all ordered pairs of live halfedges (capped)
        std::vector<int> lhe; for (int h = 0; h < 2 * nE(); ++h) if (liveHE(h)) lhe.push_back(h);
        if (lhe.size() > 14) { rng.shuffle(lhe); lhe.resize(14); std::sort(lhe.begin(), lhe.end()); }
        for (int a : lhe) for (int b : lhe) {
            std::vector<HalfEdgeHandle> hs{HalfEdgeHandle(a), HalfEdgeHandle(b)};
            fprintf(OUT, "lfhfh %d %d %d\n", a, b, m.find_halfface(hs).idx());
        }
        // is_incident(face, edge)
        for (int f = 0; f < nF(); ++f) { if (!liveF(f)) continue; for (int e = 0; e < nE(); ++e) { if (!liveE(e)) continue; fprintf(OUT, "linc %d %d %d\n", f, e, m.is_incident(FaceHandle(f), EdgeHandle(e)) ? 1 : 0); } }
        // per closed live cell
        for (int c = 0; c < nC(); ++c) {
            if (!liveC(c)) continue;
            std::vector<long> hfs; for (auto h : m.cell(CellHandle(c)).halffaces()) hfs.push_back(h.idx());
            if (!closed_surface(hfs)) continue;
            fprintf(OUT, "lnvc %d %zu\n", c, m.n_vertices_in_cell(CellHandle(c)));
            std::set<int> cv; for (long hf : hfs) for (int v : hf_verts((int)hf)) cv.insert(v);
            std::vector<int> cvv(cv.begin(), cv.end());
            std::vector<int> others = lv;
            for (int a : cvv) for (int b : cvv) fprintf(OUT, "lfhec %d %d %d %d\n", a, b, c, m.find_halfedge_in_cell(VertexHandle(a), VertexHandle(b), CellHandle(c)).idx());
            if (cvv.size() <= 8) for (int a : cvv) for (int b : cvv) for (int d : cvv) {
                if (a == b || b == d || a == d) continue;
                std::vector<VertexHandle> vs{VertexHandle(a), VertexHandle(b), VertexHandle(d)};
                fprintf(OUT, "lfhfc %d %d %d %d %d\n", a, b, d, c, m.find_halfface_in_cell(vs, CellHandle(c)).idx());
            }
            // adjacency table (C09): every halfface x every halfedge of it (both orientations)
            for (long hf : hfs) for (int h : hf_hes((int)hf)) {
                fprintf(OUT, "ladj %ld %d %d\n", hf, h, m.adjacent_halfface_in_cell(HalfFaceHandle((int)hf), HalfEdgeHandle(h)).idx());
                fprintf(OUT, "ladj %ld %d %d\n", hf, h ^ 1, m.adjacent_halfface_in_cell(HalfFaceHandle((int)hf), HalfEdgeHandle(h ^ 1)).idx());
            }
        }
    }

    // ---------------- properties
    template <class T, class Tag> void mk_prop_on(TopologyKernel& k, std::vector<std::unique_ptr<PropBase>>& dst, int kindIdx, const std::string& key, long dflt, int flavour) {
        // flavour: 0 shared (request), 1 private, 2 persistent
        std::unique_ptr<PropBox<T, Tag>> b;
        if (flavour == 1) b.reset(new PropBox<T, Tag>(k.template create_private_property<T, Tag>(key, Tok<T>::enc(dflt))));
        else if (flavour == 2) { auto o = k.template create_persistent_property<T, Tag>(key, Tok<T>::enc(dflt)); if (!o) return; b.reset(new PropBox<T, Tag>(*o)); }
        else b.reset(new PropBox<T, Tag>(k.template request_property<T, Tag>(key, Tok<T>::enc(dflt))));
        b->key = key; b->kind = kindIdx; b->type = Tok<T>::name(); b->dflt = Tok<T>::dec(Tok<T>::enc(dflt));
        dst.push_back(std::move(b));
    }
    template <class T> void mk_prop_kind(TopologyKernel& k, std::vector<std::unique_ptr<PropBase>>& dst, int kindIdx, const std::string& key, long dflt, int flavour) {
        switch (kindIdx) {
        case 0: mk_prop_on<T, Entity::Vertex>(k, dst, kindIdx, key, dflt, flavour); break;
        case 1: mk_prop_on<T, Entity::Edge>(k, dst, kindIdx, key, dflt, flavour); break;
        case 2: mk_prop_on<T, Entity::HalfEdge>(k, dst, kindIdx, key, dflt, flavour); break;
        case 3: mk_prop_on<T, Entity::Face>(k, dst, kindIdx, key, dflt, flavour); break;
        case 4: mk_prop_on<T, Entity::HalfFace>(k, dst, kindIdx, key, dflt, flavour); break;
        case 5: mk_prop_on<T, Entity::Cell>(k, dst, kindIdx, key, dflt, flavour); break;
        default: mk_prop_on<T, Entity::Mesh>(k, dst, kindIdx, key, dflt, flavour); break;
        }
    }
    void mk_prop(TopologyKernel& k, std::vector<std::unique_ptr<PropBase>>& dst, int kindIdx, int typeIdx, const std::string& key, long dflt, int flavour) {
        switch (typeIdx) {
        case 0: mk_prop_kind<int>(k, dst, kindIdx, key, dflt, flavour); break;
        case 1: mk_prop_kind<bool>(k, dst, kindIdx, key, dflt, flavour); break;
        case 2: mk_prop_kind<double>(k, dst, kindIdx, key, dflt, flavour); break;
        case 3: mk_prop_kind<std::string>(k, dst, kindIdx, key, dflt, flavour); break;
        default: mk_prop_kind<Vec3d>(k, dst, kindIdx, key, dflt, flavour); break;
        }
    }
    void make_id_columns() {
        static const int kinds[4] = {0, 1, 3, 5};
        static const char* keys[4] = {"idv", "ide", "idf", "idc"};
        for (int i = 0; i < 4; ++i) { mk_prop(m, props, kinds[i], 0, keys[i], 0, 1); if (twin) mk_prop(*twin, twin_props, kinds[i], 0, keys[i], 0, 1); }
    }
    // give every slot that still holds the default a fresh token (bool columns: parity)
    void retoken(std::vector<std::unique_ptr<PropBase>>& pr, bool idOnly) {
        size_t k = 0;
        for (auto& p : pr) { if (!(idOnly && k >= 4)) for (size_t i = 0; i < p->size(); ++i) if (p->get(i) == p->dflt) { p->set(i, next_tok); next_tok += 1; } ++k; }
    }

    // ---------------- operation execution (generation and replay both go through exec)
    void emit_op(const Op& op, bool malformed) {
        fprintf(OUT, "%s %s", malformed ? "O!" : "O", op.name.c_str());
        for (long x : op.a) fprintf(OUT, " %ld", x);
        fputc('\n', OUT);
        fflush(OUT);
    }
    void finish_step(const std::string& res) {
        fprintf(OUT, "R %s\n", res.c_str());
        dump();
        if ((int)rng.below(100) < query_pct) dump_queries();
        if ((profile == "c10" || profile == "c09") && rng.chance(1, 4)) dump_lookups();
        if (profile == "c05" && rng.chance(1, 8)) dump_iters();
        fputs("E\n", OUT);
        fflush(OUT);
    }

    // validity of an op in the current state (the property's "valid arguments")
    bool valid(const Op& op, bool& malformed) {
        malformed = false;
        const auto& a = op.a;
        const std::string& n = op.name;
        auto allLiveHE = [&](size_t from_i) { for (size_t i = from_i; i < a.size(); ++i) if (!liveHE((int)a[i])) return false; return true; };
        auto allLiveHF = [&](size_t from_i) { for (size_t i = from_i; i < a.size(); ++i) if (!liveHF((int)a[i])) return false; return true; };
        if (n == "add_vertex" || n == "collect_garbage" || n == "retoken") return true;
        if (n == "add_n_vertices") return a.size() == 1 && a[0] >= 0 && a[0] < 8;
        if (n == "add_edge") return a.size() == 3 && liveV((int)a[0]) && liveV((int)a[1]);
        if (n == "add_face_he") {       // chk n h...
            if (a.size() < 2 || (size_t)a[1] + 2 != a.size() || !allLiveHE(2)) return false;
            std::vector<long> hes(a.begin() + 2, a.end());
            bool ok = closed_loop(hes);
            if (kind == "tet" && hes.size() != 3) ok = false;
            if (kind == "hex" && hes.size() != 4) ok = false;
            if (a[0] == 0) return ok;          // unchecked call: the caller must pass a valid loop
            malformed = !ok;
            return true;
        }
        if (n == "add_face_v") {        // n v...
            if (a.size() < 2 || (size_t)a[0] + 1 != a.size()) return false;
            for (size_t i = 1; i < a.size(); ++i) if (!liveV((int)a[i])) return false;
            if (kind == "tet" && a[0] != 3) return false;
            if (kind == "hex" && a[0] != 4) return false;
            return true;
        }
        if (n == "add_cell") {          // chk n hf...
            if (a.size() < 2 || (size_t)a[1] + 2 != a.size() || !allLiveHF(2)) return false;
            std::vector<long> hfs(a.begin() + 2, a.end());
            for (long hf : hfs) if (hf_in_live_cell((int)hf)) return false;     // C01 precondition
            bool ok = closed_surface(hfs);
            if (kind == "tet" && hfs.size() != 4) ok = false;
            if (kind == "hex") return false;   // hex cells are added through hex_add_cell_v / dedicated driver
            if (a[0] == 0) return ok;
            malformed = !ok;
            return true;
        }
        if (n == "set_edge") return a.size() == 3 && liveE((int)a[0]) && liveV((int)a[1]) && liveV((int)a[2]) && !edge_in_live_face((int)a[0]);
        if (n == "set_face") {          // f n h...
            if (a.size() < 2 || (size_t)a[1] + 2 != a.size() || !liveF((int)a[0]) || !allLiveHE(2) || face_in_live_cell((int)a[0])) return false;
            std::vector<long> hes(a.begin() + 2, a.end());
            if (kind == "tet" && hes.size() != 3) return false;
            if (kind == "hex" && hes.size() != 4) return false;
            return closed_loop(hes);
        }
        if (n == "set_cell") {          // c n hf...
            if (a.size() < 2 || (size_t)a[1] + 2 != a.size() || !liveC((int)a[0]) || !allLiveHF(2)) return false;
            if (kind != "poly") return false;
            std::vector<long> hfs(a.begin() + 2, a.end());
            std::set<int> own; for (auto h : m.cell(CellHandle((int)a[0])).halffaces()) own.insert(h.idx());
            for (long hf : hfs) if (!own.count((int)hf) && hf_in_live_cell((int)hf)) return false;
            return closed_surface(hfs);
        }
        if (n == "delete_vertex") return a.size() == 1 && liveV((int)a[0]);
        if (n == "delete_edge") return a.size() == 1 && liveE((int)a[0]);
        if (n == "delete_face") return a.size() == 1 && liveF((int)a[0]);
        if (n == "delete_cell") return a.size() == 1 && liveC((int)a[0]);
        if (n == "swap_vertex") return a.size() == 2 && a[0] >= 0 && a[1] >= 0 && a[0] < nV() && a[1] < nV();
        if (n == "swap_edge") return a.size() == 2 && a[0] >= 0 && a[1] >= 0 && a[0] < nE() && a[1] < nE();
        if (n == "swap_face") return a.size() == 2 && a[0] >= 0 && a[1] >= 0 && a[0] < nF() && a[1] < nF();
        if (n == "swap_cell") return a.size() == 2 && a[0] >= 0 && a[1] >= 0 && a[0] < nC() && a[1] < nC();
        if (n == "enable_deferred" || n == "enable_fast") return a.size() == 1;
        if (n == "enable_bu") return a.size() == 2 && a[0] >= 0 && a[0] <= 2;
        if (n == "clear") return a.size() == 1;
        if (n == "prop_new") return a.size() == 4 && a[0] >= 0 && a[0] <= 6 && a[1] >= 0 && a[1] <= 4;
        if (n == "prop_drop") return a.size() == 1 && a[0] >= 4 && (size_t)a[0] < props.size();   // 0..3 are the id columns
        return false;
    }

    // apply to one mesh; returns the result string
    std::string apply(TopologyKernel& k, std::vector<std::unique_ptr<PropBase>>& pr, const Op& op, bool isTwin) {
        const auto& a = op.a;
        const std::string& n = op.name;
        char buf[64];
        if (n == "add_vertex") { snprintf(buf, 64, "%d", k.add_vertex().idx()); return buf; }
        if (n == "add_n_vertices") { k.add_n_vertices((size_t)a[0]); return "ok"; }
        if (n == "add_edge") { snprintf(buf, 64, "%d", k.add_edge(VertexHandle((int)a[0]), VertexHandle((int)a[1]), a[2] != 0).idx()); return buf; }
        if (n == "add_face_he") {
            std::vector<HalfEdgeHandle> hs; for (size_t i = 2; i < a.size(); ++i) hs.push_back(HalfEdgeHandle((int)a[i]));
            snprintf(buf, 64, "%d", k.add_face(hs, a[0] != 0).idx()); return buf;
        }
        if (n == "add_face_v") {
            std::vector<VertexHandle> vs; for (size_t i = 1; i < a.size(); ++i) vs.push_back(VertexHandle((int)a[i]));
            snprintf(buf, 64, "%d", k.add_face(vs).idx()); return buf;
        }
        if (n == "add_cell") {
            std::vector<HalfFaceHandle> hs; for (size_t i = 2; i < a.size(); ++i) hs.push_back(HalfFaceHandle((int)a[i]));
            snprintf(buf, 64, "%d", k.add_cell(hs, a[0] != 0).idx()); return buf;
        }
        if (n == "set_edge") { k.set_edge(EdgeHandle((int)a[0]), VertexHandle((int)a[1]), VertexHandle((int)a[2])); return "ok"; }
        if (n == "set_face") { std::vector<HalfEdgeHandle> hs; for (size_t i = 2; i < a.size(); ++i) hs.push_back(HalfEdgeHandle((int)a[i])); k.set_face(FaceHandle((int)a[0]), hs); return "ok"; }
        if (n == "set_cell") { std::vector<HalfFaceHandle> hs; for (size_t i = 2; i < a.size(); ++i) hs.push_back(HalfFaceHandle((int)a[i])); k.set_cell(CellHandle((int)a[0]), hs); return "ok"; }
        if (n == "delete_vertex") { auto it = k.delete_vertex(VertexHandle((int)a[0])); snprintf(buf, 64, "%d", it->idx()); return buf; }
        if (n == "delete_edge") { auto it = k.delete_edge(EdgeHandle((int)a[0])); snprintf(buf, 64, "%d", it->idx()); return buf; }
        if (n == "delete_face") { auto it = k.delete_face(FaceHandle((int)a[0])); snprintf(buf, 64, "%d", it->idx()); return buf; }
        if (n == "delete_cell") { auto it = k.delete_cell(CellHandle((int)a[0])); snprintf(buf, 64, "%d", it->idx()); return buf; }
        if (n == "swap_vertex") { k.swap_vertex_indices(VertexHandle((int)a[0]), VertexHandle((int)a[1])); return "ok"; }
        if (n == "swap_edge") { k.swap_edge_indices(EdgeHandle((int)a[0]), EdgeHandle((int)a[1])); return "ok"; }
        if (n == "swap_face") { k.swap_face_indices(FaceHandle((int)a[0]), FaceHandle((int)a[1])); return "ok"; }
        if (n == "swap_cell") { k.swap_cell_indices(CellHandle((int)a[0]), CellHandle((int)a[1])); return "ok"; }
        if (n == "collect_garbage") { k.collect_garbage(); return "ok"; }
        if (n == "enable_deferred") { k.enable_deferred_deletion(a[0] != 0); return "ok"; }
        if (n == "enable_fast") { k.enable_fast_deletion(a[0] != 0); return "ok"; }
        if (n == "enable_bu") {
            if (isTwin) return "ok";     // the twin keeps every incidence kind enabled
            if (a[0] == 0) k.enable_vertex_bottom_up_incidences(a[1] != 0);
            else if (a[0] == 1) k.enable_edge_bottom_up_incidences(a[1] != 0);
            else k.enable_face_bottom_up_incidences(a[1] != 0);
            return "ok";
        }
        if (n == "clear") {
            k.clear(a[0] != 0);
            // clear_all_props only makes the storages private: our handles stay attached
            return "ok";
        }
        if (n == "prop_new") {
            std::string key = "p" + std::to_string(prop_counter) + "_" + KIND_NAMES[a[0]];
            mk_prop(k, pr, (int)a[0], (int)a[1], key, a[2], (int)a[3]);
            return key;
        }
        if (n == "prop_drop") { std::string key = pr[a[0]]->key; pr.erase(pr.begin() + a[0]); return key; }
        if (n == "retoken") { retoken(pr, !a.empty() && a[0] == 1); return "ok"; }
        return "?";
    }

    bool exec(const Op& op) {
        bool malformed = false;
        if (!valid(op, malformed)) return false;
        emit_op(op, malformed);
        long tok0 = next_tok;
        std::string r = apply(m, props, op, false);
        if (twin) { long t1 = next_tok; next_tok = tok0; std::string r2 = apply(*twin, twin_props, op, true); next_tok = std::max(t1, next_tok); (void)r2; }
        if (op.name == "prop_new") prop_counter++;
        finish_step(r);
        // entity identity tokens: every new slot of an id column gets a fresh token right away
        if (op.name != "retoken") {
            bool need = false;
            for (size_t i = 0; i < 4 && i < props.size(); ++i) for (size_t j = 0; j < props[i]->size(); ++j) if (props[i]->get(j) == 0) need = true;
            if (need) exec(Op{"retoken", {1}});
        }
        return true;
    }

    // ---------------- generation
    Op mk(const std::string& n, std::initializer_list<long> a) { return Op{n, std::vector<long>(a)}; }

    int fresh_vertex() { exec(mk("add_vertex", {})); return nV() - 1; }

    // ensure a live halfface on exactly this vertex cycle that is not in a live cell; create a face if needed.
    // Returns -1 if the cycle exists only as an occupied halfface.
    int ensure_hf(const std::vector<int>& vs) {
        int hf = find_hf_by_verts(vs);
        if (hf >= 0) return hf_in_live_cell(hf) ? -1 : hf;
        // the opposite side may exist
        std::vector<int> rv(vs.rbegin(), vs.rend());
        int ohf = find_hf_by_verts(rv);
        if (ohf >= 0) return hf_in_live_cell(ohf ^ 1) ? -1 : (ohf ^ 1);
        Op op; op.name = "add_face_v"; op.a.push_back((long)vs.size()); for (int v : vs) op.a.push_back(v);
        if (!exec(op)) return -1;
        int f = nF() - 1;
        // which side has the requested orientation?
        std::vector<int> w = hf_verts(2 * f);
        return find_hf_by_verts(vs) == 2 * f || w == vs ? 2 * f : (find_hf_by_verts(vs) >= 0 ? find_hf_by_verts(vs) : 2 * f);
    }

    // add a polyhedron given its outward-oriented faces (vertex cycles)
    bool add_polyhedron(const std::vector<std::vector<int>>& faces, bool chk) {
        std::vector<long> hfs;
        for (const auto& f : faces) { int hf = ensure_hf(f); if (hf < 0) return false; hfs.push_back(hf); }
        std::set<long> uniq(hfs.begin(), hfs.end());
        if (uniq.size() != hfs.size()) return false;
        if (rng.chance(1, 3)) rng.shuffle(hfs);
        Op op; op.name = "add_cell"; op.a.push_back(chk ? 1 : 0); op.a.push_back((long)hfs.size()); for (long h : hfs) op.a.push_back(h);
        return exec(op);
    }
    std::vector<std::vector<int>> tet_faces(int a, int b, int c, int d) { return {{a, b, c}, {a, d, b}, {b, d, c}, {a, c, d}}; }
    std::vector<std::vector<int>> hex_faces(const std::vector<int>& v) {
        // v0..v3 bottom (ccw seen from outside/below), v4..v7 top above them
        return {{v[0], v[1], v[2], v[3]}, {v[7], v[6], v[5], v[4]}, {v[0], v[4], v[5], v[1]}, {v[1], v[5], v[6], v[2]}, {v[2], v[6], v[7], v[3]}, {v[3], v[7], v[4], v[0]}};
    }
    std::vector<std::vector<int>> prism_faces(const std::vector<int>& v) {
        return {{v[0], v[1], v[2]}, {v[5], v[4], v[3]}, {v[0], v[3], v[4], v[1]}, {v[1], v[4], v[5], v[2]}, {v[2], v[5], v[3], v[0]}};
    }
    std::vector<std::vector<int>> pyramid_faces(const std::vector<int>& v) {
        return {{v[0], v[1], v[2], v[3]}, {v[1], v[0], v[4]}, {v[2], v[1], v[4]}, {v[3], v[2], v[4]}, {v[0], v[3], v[4]}};
    }
    // boundary-ish halffaces: live, not in a live cell
    std::vector<int> free_hfs() { std::vector<int> r; for (int h = 0; h < 2 * nF(); ++h) if (liveHF(h) && !hf_in_live_cell(h)) r.push_back(h); return r; }

    void grow() {
        bool chk = rng.chance(1, 2);
        std::vector<int> lv = live(0);
        int mode = (int)rng.below(10);
        if (kind == "hex") return;   // hex growth handled by the hex driver
        if (rng.chance(1, 16) && nV() + nE() + nF() + nC() < 60) { grow_ring(chk); return; }
        // glue a tet onto a free triangle, apex = new or existing vertex
        if (mode < 6) {
            std::vector<int> fr = free_hfs();
            std::vector<int> tri; for (int h : fr) if (hf_hes(h).size() == 3) tri.push_back(h);
            if (kind == "poly" && tri.size() >= 2 && rng.chance(1, 5)) {
                // wedge: one cell over TWO adjacent free triangles (cells sharing two faces; the neighbour then occurs
                // twice, possibly non-consecutively, in the other cell's halfface list)
                int h1 = rng.pick(tri);
                std::vector<int> w = hf_verts(h1);
                for (int h2 : tri) {
                    if (h2 == h1 || (h2 ^ 1) == h1) continue;
                    std::vector<int> u = hf_verts(h2);
                    for (int r = 0; r < 3; ++r) {
                        // h2 = (w1, w0, x) for some rotation of h1 = (w0, w1, w2)
                        for (int q = 0; q < 3; ++q) {
                            int w0 = w[q], w1 = w[(q + 1) % 3], w2 = w[(q + 2) % 3];
                            if (u[r] == w1 && u[(r + 1) % 3] == w0 && u[(r + 2) % 3] != w2) {
                                int x = u[(r + 2) % 3];
                                int e = fresh_vertex();
                                add_polyhedron({{w0, w1, w2}, {w1, w0, x}, {w2, w1, e}, {w0, w2, e}, {x, w0, e}, {w1, x, e}}, chk);
                                return;
                            }
                        }
                    }
                }
            }
            if (!tri.empty() && rng.chance(4, 5)) {
                int hf = rng.pick(tri);
                std::vector<int> w = hf_verts(hf);
                // only glue on the side whose opposite already bounds something, or any free side
                int apex;
                if (!lv.empty() && rng.chance(1, 3)) { apex = rng.pick(lv); if (apex == w[0] || apex == w[1] || apex == w[2]) apex = fresh_vertex(); }
                else apex = fresh_vertex();
                // halfface hf has cycle w; a tet having hf as one of its faces: faces {w0 w1 w2},{w0 apex w1},{w1 apex w2},{w0 w2 apex}
                add_polyhedron(tet_faces(w[0], w[1], w[2], apex), chk);
                return;
            }
            int a = fresh_vertex(), b = fresh_vertex(), c = fresh_vertex(), d = fresh_vertex();
            add_polyhedron(tet_faces(a, b, c, d), chk);
            return;
        }
        if (kind == "tet") { int a = fresh_vertex(), b = fresh_vertex(), c = fresh_vertex(), d = fresh_vertex(); add_polyhedron(tet_faces(a, b, c, d), chk); return; }
        if (mode == 6) { std::vector<int> v; for (int i = 0; i < 8; ++i) v.push_back(fresh_vertex()); add_polyhedron(hex_faces(v), chk); return; }
        if (mode == 7) { std::vector<int> v; for (int i = 0; i < 6; ++i) v.push_back(fresh_vertex()); add_polyhedron(prism_faces(v), chk); return; }
        if (mode == 8) {
            // pyramid on a free quad if any
            std::vector<int> fr = free_hfs(); std::vector<int> quad; for (int h : fr) if (hf_hes(h).size() == 4) quad.push_back(h);
            std::vector<int> v;
            if (!quad.empty()) { v = hf_verts(rng.pick(quad)); } else { for (int i = 0; i < 4; ++i) v.push_back(fresh_vertex()); }
            v.push_back(fresh_vertex());
            add_polyhedron(pyramid_faces(v), chk);
            return;
        }
        // dangling stuff: isolated vertex, dangling edge, dangling face, duplicate edge
        int what = (int)rng.below(5);
        if (what == 0) { fresh_vertex(); return; }
        if (what == 4) {
            // junk cell: an unchecked add_cell on 2..5 free halffaces, preferably around one edge (a cell that is not
            // a closed surface and may use a halfedge twice: the configuration behind F25)
            if (kind != "poly") return;
            std::vector<int> fr = free_hfs();
            if (fr.size() < 2) return;
            std::vector<long> hfs;
            int seed_hf = rng.pick(fr);
            std::vector<int> she = hf_hes(seed_hf);
            int he = she.empty() ? -1 : rng.pick(she);
            hfs.push_back(seed_hf);
            rng.shuffle(fr);
            size_t want = 2 + rng.below(4);
            for (int h : fr) {
                if (hfs.size() >= want) break;
                if (std::find(hfs.begin(), hfs.end(), (long)h) != hfs.end()) continue;
                std::vector<int> hh = hf_hes(h);
                bool around = he >= 0 && (std::find(hh.begin(), hh.end(), he) != hh.end() || std::find(hh.begin(), hh.end(), he ^ 1) != hh.end());
                if (around || rng.chance(1, 4)) hfs.push_back(h);
            }
            if (hfs.size() < 2) return;
            Op op; op.name = "add_cell"; op.a.push_back(0); op.a.push_back((long)hfs.size()); for (long h : hfs) op.a.push_back(h);
            exec(op);
            return;
        }
        // C08 quantifies over "faces of every valence >= 1 incl. loops and 2-gons": the lookup profile of the polyhedral
        // kernel also builds loop edges (v,v), one-halfedge faces and 2-gons
        bool degenerate = profile == "c10" && kind == "poly";
        if (lv.size() >= 2) {
            int a = rng.pick(lv), b = rng.pick(lv);
            if (a == b && !(degenerate && rng.chance(1, 2))) return;
            if (what == 1) { exec(mk("add_edge", {a, b, 0})); return; }
            if (what == 2) { exec(mk("add_edge", {a, b, 1})); return; }
        }
        if (degenerate && !lv.empty() && rng.chance(1, 5)) {
            std::vector<int> vs = lv; rng.shuffle(vs); vs.resize(std::min<size_t>(vs.size(), 1 + rng.below(2)));
            Op op; op.name = "add_face_v"; op.a.push_back((long)vs.size()); for (int v : vs) op.a.push_back(v);
            exec(op);
            return;
        }
        if (lv.size() >= 3 && kind == "poly") {
            std::vector<int> vs = lv; rng.shuffle(vs); vs.resize(std::min<size_t>(vs.size(), 3 + rng.below(3)));
            Op op; op.name = "add_face_v"; op.a.push_back((long)vs.size()); for (int v : vs) op.a.push_back(v);
            exec(op);
        }
    }

    // re-create something that is flagged deleted but not yet collected (deferred mode): the same edge in either
    // direction, the same face from its vertices, a cell on the halffaces of a flagged cell.  Lookups must not hand out the
    // flagged entity, and the later collect_garbage must not disturb the replacement.
    bool gen_readd() {
        if (!m.deferred_deletion_enabled()) return false;
        int what = (int)rng.below(3);
        if (what == 0) {
            std::vector<int> c; for (int e = 0; e < nE(); ++e) if (!liveE(e) && liveV(from(2 * e)) && liveV(to(2 * e))) c.push_back(e);
            if (c.empty()) return false;
            int e = rng.pick(c); bool rev = rng.chance(1, 2);
            if (rng.chance(1, 3)) exec(mk("enable_bu", {0, (long)rng.below(2)}));      // the search differs with / without vertex incidences
            return exec(mk("add_edge", {rev ? to(2 * e) : from(2 * e), rev ? from(2 * e) : to(2 * e), 0}));
        }
        if (what == 1 && kind != "hex") {
            std::vector<int> c;
            for (int f = 0; f < nF(); ++f) { if (liveF(f)) continue; bool ok = !hf_hes(2 * f).empty(); for (int h : hf_hes(2 * f)) if (!liveV(from(h)) || !liveV(to(h))) ok = false; if (ok) c.push_back(f); }
            if (c.empty()) return false;
            int f = rng.pick(c); std::vector<int> w = hf_verts(2 * f + (int)rng.below(2));
            if (kind == "tet" && w.size() != 3) return false;
            Op op; op.name = "add_face_v"; op.a.push_back((long)w.size()); for (int v : w) op.a.push_back(v);
            return exec(op);
        }
        if (kind == "hex") return false;
        std::vector<int> c;
        for (int x = 0; x < nC(); ++x) {
            if (liveC(x)) continue;
            bool ok = true;
            for (auto h : m.cell(CellHandle(x)).halffaces()) if (!liveHF(h.idx()) || hf_in_live_cell(h.idx())) ok = false;
            if (ok && !m.cell(CellHandle(x)).halffaces().empty()) c.push_back(x);
        }
        if (c.empty()) return false;
        int x = rng.pick(c);
        Op op; op.name = "add_cell"; op.a.push_back((long)rng.below(2)); op.a.push_back((long)m.cell(CellHandle(x)).halffaces().size());
        for (auto h : m.cell(CellHandle(x)).halffaces()) op.a.push_back(h.idx());
        return exec(op);
    }
    // a closed ring of k tetrahedra around a fresh axis edge (a,b): interior edge of valence k whose fan is closed;
    // deleting one of its cells later opens the fan (C09: the boundary halfface must then come last)
    void grow_ring(bool chk) {
        int k = 3 + (int)rng.below(3);
        int a = fresh_vertex(), b = fresh_vertex();
        std::vector<int> p; for (int i = 0; i < k; ++i) p.push_back(fresh_vertex());
        int c0 = nC();
        for (int i = 0; i < k; ++i) if (!add_polyhedron(tet_faces(a, b, p[(size_t)i], p[(size_t)((i + 1) % k)]), chk)) return;
        if (nC() != c0 + k || !rng.chance(2, 3)) return;
        // open the ring again, in whatever deletion mode (or after switching it): the cell removed is mostly not the last one
        if (rng.chance(1, 2)) { int x = fresh_vertex(), y = fresh_vertex(), z = fresh_vertex(), w = fresh_vertex(); add_polyhedron(tet_faces(x, y, z, w), chk); }
        if (rng.chance(1, 2)) exec(mk("enable_deferred", {(long)rng.below(2)}));
        if (rng.chance(1, 3)) exec(mk("enable_fast", {(long)rng.below(2)}));
        exec(mk("delete_cell", {(long)(c0 + (int)rng.below((uint64_t)k))}));
        if (rng.chance(1, 3)) exec(mk("collect_garbage", {}));
    }
    void gen_delete() {
        if (rng.chance(1, 5) && gen_readd()) return;
        int k = (int)rng.below(10);
        int kindIdx = k < 2 ? 0 : k < 4 ? 1 : k < 7 ? 2 : 3;
        std::vector<int> l = live(kindIdx);
        if (l.empty()) return;
        int x;
        int pos = (int)rng.below(4);
        x = pos == 0 ? l.front() : pos == 1 ? l.back() : rng.pick(l);
        static const char* names[4] = {"delete_vertex", "delete_edge", "delete_face", "delete_cell"};
        exec(mk(names[kindIdx], {x}));
    }
    void gen_swap() {
        int kindIdx = (int)rng.below(4);
        int n = kindIdx == 0 ? nV() : kindIdx == 1 ? nE() : kindIdx == 2 ? nF() : nC();
        if (n < 1) return;
        int a = (int)rng.below((uint64_t)n), b = (int)rng.below((uint64_t)n);
        if (rng.chance(1, 4)) b = n - 1;
        if (rng.chance(1, 8)) a = 0;
        static const char* names[4] = {"swap_vertex", "swap_edge", "swap_face", "swap_cell"};
        exec(mk(names[kindIdx], {a, b}));
    }
    void gen_set() {
        int what = (int)rng.below(3);
        if (what == 0) {
            std::vector<int> cand; for (int e : live(1)) if (!edge_in_live_face(e)) cand.push_back(e);
            std::vector<int> lv = live(0);
            if (cand.empty() || lv.size() < 2) return;
            int a = rng.pick(lv), b = rng.pick(lv); if (a == b) return;
            exec(mk("set_edge", {rng.pick(cand), a, b}));
        } else if (what == 1) {
            std::vector<int> cand; for (int f : live(2)) if (!face_in_live_cell(f)) cand.push_back(f);
            std::vector<int> lf = live(2);
            if (cand.empty()) return;
            int f = rng.pick(cand);
            // new definition: the halfedge cycle of some live halfface of the same valence class (or a rotation of its own)
            int src = 2 * rng.pick(lf) + (int)rng.below(2);
            std::vector<int> hes = hf_hes(src);
            if (kind != "poly" && hes.size() != hf_hes(2 * f).size()) return;
            if (hes.empty()) return;
            std::rotate(hes.begin(), hes.begin() + rng.below(hes.size()), hes.end());
            Op op; op.name = "set_face"; op.a.push_back(f); op.a.push_back((long)hes.size()); for (int h : hes) op.a.push_back(h);
            exec(op);
        } else {
            std::vector<int> lc = live(3); if (lc.empty()) return;
            int c = rng.pick(lc);
            std::vector<long> hfs; for (auto h : m.cell(CellHandle(c)).halffaces()) hfs.push_back(h.idx());
            rng.shuffle(hfs);
            Op op; op.name = "set_cell"; op.a.push_back(c); op.a.push_back((long)hfs.size()); for (long h : hfs) op.a.push_back(h);
            exec(op);
        }
    }
    void gen_malformed() {
        // topology-checked calls with lists that are (mostly) not valid
        int what = (int)rng.below(8);
        std::vector<int> lhe; for (int h = 0; h < 2 * nE(); ++h) if (liveHE(h)) lhe.push_back(h);
        std::vector<int> lhf = free_hfs();
        if (what < 3 && !lhe.empty()) {
            int n = (int)rng.below(5);      // includes the empty list
            if (kind == "tet") n = 3; if (kind == "hex") n = 4;
            Op op; op.name = "add_face_he"; op.a.push_back(1); op.a.push_back(n);
            if (rng.chance(1, 2) && nF() > 0) {
                // perturb an existing loop: drop / repeat / reverse one element
                std::vector<int> lf = live(2); if (lf.empty()) return;
                std::vector<int> hes = hf_hes(2 * rng.pick(lf) + (int)rng.below(2));
                int p = (int)rng.below(4);
                if (p == 0 && hes.size() > 1) hes.pop_back();
                else if (p == 1) hes.push_back(hes[0]);
                else if (p == 2) hes[0] ^= 1;
                op.a[1] = (long)hes.size(); for (int h : hes) op.a.push_back(h);
            } else for (int i = 0; i < n; ++i) op.a.push_back(rng.pick(lhe));
            exec(op); return;
        }
        if (kind == "hex") return;
        if (!lhf.empty()) {
            Op op; op.name = "add_cell"; op.a.push_back(1);
            std::vector<long> hfs;
            int p = (int)rng.below(6);
            std::vector<int> lc = live(3);
            if (p < 3 && !lc.empty()) {
                // take a deleted-or-live cell's surface? only free halffaces are allowed: use opposite sides of a live cell's halffaces when free
                for (auto h : m.cell(CellHandle(rng.pick(lc))).halffaces()) if (!hf_in_live_cell(h.idx() ^ 1)) hfs.push_back(h.idx() ^ 1);
                if (p == 1 && !hfs.empty()) hfs.pop_back();                 // missing face
                if (p == 2 && !hfs.empty()) hfs.push_back(hfs[0]);          // doubled face
            } else if (p == 3) { /* empty list */ }
            else { int n = 1 + (int)rng.below(5); for (int i = 0; i < n; ++i) hfs.push_back(rng.pick(lhf)); }
            if (kind == "tet" && hfs.size() != 4 && p != 3) { while (hfs.size() > 4) hfs.pop_back(); }
            op.a.push_back((long)hfs.size()); for (long h : hfs) op.a.push_back(h);
            exec(op); return;
        }
    }
    // directed end-of-trace sweep (C11): every free halfface alone, and every pair of free halffaces sharing an edge, as a
    // topology-checked cell.  None of these is a closed surface except a face with its own opposite ("pillow"): the
    // check must refuse them whatever the parity / index pattern of their boundary halfedges is.
    void sweep_small_cells() {
        if (kind == "hex") return;
        std::vector<int> fr = free_hfs();
        if (fr.size() > 40) { rng.shuffle(fr); fr.resize(40); }
        for (int h : fr) {
            if (!liveHF(h) || hf_in_live_cell(h)) continue;
            Op op; op.name = "add_cell"; op.a = {1, 1, (long)h}; exec(op);
        }
        int pairs = 0;
        for (size_t i = 0; i < fr.size() && pairs < 40; ++i) for (size_t j = i + 1; j < fr.size() && pairs < 40; ++j) {
            int a = fr[i], b = fr[j];
            if (!liveHF(a) || !liveHF(b) || hf_in_live_cell(a) || hf_in_live_cell(b)) continue;
            std::vector<int> ha = hf_hes(a), hb = hf_hes(b); bool share = false;
            for (int x : ha) for (int y : hb) if ((x >> 1) == (y >> 1)) share = true;
            if (!share) continue;
            Op op; op.name = "add_cell"; op.a = {1, 2, (long)a, (long)b}; exec(op); ++pairs;
        }
    }
    // a face over fresh vertices whose boundary edges are created explicitly, each in a random direction (the halfedges of
    // the face then have a random parity pattern over consecutive edge indices)
    void dirface() {
        if (kind == "hex") return;
        int k = kind == "tet" ? 3 : 3 + (int)rng.below(3);
        std::vector<int> vs; for (int i = 0; i < k; ++i) vs.push_back(fresh_vertex());
        std::vector<long> hes;
        for (int i = 0; i < k; ++i) {
            int a = vs[i], b = vs[(i + 1) % k]; bool rev = rng.chance(1, 2);
            if (!exec(mk("add_edge", {rev ? b : a, rev ? a : b, 0}))) return;
            hes.push_back(2 * (nE() - 1) + (rev ? 1 : 0));
        }
        Op op; op.name = "add_face_he"; op.a.push_back(1); op.a.push_back((long)k); for (long h : hes) op.a.push_back(h);
        exec(op);
    }
    // a tetrahedron built from explicit halfedges, some of whose edges have a PARALLEL TWIN created before or after the
    // edge the cell uses (add_edge(..., allowDuplicates=true)): lookups by vertex pair meet the twin first
    void twin_tet() {
        if (kind == "hex") return;
        int v[4]; for (int& x : v) x = fresh_vertex();
        static const int E[6][2] = {{0, 1}, {1, 2}, {2, 0}, {0, 3}, {1, 3}, {2, 3}};
        int he[4][4];       // he[a][b] = halfedge a->b of the edge the cell uses
        for (auto& e : E) {
            int a = v[e[0]], b = v[e[1]];
            bool dup = rng.chance(1, 2), twin_first = rng.chance(1, 2), rev = rng.chance(1, 3);
            if (dup && twin_first) { if (!exec(mk("add_edge", {a, b, 1}))) return; }
            if (!exec(mk("add_edge", {rev ? b : a, rev ? a : b, 1}))) return;
            int id = nE() - 1;
            he[e[0]][e[1]] = 2 * id + (rev ? 1 : 0); he[e[1]][e[0]] = 2 * id + (rev ? 0 : 1);
            if (dup && !twin_first) { if (!exec(mk("add_edge", {a, b, 1}))) return; }
        }
        static const int F[4][3] = {{0, 1, 2}, {0, 3, 1}, {1, 3, 2}, {0, 2, 3}};
        std::vector<long> hfs;
        for (auto& f : F) {
            Op op; op.name = "add_face_he"; op.a = {1, 3, he[f[0]][f[1]], he[f[1]][f[2]], he[f[2]][f[0]]};
            if (!exec(op)) return;
            hfs.push_back(2 * (nF() - 1));
        }
        Op op; op.name = "add_cell"; op.a = {(long)rng.below(2), 4, hfs[0], hfs[1], hfs[2], hfs[3]};
        exec(op);
    }
    // loop edges, one-halfedge faces and 2-gons (C08: "faces of every valence >= 1 incl. loops and 2-gons")
    void gen_degenerate() {
        std::vector<int> lv = live(0);
        if (lv.empty()) { fresh_vertex(); lv = live(0); }
        int what = (int)rng.below(4);
        if (what == 0) { int v = rng.pick(lv); exec(mk("add_edge", {v, v, (long)rng.below(2)})); return; }
        std::vector<int> vs = lv; rng.shuffle(vs); vs.resize(std::min<size_t>(vs.size(), what == 1 ? 1 : 2));
        Op op; op.name = "add_face_v"; op.a.push_back((long)vs.size()); for (int v : vs) op.a.push_back(v);
        exec(op);
    }
    void gen_mode() {
        int what = (int)rng.below(10);
        if (what < 2) exec(mk("enable_deferred", {(long)rng.below(2)}));
        else if (what < 4) exec(mk("enable_fast", {(long)rng.below(2)}));
        else if (what < 6) exec(mk("collect_garbage", {}));
        else exec(mk("enable_bu", {(long)rng.below(3), (long)rng.below(2)}));
    }
    void gen_prop() {
        if (props.size() < 12 && rng.chance(2, 3)) {
            long kindIdx = (long)rng.below(7), typeIdx = (long)rng.below(5), fl = (long)rng.below(3);
            long dflt = typeIdx == 1 ? (long)rng.below(2) : (long)rng.below(5);
            if (exec(mk("prop_new", {kindIdx, typeIdx, dflt, fl}))) exec(mk("retoken", {0}));
        } else if (!props.empty()) {
            exec(mk("prop_drop", {(long)rng.below(props.size())}));
        }
    }

    void step() {
        int w = (int)rng.below(100);
        int nent = nV() + nE() + nF() + nC();
        if (profile == "c11") {
            if (w < 8) dirface(); else if (w < 35 || nent < 8) grow(); else if (w < 80) gen_malformed(); else if (w < 88) gen_delete(); else if (w < 94) gen_mode(); else if (rng.chance(1, 2) && gen_readd()) {} else { Op o = mk("add_edge", {0, 0, 0}); std::vector<int> lv = live(0); if (lv.size() >= 2) { o.a[0] = rng.pick(lv); o.a[1] = rng.pick(lv); if (o.a[0] != o.a[1]) exec(o); } }
        } else if (profile == "c17") {
            if (w < 30 || nent < 10) grow(); else if (w < 75) gen_swap(); else if (w < 85) gen_delete(); else if (w < 93) gen_mode(); else gen_prop();
        } else if (profile == "c09" || profile == "c10" || profile == "c05") {
            if (profile == "c10" && kind == "poly" && w < 4 && nent < 60) twin_tet(); else
            if (profile == "c10" && kind == "poly" && w < 10 && nent < 70) gen_degenerate(); else
            if (w < 50 || nent < 10) grow(); else if (w < 72) gen_delete(); else if (w < 82) gen_swap(); else if (w < 95) gen_mode(); else gen_prop();
        } else if (profile == "c04") {
            if (w < 40 || nent < 10) grow(); else if (w < 75) gen_delete(); else if (w < 92) gen_mode(); else gen_prop();
        } else {
            if (nent > 70) { if (w < 60) gen_delete(); else if (w < 80) gen_swap(); else gen_mode(); return; }
            if (w < 38 || nent < 6) grow();
            else if (w < 58) gen_delete();
            else if (w < 70) gen_swap();
            else if (w < 76) gen_set();
            else if (w < 88) gen_mode();
            else if (w < 95) gen_prop();
            else if (w < 98) gen_malformed();
            else exec(mk("clear", {(long)rng.below(2)}));
        }
        if (rng.chance(1, 3)) exec(mk("retoken", {0}));
    }
};

// ---------------------------------------------------------------------------------------------
static void init_mesh(Driver& d, uint64_t cfg) {
    // random initial modes: 4 deletion modes x 8 BU subsets cycled by trace number
    d.m.enable_deferred_deletion((cfg & 1) != 0);
    d.m.enable_fast_deletion((cfg & 2) != 0);
    if (d.profile != "c10" && d.profile != "c09") {
        d.m.enable_vertex_bottom_up_incidences((cfg & 4) == 0);
        d.m.enable_edge_bottom_up_incidences((cfg & 8) == 0);
        d.m.enable_face_bottom_up_incidences((cfg & 16) == 0);
    }
    if (d.twin) { d.twin->enable_deferred_deletion((cfg & 1) != 0); d.twin->enable_fast_deletion((cfg & 2) != 0); }
}

template <class Mesh> static void run_trace(const std::string& kind, const std::string& profile, uint64_t seed, int trace, int ops, int query_pct, const char* replay) {
    Mesh mesh;
    std::unique_ptr<Mesh> twinMesh;
    Driver d(mesh, kind, vh::mix(seed, (uint64_t)trace), profile);
    d.query_pct = query_pct;
    if (profile == "c12") { twinMesh.reset(new Mesh()); d.twin = twinMesh.get(); }
    fprintf(OUT, "T kernel_drv %s seed=%llu kind=%s trace=%d\n", profile.c_str(), (unsigned long long)seed, kind.c_str(), trace);
    if (replay) {
        // re-execute the O lines of a trace file, skipping ops that are no longer valid
        FILE* f = fopen(replay, "r");
        if (!f) { perror("replay"); exit(3); }
        char* line = nullptr; size_t cap = 0;
        bool first = true;
        while (getline(&line, &cap, f) > 0) {
            std::istringstream is(line);
            std::string tag; is >> tag;
            if (tag == "I") { uint64_t cfg; is >> cfg; init_mesh(d, cfg); d.make_id_columns(); fprintf(OUT, "I %llu\n", (unsigned long long)cfg); d.dump(); fputs("E\n", OUT); first = false; continue; }
            if (tag != "O" && tag != "O!") continue;
            if (first) { init_mesh(d, 0); d.make_id_columns(); first = false; }
            Op op; is >> op.name; long x; while (is >> x) op.a.push_back(x);
            d.exec(op);
        }
        fclose(f);
        return;
    }
    uint64_t cfg = (uint64_t)trace + d.rng.below(32) * 0;   // cycle modes/BU subsets deterministically
    cfg = (uint64_t)trace % 32;
    if (profile == "core" && trace % 5 == 0) cfg = 3 | 4 | 8 | 16;   // shipping combination while loading: deferred+fast, incidences off
    init_mesh(d, cfg);
    d.make_id_columns();
    fprintf(OUT, "I %llu\n", (unsigned long long)cfg);
    d.dump();
    fputs("E\n", OUT);
    // a few properties from the start
    int np = (int)d.rng.below(4);
    for (int i = 0; i < np; ++i) d.gen_prop();
    for (int i = 0; i < ops; ++i) d.step();
    if (profile == "c11") d.sweep_small_cells();
}

int main(int argc, char** argv) {
    std::string kind = "poly", profile = "core", out;
    uint64_t seed = vh::env_seed();
    int traces = 10, ops = 30, query_pct = 34, first = 0;
    const char* replay = nullptr;
    for (int i = 1; i < argc; ++i) {
        std::string a = argv[i];
        auto nxt = [&]() { return std::string(argv[++i]); };
        if (a == "--kind") kind = nxt(); else if (a == "--profile") profile = nxt(); else if (a == "--seed") seed = strtoull(argv[++i], 0, 10);
        else if (a == "--traces") traces = atoi(argv[++i]); else if (a == "--ops") ops = atoi(argv[++i]); else if (a == "--out") out = nxt();
        else if (a == "--queries") query_pct = atoi(argv[++i]); else if (a == "--replay") replay = argv[++i]; else if (a == "--first") first = atoi(argv[++i]);
        else { fprintf(stderr, "unknown arg %s\n", a.c_str()); return 2; }
    }
    if (!out.empty()) { OUT = fopen(out.c_str(), "w"); if (!OUT) { perror("out"); return 2; } }
    if (replay) traces = 1;
    for (int t = first; t < first + traces; ++t) {
        fflush(OUT);
        pid_t pid = fork();
        if (pid == 0) {
            alarm(60);
            if (kind == "tet") run_trace<TetMesh>(kind, profile, seed, t, ops, query_pct, replay);
            else if (kind == "hex") run_trace<HexMesh>(kind, profile, seed, t, ops, query_pct, replay);
            else run_trace<PolyMesh>(kind, profile, seed, t, ops, query_pct, replay);
            fflush(OUT);
            _exit(0);
        }
        int st = 0;
        waitpid(pid, &st, 0);
        if (WIFSIGNALED(st)) fprintf(OUT, "\nX signal %d\n", WTERMSIG(st));
        else if (WIFEXITED(st) && WEXITSTATUS(st) != 0) fprintf(OUT, "\nX exit %d\n", WEXITSTATUS(st));
        fflush(OUT);
    }
    if (OUT != stdout) fclose(OUT);
    return 0;
}

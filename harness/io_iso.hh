// io_iso.hh -- run jobs in a forked child with a wall-clock watchdog; sanitizer aborts, assertion
// failures and hangs become results ("crash"/"alloc"/"hang") instead of killing the driver.
#pragma once
#include <sys/types.h>
#include <sys/wait.h>
#include <unistd.h>
#include <poll.h>
#include <signal.h>
#include <fcntl.h>
#include <string>
#include <vector>
#include <functional>
#include <cstdio>
#include <cstring>
#include <iostream>

namespace iso {

struct Outcome {
    std::string cls;     // "done" | "crash" | "alloc" | "hang"
    std::string text;    // what the job printed (done) / diagnostic (else)
};

inline std::string slurp_tail(const std::string& path, size_t max = 6000) {
    std::string s; FILE* f = fopen(path.c_str(), "rb"); if (!f) return s;
    fseek(f, 0, SEEK_END); long n = ftell(f); long st = n > (long)max ? n - (long)max : 0; fseek(f, st, SEEK_SET);
    s.resize((size_t)(n - st)); if (!s.empty()) { size_t r = fread(&s[0], 1, s.size(), f); s.resize(r); } fclose(f); return s;
}
inline std::string ovm_frames(const std::string& err, int max = 3) {
    std::string out; size_t pos = 0; int n = 0;
    while (n < max && (pos = err.find(" in OpenVolumeMesh::", pos)) != std::string::npos) {
        size_t b = pos + 4; size_t e = err.find_first_of("(\n", b); std::string f = err.substr(b, e == std::string::npos ? 80 : e - b);
        while (!f.empty() && f.back() == ' ') f.pop_back();
        size_t lp = err.find('\n', pos); std::string line = err.substr(pos, lp == std::string::npos ? std::string::npos : lp - pos);
        size_t sl = line.rfind('/'); std::string loc = sl == std::string::npos ? "" : line.substr(sl + 1);
        for (auto& c : f) if (c == ' ') c = '_';
        out += (n ? "<" : "") + f + "@" + loc; ++n; pos = b;
    }
    return out;
}
inline std::string summarize1(const std::string& err) {
    // first sanitizer / assertion line, single-line
    const char* keys[] = {"Assertion", "runtime error:", "ERROR: AddressSanitizer: heap", "ERROR: AddressSanitizer: stack", "ERROR: AddressSanitizer: SEGV", "ERROR: AddressSanitizer: alloc", "ERROR: AddressSanitizer: out", "terminate called", "ERROR: AddressSanitizer", "SUMMARY:"};
    for (auto k : keys) { auto p = err.find(k); if (p != std::string::npos) { auto e = err.find('\n', p); std::string l = err.substr(p, e == std::string::npos ? std::string::npos : e - p);
        for (auto& c : l) if (c == ' ') c = '_'; return l.substr(0, 160); } }
    return "no-diagnostic";
}
inline std::string summarize(const std::string& err) { return summarize1(err) + " at=" + ovm_frames(err); }
inline bool is_alloc_failure(const std::string& err) {
    return err.find("allocation-size-too-big") != std::string::npos || err.find("out of memory") != std::string::npos
        || err.find("out-of-memory") != std::string::npos || err.find("requested allocation size") != std::string::npos
        || err.find("failed to allocate") != std::string::npos;
}

// Runs job(i) for i in [0,n) ; job returns the text to report.  `sink(i, outcome)` is called in order in the parent.
inline void run_all(size_t n, const std::function<std::string(size_t)>& job,
                    const std::function<void(size_t, const Outcome&)>& sink,
                    int timeout_ms, const std::string& errfile) {
    size_t next = 0;
    while (next < n) {
        int fd[2]; if (pipe(fd) != 0) { perror("pipe"); exit(2); }
        fflush(stdout); fflush(stderr); std::cout.flush();   // nothing buffered may be inherited by the child
        pid_t pid = fork();
        if (pid < 0) { perror("fork"); exit(2); }
        if (pid == 0) {
            close(fd[0]);
            std::cerr.tie(nullptr);
            int ef = open(errfile.c_str(), O_WRONLY | O_CREAT | O_TRUNC, 0644);
            if (ef >= 0) { dup2(ef, 2); close(ef); }
            for (size_t i = next; i < n; ++i) {
                std::string hdr = "B " + std::to_string(i) + "\n";
                if (write(fd[1], hdr.data(), hdr.size()) < 0) _exit(3);
                std::string t = job(i);
                std::string msg = "D " + std::to_string(i) + " " + std::to_string(t.size()) + "\n" + t;
                size_t off = 0; while (off < msg.size()) { ssize_t w = write(fd[1], msg.data() + off, msg.size() - off); if (w <= 0) _exit(3); off += (size_t)w; }
            }
            _exit(0);
        }
        close(fd[1]);
        std::string buf; size_t cur = next; bool started = false; bool dead = false; bool hung = false;
        auto pump = [&]() -> bool {       // consume complete records from buf; returns false if nothing consumed
            bool any = false;
            for (;;) {
                auto nl = buf.find('\n'); if (nl == std::string::npos) return any;
                if (buf[0] == 'B') { cur = strtoull(buf.c_str() + 2, nullptr, 10); started = true; buf.erase(0, nl + 1); any = true; continue; }
                if (buf[0] == 'D') {
                    char* e; size_t idx = strtoull(buf.c_str() + 2, &e, 10); size_t len = strtoull(e, nullptr, 10);
                    if (buf.size() < nl + 1 + len) return any;
                    Outcome o; o.cls = "done"; o.text = buf.substr(nl + 1, len); sink(idx, o);
                    buf.erase(0, nl + 1 + len); next = idx + 1; started = false; any = true; continue;
                }
                buf.erase(0, nl + 1);
            }
        };
        while (!dead) {
            struct pollfd p = {fd[0], POLLIN, 0};
            int r = poll(&p, 1, timeout_ms);
            if (r == 0) { hung = true; kill(pid, SIGKILL); break; }
            if (r < 0) { if (errno == EINTR) continue; break; }
            char tmp[65536]; ssize_t k = read(fd[0], tmp, sizeof tmp);
            if (k <= 0) { dead = true; break; }
            buf.append(tmp, (size_t)k); pump();
        }
        close(fd[0]);
        int st = 0; waitpid(pid, &st, 0);
        if (next >= n) break;
        if (hung) { Outcome o; o.cls = "hang"; o.text = "watchdog " + std::to_string(timeout_ms) + "ms"; sink(started ? cur : next, o); next = (started ? cur : next) + 1; continue; }
        // child ended before finishing: job `cur` crashed (or the child exited cleanly after the last job)
        if (WIFEXITED(st) && WEXITSTATUS(st) == 0 && !started) break;
        std::string err = slurp_tail(errfile);
        Outcome o; o.cls = is_alloc_failure(err) ? "alloc" : "crash";
        o.text = (WIFSIGNALED(st) ? "signal" + std::to_string(WTERMSIG(st)) : "exit" + std::to_string(WEXITSTATUS(st))) + " " + summarize(err);
        size_t bad = started ? cur : next;
        sink(bad, o); next = bad + 1;
    }
}

} // namespace iso

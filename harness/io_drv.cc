// io_drv -- OVMB correspondence driver (C06 / C07 / C18).  Public OVM API only.
//
//   io_drv gen    <tier> <shard> <nshards>            -> CASE records (mesh dump + bytes written by the real writer)
//   io_drv read   <jobs-file>                          -> R records   (J lines: id mk tc bu fail_at style hex)
//   io_drv mutate <cases-file> <n-per-file> <shard> <nshards>   -> X + R records (byte/field mutants)
//   io_drv faults <cases-file> <tier> <shard> <nshards>         -> X + R records (truncations, header substitutions,
//                                                       chunk drop/dup/reorder, read faults) and WF records (write faults)
// Every read runs in a forked child (watchdog, sanitizer aborts caught).  All randomness from VERIF_SEED.
#include "io_core.hh"
#include "io_gen.hh"
#include "io_iso.hh"
#include <fstream>

extern "C" const char* __asan_default_options() {
    return "detect_leaks=0:allocator_may_return_null=1:max_allocation_size_mb=256:abort_on_error=1:handle_abort=1:print_summary=1";
}
extern "C" const char* __ubsan_default_options() { return "halt_on_error=1:abort_on_error=1:print_stacktrace=0"; }

using namespace io;

static int g_timeout_ms = 8000;
static std::string g_errfile;

// ---------------------------------------------------------------------------------------- cases
struct Case { std::string id; char kind; std::string desc; std::string wres; std::string dump; Bytes bytes; bool gc = false; };

struct GenJob { char kind; size_t idx; Recipe rc; int gcvariant; bool forced; std::string id; };

template<class M> static std::string gen_one(const GenJob& g, uint64_t seed) {
    std::ostringstream os;
    if (g.gcvariant >= 0) {      // pending deletions: the writer must refuse (C06 d)
        vh::Rng r(vh::mix(seed, 77 + (uint64_t)g.gcvariant + (uint64_t)g.kind));
        M m; build(m, g.kind, g.rc, r);
        m.enable_deferred_deletion(true);
        if (g.gcvariant == 0) m.delete_vertex(VH(0)); else if (g.gcvariant == 1) m.delete_edge(EH(0));
        else if (g.gcvariant == 2) m.delete_face(FH(0)); else m.delete_cell(CH(0));
        Bytes out; std::string wres = write_mesh(m, out);
        os << "W " << wres << '\n'; dump_mesh(os, m, g.kind); os << "B " << hex(out) << "\nEND\n";
        return os.str();
    }
    vh::Rng r(vh::mix(vh::mix(seed, (uint64_t)g.kind), 1000 + g.idx));
    M m; build(m, g.kind, g.rc, r);
    IO::WriteOptions wo; if (g.forced) wo.topology_type = IO::WriteOptions::TopologyType::Polyhedral;
    Bytes out; std::string wres = write_mesh(m, out, -1, 0, wo);
    os << "W " << wres << '\n'; dump_mesh(os, m, g.kind); os << "B " << hex(out) << "\nEND\n";
    return os.str();
}
static std::string gen_dispatch(const GenJob& g, uint64_t seed) {
    switch (g.kind) { case 't': return gen_one<TM>(g, seed); case 'h': return gen_one<HM>(g, seed); default: return gen_one<PM>(g, seed); }
}
static std::vector<GenJob> gen_jobs(bool thorough, uint64_t seed, int shard, int nshards) {
    std::vector<GenJob> jobs;
    for (char kind : {'p', 't', 'h'}) {
        vh::Rng rr(vh::mix(seed, (uint64_t)kind));
        auto rs = recipes(kind, thorough, rr, thorough ? 640 : (kind == 'p' ? 4 : 6));
        for (size_t i = 0; i < rs.size(); ++i) {
            if ((int)(i % (size_t)nshards) != shard) continue;
            jobs.push_back({kind, i, rs[i], -1, false, std::string(1, kind) + std::to_string(i)});
            if (kind == 'p' && i % 7 == 3) jobs.push_back({kind, i, rs[i], -1, true, std::string(1, kind) + std::to_string(i) + "f"});
        }
        if (shard == 0) for (int v = 0; v < 4; ++v) { Recipe rc; rc.cells = 2; rc.props_all = 2; rc.desc = "pending-deletion-" + std::to_string(v);
            jobs.push_back({kind, 0, rc, v, false, std::string(1, kind) + "gc" + std::to_string(v)}); }
    }
    return jobs;
}
static void mode_gen(bool thorough, uint64_t seed, int shard, int nshards, std::ostream& os) {
    auto jobs = gen_jobs(thorough, seed, shard, nshards);
    iso::run_all(jobs.size(), [&](size_t i) { return gen_dispatch(jobs[i], seed); },
        [&](size_t i, const iso::Outcome& o) {
            auto& g = jobs[i];
            os << "CASE " << g.id << ' ' << g.kind << ' ' << g.rc.desc << (g.forced ? "-forcedpoly" : "") << " gc=" << (g.gcvariant >= 0 ? 1 : 0) << (g.forced ? " forced=0" : "") << '\n';
            if (o.cls == "done") os << o.text; else os << "W " << o.cls << ' ' << o.text << "\nEND\n";
        }, 60000, g_errfile);
}

static std::vector<Case> load_cases(const std::string& path) {
    std::vector<Case> cs; std::ifstream f(path); std::string line; Case cur; bool in = false;
    while (std::getline(f, line)) {
        if (line.rfind("CASE ", 0) == 0) { cur = Case(); std::istringstream ss(line.substr(5)); std::string k; ss >> cur.id >> k >> cur.desc; cur.kind = k[0]; cur.gc = line.find("gc=1") != std::string::npos; in = true; }
        else if (!in) continue;
        else if (line.rfind("W ", 0) == 0) cur.wres = line.substr(2);
        else if (line.rfind("B ", 0) == 0) cur.bytes = unhex(line.substr(2));
        else if (line == "END") { cs.push_back(cur); in = false; }
        else { cur.dump += line; cur.dump += '\n'; }
    }
    return cs;
}

// ---------------------------------------------------------------------------------------- isolated reads
struct Job { std::string id; ReadCfg cfg; Bytes bytes; std::string pre; const std::string* same_as = nullptr; };

static std::string run_read_job(const Job& j) {
    std::ostringstream dump;
    std::string res = read_any(j.bytes, j.cfg, dump);
    std::string cls = res == "Ok" ? "ok" : "err";
    std::string out = "R " + j.id + " " + cls + " " + res + "\n";
    if (cls == "ok") {
        std::string d = dump.str();
        if (d.rfind("MHUGE", 0) == 0) { out += d; return out; }
        // same mesh as the parent file's source (first line holds the mesh type letter: compare from line 2 on)
        auto body = [](const std::string& t) { auto p = t.find('\n'); return p == std::string::npos ? t : t.substr(p + 1); };
        auto head = [](const std::string& t) { auto a = t.find(' ', 2); return a == std::string::npos ? t : t.substr(a); };
        if (j.same_as && body(d) == body(*j.same_as) && head(d.substr(0, d.find('\n'))) == head(j.same_as->substr(0, j.same_as->find('\n')))) out += "MSAME\n"; else out += d;
    }
    return out;
}
static void run_jobs(std::vector<Job>& jobs, std::ostream& os) {
    iso::run_all(jobs.size(),
        [&](size_t i) { return run_read_job(jobs[i]); },
        [&](size_t i, const iso::Outcome& o) {
            os << jobs[i].pre;
            if (o.cls == "done") os << o.text;
            else os << "R " << jobs[i].id << ' ' << o.cls << ' ' << o.text << '\n';
        }, g_timeout_ms, g_errfile);
    os.flush();
}

#include "io_mut.hh"

// write faults: a sink that fails after `p` bytes must make ovmb_write return something other than Ok (C18)
template<class M> static std::string wfault_one(const GenJob& g, uint64_t seed, bool thorough) {
    std::ostringstream os;
    vh::Rng r(vh::mix(vh::mix(seed, (uint64_t)g.kind), 1000 + g.idx));
    M m; build(m, g.kind, g.rc, r);
    Bytes full; std::string wres = write_mesh(m, full);
    if (wres != "Ok") { os << "WF " << g.id << " -1 0 " << wres << " 0 0\n"; return os.str(); }
    std::set<size_t> ps;
    size_t n = full.size();
    // every ovmb_write allocates and zero-fills a 100 MB WriteBuffer (BinaryFileWriter's constructor): ~0.1 s per
    // call under ASan, so the quick tier samples positions (all chunk boundaries of a subset of the chunks)
    if (n <= (thorough ? 1200u : 100u)) for (size_t p = 0; p <= n; ++p) ps.insert(p);
    else {
        Layout L = parse_layout(full);
        size_t maxc = thorough ? 1000000u : 5u;
        size_t cstep = L.chunks.size() > maxc ? L.chunks.size() / maxc : 1; size_t ci = 0;
        long dlo = thorough ? -2 : -1, dhi = thorough ? 18 : 17;
        for (auto& c : L.chunks) if (ci++ % cstep == 0 || ci + 1 >= L.chunks.size()) for (long d = dlo; d <= dhi; d += (thorough || d < 1 || d > 14 ? 1 : 4)) { long p = (long)c.off + d; if (p >= 0 && (size_t)p <= n) ps.insert((size_t)p); }
        for (size_t p = 0; p < (thorough ? 50u : 12u); ++p) ps.insert(p);
        for (size_t p = 0; p < n; p += (n / (thorough ? 60 : 12)) + 1) ps.insert(p);
        for (size_t p = n - (thorough ? 20 : 4); p <= n; ++p) ps.insert(p);
    }
    size_t k = 0;
    for (size_t p : ps) {
        int style = (k++ % 7 == 3) ? 1 : 0;
        Bytes out; std::string res = write_mesh(m, out, (long)p, style);
        bool prefix = out.size() <= full.size() && std::equal(out.begin(), out.end(), full.begin());
        os << "WF " << g.id << ' ' << p << ' ' << style << ' ' << res << ' ' << out.size() << ' ' << n << ' ' << (prefix ? "prefix" : "NOTPREFIX") << '\n';
    }
    return os.str();
}
static void mode_wfaults(bool thorough, uint64_t seed, int shard, int nshards, std::ostream& os) {
    auto all = gen_jobs(thorough, seed, 0, 1);
    std::vector<GenJob> jobs;
    for (size_t i = 0; i < all.size(); ++i) if (all[i].gcvariant < 0 && !all[i].forced && (int)(i % (size_t)nshards) == shard) jobs.push_back(all[i]);
    iso::run_all(jobs.size(),
        [&](size_t i) { auto& g = jobs[i]; return g.kind == 't' ? wfault_one<TM>(g, seed, thorough) : g.kind == 'h' ? wfault_one<HM>(g, seed, thorough) : wfault_one<PM>(g, seed, thorough); },
        [&](size_t i, const iso::Outcome& o) { if (o.cls == "done") os << o.text; else os << "WF " << jobs[i].id << " -1 0 " << o.cls << " 0 0 " << o.text << "\n"; },
        600000, g_errfile);
}

int main(int argc, char** argv) {
    if (argc < 2) { fprintf(stderr, "usage: io_drv gen|read|mutate|faults ...\n"); return 2; }
    std::string mode = argv[1];
    uint64_t seed = vh::env_seed();
    if (const char* t = getenv("IO_TIMEOUT_MS")) g_timeout_ms = atoi(t);
    g_errfile = std::string(getenv("IO_ERRFILE") ? getenv("IO_ERRFILE") : "/verif/.build/io_drv.err") + "." + std::to_string(getpid());
    std::ios::sync_with_stdio(false);
    int rc = 0;
    if (mode == "gen" && argc >= 5) {
        bool thorough = std::string(argv[2]) == "thorough"; int shard = atoi(argv[3]), ns = atoi(argv[4]);
        mode_gen(thorough, seed, shard, ns, std::cout);
    } else if (mode == "wfaults" && argc >= 5) {
        mode_wfaults(std::string(argv[2]) == "thorough", seed, atoi(argv[3]), atoi(argv[4]), std::cout);
    } else if (mode == "read" && argc >= 3) {
        std::ifstream f(argv[2]); std::string line; std::vector<Job> jobs;
        while (std::getline(f, line)) {
            if (line.rfind("J ", 0) != 0) continue;
            std::istringstream ss(line.substr(2)); Job j; std::string mk, hx; int tc, bu; long fa; int st;
            ss >> j.id >> mk >> tc >> bu >> fa >> st >> hx;
            j.cfg.mk = mk[0]; j.cfg.tc = tc; j.cfg.bu = bu; j.cfg.fail_at = fa; j.cfg.style = st; j.bytes = unhex(hx);
            jobs.push_back(std::move(j));
        }
        run_jobs(jobs, std::cout);
    } else if (mode == "mutate" && argc >= 6) {
        rc = mode_mutate(argv[2], atoi(argv[3]), atoi(argv[4]), atoi(argv[5]), seed);
    } else if (mode == "faults" && argc >= 6) {
        rc = mode_faults(argv[2], std::string(argv[3]) == "thorough", atoi(argv[4]), atoi(argv[5]), seed);
    } else { fprintf(stderr, "bad arguments\n"); rc = 2; }
    std::cout.flush();
    unlink(g_errfile.c_str());
    return rc;
}

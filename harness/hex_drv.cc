// hex_drv: structured operation histories on a real HexahedralMesh (public API only) for C16.
// Trace / dump format: the one of kernel_drv.cc (DESIGN.md Appendix A), so that Judge.parseFile
// reads it; hex-specific query lines (tags h*) are added after the state dump of a step.
//
//   hex_drv --seed S --tier q|t --first F --traces N --out FILE [--replay TRACE]
//
// What a trace contains: blocks of hexahedra of random shape (lattice blocks with holes, rings =
// closed sheets, optionally twisted, fans around an edge of valence 3..5 = bent sheets, the
// "outside" cell of an isolated hex), each hex in a random one of the 24 orientations, added
// either from its 8 vertices or from a halfface list (faces created beforehand in random
// rotation / on a random side, or pre-existing from a neighbour): the convention order, random
// permutations of it (sweep traces: 24 sampled [q] / all 720 [t] per target cell, each accepted
// cell deleted again), and invalid lists (stray / flipped / doubled / missing / surplus halfface,
// mixtures of two hexes, a six-quad "orange", a hex with two identified vertices), interleaved
// with deletions, garbage collection, mode switches and index swaps.  After every operation the
// FULL state is dumped (so that "rejected => unchanged" is judged on everything) and, for every
// live cell, the hex queries.
#include <array>
#include <utility>
#include "common.hh"
#include <OpenVolumeMesh/Mesh/HexahedralMesh.hh>
#include <sys/wait.h>
#include <unistd.h>
#include <signal.h>
#include <array>
#include <map>
#include <memory>
#include <set>

using namespace OpenVolumeMesh;
using Vec3d = Geometry::Vec3d;
typedef GeometricHexahedralMeshV3d HexMesh;
typedef HexahedralMeshTopologyKernel HK;

static FILE* OUT = stdout;

struct Op { std::string name; std::vector<long> a; };
typedef std::array<int, 8> Hex;     // abstract vertex ids in the documented order

// the vertex tables of the documented convention (outward faces XF XB YF YB ZF ZB); only used to
// *generate* inputs -- what the implementation does with them is what gets judged
static const int FACE_V[6][4] = {{3, 2, 1, 0}, {7, 6, 5, 4}, {1, 2, 6, 7}, {4, 5, 3, 0}, {1, 7, 4, 0}, {2, 3, 5, 6}};

struct Driver {
    HexMesh& m;
    vh::Rng rng;
    bool thorough;
    int trace_no;
    int query_pct = 60;
    std::unique_ptr<PropertyPtr<int, Entity::Vertex>> idv;
    std::unique_ptr<PropertyPtr<int, Entity::Edge>> ide;
    std::unique_ptr<PropertyPtr<int, Entity::Face>> idf;
    std::unique_ptr<PropertyPtr<int, Entity::Cell>> idc;
    long next_tok = 100;
    std::map<int, long> vtok;                  // abstract vertex id -> token in idv
    std::vector<std::array<int, 8>> rots;      // the 24 orientation-preserving relabelings
    int next_abs = 0;
    bool force_queries = false;

    Driver(HexMesh& mm, uint64_t seed, bool th, int t) : m(mm), rng(seed), thorough(th), trace_no(t) { make_rots(); }

    // ------------------------------------------------------------------ cube symmetries
    void make_rots() {
        std::array<int, 8> id{{0, 1, 2, 3, 4, 5, 6, 7}};
        // R1: quarter turn about the front-back axis; R2: quarter turn about the vertical axis
        std::array<int, 8> r1{{1, 2, 3, 0, 7, 4, 5, 6}};    // new[i] = old[r1[i]]
        std::array<int, 8> r2{{4, 0, 3, 5, 7, 6, 2, 1}};
        std::set<std::array<int, 8>> seen{id};
        std::vector<std::array<int, 8>> todo{id};
        while (!todo.empty()) {
            auto p = todo.back(); todo.pop_back();
            for (const auto& g : {r1, r2}) {
                std::array<int, 8> q; for (int i = 0; i < 8; ++i) q[i] = p[g[i]];
                if (seen.insert(q).second) todo.push_back(q);
            }
        }
        rots.assign(seen.begin(), seen.end());
        if (rots.size() != 24) { fprintf(stderr, "hex_drv: %zu cube rotations generated, expected 24\n", rots.size()); exit(4); }
    }
    Hex rotate(const Hex& h, const std::array<int, 8>& p) { Hex r; for (int i = 0; i < 8; ++i) r[i] = h[p[i]]; return r; }
    Hex mirror(const Hex& h) { static const int mm[8] = {1, 0, 3, 2, 7, 6, 5, 4}; Hex r; for (int i = 0; i < 8; ++i) r[i] = h[mm[i]]; return r; }

    // ------------------------------------------------------------------ helpers on the mesh
    int nV() const { return (int)m.n_vertices(); }
    int nE() const { return (int)m.n_edges(); }
    int nF() const { return (int)m.n_faces(); }
    int nC() const { return (int)m.n_cells(); }
    bool liveV(int v) const { return v >= 0 && v < nV() && !m.is_deleted(VertexHandle(v)); }
    bool liveE(int e) const { return e >= 0 && e < nE() && !m.is_deleted(EdgeHandle(e)); }
    bool liveF(int f) const { return f >= 0 && f < nF() && !m.is_deleted(FaceHandle(f)); }
    bool liveC(int c) const { return c >= 0 && c < nC() && !m.is_deleted(CellHandle(c)); }
    bool liveHF(int h) const { return h >= 0 && liveF(h / 2); }
    std::vector<int> live(int kindIdx) const {
        std::vector<int> r;
        int n = kindIdx == 0 ? nV() : kindIdx == 1 ? nE() : kindIdx == 2 ? nF() : nC();
        for (int i = 0; i < n; ++i) {
            bool l = kindIdx == 0 ? liveV(i) : kindIdx == 1 ? liveE(i) : kindIdx == 2 ? liveF(i) : liveC(i);
            if (l) r.push_back(i);
        }
        return r;
    }
    int from(int he) const { return m.halfedge(HalfEdgeHandle(he)).from_vertex().idx(); }
    int to(int he) const { return m.halfedge(HalfEdgeHandle(he)).to_vertex().idx(); }
    std::vector<int> hf_hes(int hf) const { std::vector<int> r; for (auto h : m.halfface(HalfFaceHandle(hf)).halfedges()) r.push_back(h.idx()); return r; }
    std::vector<int> hf_verts(int hf) const { std::vector<int> r; for (int h : hf_hes(hf)) r.push_back(from(h)); return r; }
    bool hf_in_live_cell(int hf) const {
        for (int c = 0; c < nC(); ++c) { if (!liveC(c)) continue; for (auto h : m.cell(CellHandle(c)).halffaces()) if (h.idx() == hf) return true; }
        return false;
    }
    bool face_in_live_cell(int f) const { return hf_in_live_cell(2 * f) || hf_in_live_cell(2 * f + 1); }
    bool edge_in_live_face(int e) const {
        for (int f = 0; f < nF(); ++f) { if (!liveF(f)) continue; for (auto h : m.face(FaceHandle(f)).halfedges()) if (h.idx() / 2 == e) return true; }
        return false;
    }
    bool closed_loop(const std::vector<long>& hes) const {
        if (hes.empty()) return false;
        for (size_t i = 0; i < hes.size(); ++i) if (to((int)hes[i]) != from((int)hes[(i + 1) % hes.size()])) return false;
        return true;
    }
    // live halfface with exactly this vertex cycle (up to rotation), -1 if none
    int find_hf_by_verts(const std::vector<int>& vs) const {
        size_t n = vs.size();
        for (int hf = 0; hf < 2 * nF(); ++hf) {
            if (!liveHF(hf)) continue;
            std::vector<int> w = hf_verts(hf);
            if (w.size() != n) continue;
            for (size_t r = 0; r < n; ++r) { bool ok = true; for (size_t i = 0; i < n && ok; ++i) ok = w[(i + r) % n] == vs[i]; if (ok) return hf; }
        }
        return -1;
    }
    std::vector<int> free_hfs() const { std::vector<int> r; for (int h = 0; h < 2 * nF(); ++h) if (liveHF(h) && !hf_in_live_cell(h)) r.push_back(h); return r; }
    bool full_bu() const { return m.has_vertex_bottom_up_incidences() && m.has_edge_bottom_up_incidences() && m.has_face_bottom_up_incidences(); }

    // ------------------------------------------------------------------ dump (format of kernel_drv)
    void dump() {
        const TopologyKernel& k = m;
        fprintf(OUT, "n %zu %zu %zu %zu l %zu %zu %zu %zu gc %d genus %d\n", k.n_vertices(), k.n_edges(), k.n_faces(), k.n_cells(),
                k.n_logical_vertices(), k.n_logical_edges(), k.n_logical_faces(), k.n_logical_cells(), k.needs_garbage_collection() ? 1 : 0, k.genus());
        fprintf(OUT, "m %d %d %d %d %d\n", k.deferred_deletion_enabled(), k.fast_deletion_enabled(),
                k.has_vertex_bottom_up_incidences(), k.has_edge_bottom_up_incidences(), k.has_face_bottom_up_incidences());
        fprintf(OUT, "vd %zu", k.n_vertices());
        for (size_t v = 0; v < k.n_vertices(); ++v) fprintf(OUT, " %d", k.is_deleted(VertexHandle((int)v)) ? 1 : 0);
        fputc('\n', OUT);
        for (size_t e = 0; e < k.n_edges(); ++e) {
            auto ed = k.edge(EdgeHandle((int)e));
            fprintf(OUT, "e %zu %d %d %d\n", e, ed.from_vertex().idx(), ed.to_vertex().idx(), k.is_deleted(EdgeHandle((int)e)) ? 1 : 0);
        }
        for (size_t f = 0; f < k.n_faces(); ++f) {
            const auto& hes = k.face(FaceHandle((int)f)).halfedges();
            fprintf(OUT, "f %zu %d %zu", f, k.is_deleted(FaceHandle((int)f)) ? 1 : 0, hes.size());
            for (auto h : hes) fprintf(OUT, " %d", h.idx());
            fputc('\n', OUT);
        }
        for (size_t c = 0; c < k.n_cells(); ++c) {
            const auto& hfs = k.cell(CellHandle((int)c)).halffaces();
            fprintf(OUT, "c %zu %d %zu", c, k.is_deleted(CellHandle((int)c)) ? 1 : 0, hfs.size());
            for (auto h : hfs) fprintf(OUT, " %d", h.idx());
            fputc('\n', OUT);
        }
        if (k.has_vertex_bottom_up_incidences())
            for (size_t v = 0; v < k.n_vertices(); ++v) {
                std::vector<int> l; for (auto it = k.voh_iter(VertexHandle((int)v)); it.valid(); ++it) l.push_back(it->idx());
                fprintf(OUT, "ov %zu %zu", v, l.size()); for (int x : l) fprintf(OUT, " %d", x); fputc('\n', OUT);
            }
        if (k.has_edge_bottom_up_incidences())
            for (size_t h = 0; h < k.n_halfedges(); ++h) {
                std::vector<int> l; for (auto it = k.hehf_iter(HalfEdgeHandle((int)h)); it.valid(); ++it) l.push_back(it->idx());
                fprintf(OUT, "ih %zu %zu", h, l.size()); for (int x : l) fprintf(OUT, " %d", x); fputc('\n', OUT);
            }
        if (k.has_face_bottom_up_incidences())
            for (size_t h = 0; h < k.n_halffaces(); ++h) fprintf(OUT, "ic %zu %d\n", h, k.incident_cell(HalfFaceHandle((int)h)).idx());
        auto col = [&](const char* kind, const char* key, const std::vector<int>& v) {
            fprintf(OUT, "p %s %s int 0 %zu", kind, key, v.size()); for (int x : v) fprintf(OUT, " %d", x); fputc('\n', OUT);
        };
        col("v", "idv", idv->data_vector()); col("e", "ide", ide->data_vector()); col("f", "idf", idf->data_vector()); col("c", "idc", idc->data_vector());
    }

    // ------------------------------------------------------------------ hex queries
    void dump_queries() {
        bool ebu = m.has_edge_bottom_up_incidences(), fbu = m.has_face_bottom_up_incidences();
        std::vector<int> lc = live(3);
        for (int c : lc) {
            CellHandle ch(c);
            std::vector<int> hfs; for (auto h : m.cell(ch).halffaces()) hfs.push_back(h.idx());
            if (hfs.size() != 6) continue;      // the accessors index positions 0..5 unchecked
            for (int hf : hfs) {
                fprintf(OUT, "hori %d %d %d\n", c, hf, (int)m.orientation(HalfFaceHandle(hf), ch));
                fprintf(OUT, "hopp %d %d %d\n", c, hf, m.opposite_halfface_handle_in_cell(HalfFaceHandle(hf), ch).idx());
            }
            // a halfface that is not in the cell: INVALID / InvalidHalfFaceHandle
            { int other = hfs[0] ^ 1; bool in = false; for (int h : hfs) if (h == other) in = true;
              if (!in) { fprintf(OUT, "hori %d %d %d\n", c, other, (int)m.orientation(HalfFaceHandle(other), ch));
                         fprintf(OUT, "hopp %d %d %d\n", c, other, m.opposite_halfface_handle_in_cell(HalfFaceHandle(other), ch).idx()); } }
            fprintf(OUT, "hacc %d %d %d %d %d %d %d\n", c, m.xfront_halfface(ch).idx(), m.xback_halfface(ch).idx(), m.yfront_halfface(ch).idx(),
                    m.yback_halfface(ch).idx(), m.zfront_halfface(ch).idx(), m.zback_halfface(ch).idx());
            for (int o = 0; o <= 6; ++o) fprintf(OUT, "hgoh %d %d %d\n", c, o, m.get_oriented_halfface((unsigned char)o, ch).idx());
            if (fbu) {
                bool ok = true;     // the walk navigates through live halffaces only
                for (int hf : hfs) if (!liveHF(hf)) ok = false;
                if (ok) {
                    std::vector<int> l; for (auto it = m.hv_iter(ch); it.valid(); ++it) l.push_back(it->idx());
                    fprintf(OUT, "hhv %d %zu", c, l.size()); for (int x : l) fprintf(OUT, " %d", x); fputc('\n', OUT);
                }
                for (int d = 0; d < 6; ++d) {
                    std::vector<int> l; for (auto it = m.csc_iter(ch, (unsigned char)d); it.valid(); ++it) l.push_back(it->idx());
                    fprintf(OUT, "hcsc %d %d %zu", c, d, l.size()); for (int x : l) fprintf(OUT, " %d", x); fputc('\n', OUT);
                }
            }
        }
        if (fbu) for (int hf = 0; hf < 2 * nF(); ++hf) {
            if (!liveHF(hf)) continue;
            std::vector<int> l, ce;
            for (auto it = m.hfshf_iter(HalfFaceHandle(hf)); it.valid(); ++it) { l.push_back(it->idx()); ce.push_back(it.common_edge().idx()); }
            fprintf(OUT, "hhfs %d %zu", hf, l.size()); for (int x : l) fprintf(OUT, " %d", x); fputc('\n', OUT);
            fprintf(OUT, "hhfe %d %zu", hf, ce.size()); for (int x : ce) fprintf(OUT, " %d", x); fputc('\n', OUT);
        }
        // sheet / surface navigation from the halffaces of (a sample of) the live cells
        std::vector<int> sample = lc;
        if (sample.size() > 3) { rng.shuffle(sample); sample.resize(3); std::sort(sample.begin(), sample.end()); }
        for (int c : sample) for (auto hfh : m.cell(CellHandle(c)).halffaces()) {
            int hf = hfh.idx();
            if (!liveHF(hf)) continue;
            for (int he : hf_hes(hf)) for (int side = 0; side < 2; ++side) {
                int h = he ^ side;
                fprintf(OUT, "haos %d %d %d\n", hf, h, m.adjacent_halfface_on_sheet(HalfFaceHandle(hf), HalfEdgeHandle(h)).idx());
                if (ebu && fbu) {
                    fprintf(OUT, "hasf %d %d %d\n", hf, h, m.adjacent_halfface_on_surface(HalfFaceHandle(hf), HalfEdgeHandle(h)).idx());
                    fprintf(OUT, "hnoh %d %d %d\n", hf, h, m.neighboring_outside_halfface(HalfFaceHandle(hf), HalfEdgeHandle(h)).idx());
                }
            }
        }
    }

    // ------------------------------------------------------------------ id tokens
    void make_id_columns() {
        idv.reset(new PropertyPtr<int, Entity::Vertex>(m.create_private_property<int, Entity::Vertex>("idv", 0)));
        ide.reset(new PropertyPtr<int, Entity::Edge>(m.create_private_property<int, Entity::Edge>("ide", 0)));
        idf.reset(new PropertyPtr<int, Entity::Face>(m.create_private_property<int, Entity::Face>("idf", 0)));
        idc.reset(new PropertyPtr<int, Entity::Cell>(m.create_private_property<int, Entity::Cell>("idc", 0)));
    }
    template <class P, class H> bool retoken_one(P& p, H) { bool any = false; for (size_t i = 0; i < p.size(); ++i) if (p[H((int)i)] == 0) { p[H((int)i)] = (int)next_tok++; any = true; } return any; }
    template <class P> static bool has_zero(const P& p) { for (int x : p.data_vector()) if (x == 0) return true; return false; }
    int v_of_abs(int a) {       // current handle of an abstract vertex (created on demand)
        auto it = vtok.find(a);
        if (it != vtok.end()) { const auto& d = idv->data_vector(); for (int v = 0; v < nV(); ++v) if (d[v] == it->second && liveV(v)) return v; }
        exec(Op{"add_vertex", {}});
        int v = nV() - 1;
        vtok[a] = idv->data_vector()[v];
        return v;
    }

    // ------------------------------------------------------------------ execution
    void emit_op(const Op& op, bool malformed) {
        fprintf(OUT, "%s %s", malformed ? "O!" : "O", op.name.c_str());
        for (long x : op.a) fprintf(OUT, " %ld", x);
        fputc('\n', OUT); fflush(OUT);
    }
    void finish_step(const std::string& res) {
        fprintf(OUT, "R %s\n", res.c_str());
        dump();
        if (force_queries || (int)rng.below(100) < query_pct) dump_queries();
        fputs("E\n", OUT); fflush(OUT);
    }
    bool valid(const Op& op) {
        const auto& a = op.a; const std::string& n = op.name;
        if (n == "add_vertex" || n == "collect_garbage" || n == "retoken") return true;
        if (n == "add_face_v") { if (a.size() != 5 || a[0] != 4) return false; for (size_t i = 1; i < a.size(); ++i) if (!liveV((int)a[i])) return false; return true; }
        if (n == "add_face_he") { if (a.size() < 2 || (size_t)a[1] + 2 != a.size()) return false; for (size_t i = 2; i < a.size(); ++i) if (!liveE((int)a[i] / 2) || a[i] < 0) return false;
                                  std::vector<long> hes(a.begin() + 2, a.end()); return a[0] != 0 || (hes.size() == 4 && closed_loop(hes)); }
        if (n == "add_cell") {
            if (a.size() < 2 || (size_t)a[1] + 2 != a.size()) return false;
            for (size_t i = 2; i < a.size(); ++i) { if (!liveHF((int)a[i])) return false; if (hf_in_live_cell((int)a[i])) return false; }
            return true;
        }
        if (n == "hex_add_cell_v") { if (a.size() != 9) return false; for (size_t i = 1; i < 9; ++i) if (!liveV((int)a[i])) return false;
                                     std::set<long> s(a.begin() + 1, a.end()); return s.size() == 8; }
        if (n == "delete_vertex") return a.size() == 1 && liveV((int)a[0]);
        if (n == "delete_edge") return a.size() == 1 && liveE((int)a[0]);
        if (n == "delete_face") return a.size() == 1 && liveF((int)a[0]);
        if (n == "delete_cell") return a.size() == 1 && liveC((int)a[0]);
        if (n == "swap_vertex") return a.size() == 2 && a[0] >= 0 && a[1] >= 0 && a[0] < nV() && a[1] < nV();
        if (n == "swap_edge") return a.size() == 2 && a[0] >= 0 && a[1] >= 0 && a[0] < nE() && a[1] < nE();
        if (n == "swap_face") return a.size() == 2 && a[0] >= 0 && a[1] >= 0 && a[0] < nF() && a[1] < nF();
        if (n == "swap_cell") return a.size() == 2 && a[0] >= 0 && a[1] >= 0 && a[0] < nC() && a[1] < nC();
        if (n == "enable_deferred" || n == "enable_fast") return a.size() == 1;
        if (n == "enable_bu") return a.size() == 2 && a[0] >= 0 && a[0] <= 2;
        return false;
    }
    std::string apply(const Op& op) {
        const auto& a = op.a; const std::string& n = op.name; char buf[64];
        if (n == "add_vertex") { snprintf(buf, 64, "%d", m.add_vertex(Vec3d(0, 0, 0)).idx()); return buf; }
        if (n == "add_face_v") { std::vector<VertexHandle> vs; for (size_t i = 1; i < a.size(); ++i) vs.push_back(VertexHandle((int)a[i])); snprintf(buf, 64, "%d", m.add_face(vs).idx()); return buf; }
        if (n == "add_face_he") { std::vector<HalfEdgeHandle> hs; for (size_t i = 2; i < a.size(); ++i) hs.push_back(HalfEdgeHandle((int)a[i])); snprintf(buf, 64, "%d", m.add_face(hs, a[0] != 0).idx()); return buf; }
        if (n == "add_cell") { std::vector<HalfFaceHandle> hs; for (size_t i = 2; i < a.size(); ++i) hs.push_back(HalfFaceHandle((int)a[i])); snprintf(buf, 64, "%d", m.add_cell(hs, a[0] != 0).idx()); return buf; }
        if (n == "hex_add_cell_v") { std::vector<VertexHandle> vs; for (size_t i = 1; i < a.size(); ++i) vs.push_back(VertexHandle((int)a[i])); snprintf(buf, 64, "%d", m.add_cell(vs, a[0] != 0).idx()); return buf; }
        if (n == "delete_vertex") { auto it = m.delete_vertex(VertexHandle((int)a[0])); snprintf(buf, 64, "%d", it->idx()); return buf; }
        if (n == "delete_edge") { auto it = m.delete_edge(EdgeHandle((int)a[0])); snprintf(buf, 64, "%d", it->idx()); return buf; }
        if (n == "delete_face") { auto it = m.delete_face(FaceHandle((int)a[0])); snprintf(buf, 64, "%d", it->idx()); return buf; }
        if (n == "delete_cell") { auto it = m.delete_cell(CellHandle((int)a[0])); snprintf(buf, 64, "%d", it->idx()); return buf; }
        if (n == "swap_vertex") { m.swap_vertex_indices(VertexHandle((int)a[0]), VertexHandle((int)a[1])); return "ok"; }
        if (n == "swap_edge") { m.swap_edge_indices(EdgeHandle((int)a[0]), EdgeHandle((int)a[1])); return "ok"; }
        if (n == "swap_face") { m.swap_face_indices(FaceHandle((int)a[0]), FaceHandle((int)a[1])); return "ok"; }
        if (n == "swap_cell") { m.swap_cell_indices(CellHandle((int)a[0]), CellHandle((int)a[1])); return "ok"; }
        if (n == "collect_garbage") { m.collect_garbage(); return "ok"; }
        if (n == "enable_deferred") { m.enable_deferred_deletion(a[0] != 0); return "ok"; }
        if (n == "enable_fast") { m.enable_fast_deletion(a[0] != 0); return "ok"; }
        if (n == "enable_bu") {
            if (a[0] == 0) m.enable_vertex_bottom_up_incidences(a[1] != 0);
            else if (a[0] == 1) m.enable_edge_bottom_up_incidences(a[1] != 0);
            else m.enable_face_bottom_up_incidences(a[1] != 0);
            return "ok";
        }
        if (n == "retoken") { retoken_one(*idv, VertexHandle()); retoken_one(*ide, EdgeHandle()); retoken_one(*idf, FaceHandle()); retoken_one(*idc, CellHandle()); return "ok"; }
        return "?";
    }
    std::string last_res;
    bool exec(const Op& op, bool malformed = false) {
        if (!valid(op)) return false;
        emit_op(op, malformed);
        std::string res = apply(op);
        finish_step(res);
        if (op.name != "retoken" && (has_zero(*idv) || has_zero(*ide) || has_zero(*idf) || has_zero(*idc))) {
            bool fq = force_queries; force_queries = false; int q = query_pct; query_pct = 0;
            exec(Op{"retoken", {1}});
            force_queries = fq; query_pct = q;
        }
        last_res = res;
        return true;
    }
    Op mk(const std::string& n, std::initializer_list<long> a) { return Op{n, std::vector<long>(a)}; }

    // ------------------------------------------------------------------ shapes (abstract hexes)
    int fresh_abs() { return next_abs++; }
    // hex from a front quad (a b c d) and the quad behind it (a' b' c' d')
    static Hex prism(const std::array<int, 4>& f, const std::array<int, 4>& b) { return Hex{{f[0], f[1], f[2], f[3], b[0], b[3], b[2], b[1]}}; }
    std::vector<Hex> shape_lattice() {
        int nx = rng.range(1, 3), ny = rng.range(1, 2), nz = rng.range(1, 2);
        std::map<std::array<int, 3>, int> id;
        auto V = [&](int x, int y, int z) { std::array<int, 3> k{{x, y, z}}; auto it = id.find(k); if (it != id.end()) return it->second; int a = fresh_abs(); id[k] = a; return a; };
        std::vector<Hex> r;
        for (int i = 0; i < nx; ++i) for (int j = 0; j < ny; ++j) for (int k = 0; k < nz; ++k) {
            if (nx * ny * nz > 2 && rng.chance(1, 5)) continue;     // holes / bent blocks
            r.push_back(prism({{V(i, j, k), V(i + 1, j, k), V(i + 1, j + 1, k), V(i, j + 1, k)}},
                              {{V(i, j, k + 1), V(i + 1, j, k + 1), V(i + 1, j + 1, k + 1), V(i, j + 1, k + 1)}}));
        }
        if (r.empty()) r.push_back(prism({{V(0, 0, 0), V(1, 0, 0), V(1, 1, 0), V(0, 1, 0)}}, {{V(0, 0, 1), V(1, 0, 1), V(1, 1, 1), V(0, 1, 1)}}));
        return r;
    }
    std::vector<Hex> shape_ring() {        // closed sheet, optionally twisted
        int n = rng.range(3, 6), twist = rng.chance(1, 3) ? rng.range(1, 3) : 0;
        std::vector<std::array<int, 4>> sec(n);
        for (auto& s : sec) for (int& x : s) x = fresh_abs();
        std::vector<Hex> r;
        for (int i = 0; i < n; ++i) {
            std::array<int, 4> back = sec[(i + 1) % n];
            if (i == n - 1 && twist) { std::array<int, 4> t; for (int j = 0; j < 4; ++j) t[j] = back[(j + twist) % 4]; back = t; }
            r.push_back(prism(sec[i], back));
        }
        if (rng.chance(1, 3)) r.erase(r.begin() + rng.below(r.size()));      // open it again: a bent strip
        return r;
    }
    std::vector<Hex> shape_fan() {         // hexes around a common edge (valence 3..5), closed or open
        int n = rng.range(3, 5); bool closed = rng.chance(2, 3);
        int A = fresh_abs(), A2 = fresh_abs();
        int nb = closed ? n : n + 1;
        std::vector<int> B(nb), B2(nb), C(n), C2(n);
        for (int i = 0; i < nb; ++i) { B[i] = fresh_abs(); B2[i] = fresh_abs(); }
        for (int i = 0; i < n; ++i) { C[i] = fresh_abs(); C2[i] = fresh_abs(); }
        std::vector<Hex> r;
        for (int i = 0; i < n; ++i) r.push_back(prism({{A, B[i], C[i], B[(i + 1) % nb]}}, {{A2, B2[i], C2[i], B2[(i + 1) % nb]}}));
        return r;
    }

    // ------------------------------------------------------------------ adding a planned hex
    std::vector<int> face_cycle(const std::array<int, 8>& v, int f) { return {v[FACE_V[f][0]], v[FACE_V[f][1]], v[FACE_V[f][2]], v[FACE_V[f][3]]}; }
    // live free halfface on exactly this (outward) vertex cycle; creates the face if neither side exists
    // (random rotation of the cycle, random side).  -1: exists but occupied.
    int ensure_hf(const std::vector<int>& vs) {
        int hf = find_hf_by_verts(vs);
        if (hf >= 0) return hf_in_live_cell(hf) ? -1 : hf;
        std::vector<int> rv(vs.rbegin(), vs.rend());
        int ohf = find_hf_by_verts(rv);
        if (ohf >= 0) return hf_in_live_cell(ohf ^ 1) ? -1 : (ohf ^ 1);
        bool rev = rng.chance(1, 2);
        std::vector<int> w = rev ? rv : vs;
        std::rotate(w.begin(), w.begin() + rng.below(4), w.end());
        Op op; op.name = "add_face_v"; op.a = {4, w[0], w[1], w[2], w[3]};
        if (!exec(op)) return -1;
        if (last_res == "-1") return -1;
        int f = atoi(last_res.c_str());
        return 2 * f + (rev ? 1 : 0);
    }
    // convention-ordered halfface list of the hex (mesh vertex handles v), or empty
    std::vector<long> ensure_hex_faces(const std::array<int, 8>& v) {
        std::vector<long> L;
        for (int f = 0; f < 6; ++f) { int hf = ensure_hf(face_cycle(v, f)); if (hf < 0) return {}; L.push_back(hf); }
        std::set<long> s(L.begin(), L.end());
        if (s.size() != 6) return {};
        return L;
    }
    bool add_cell_op(const std::vector<long>& hfs, bool chk, bool malformed) {
        Op op; op.name = "add_cell"; op.a.push_back(chk ? 1 : 0); op.a.push_back((long)hfs.size()); for (long h : hfs) op.a.push_back(h);
        bool fq = force_queries; force_queries = true;
        bool r = exec(op, malformed);
        force_queries = fq;
        return r;
    }
    void maybe_gc() {
        if (nC() - (int)m.n_logical_cells() > 6) exec(mk("collect_garbage", {}));
    }
    std::array<int, 8> handles_of(const Hex& h) { std::array<int, 8> v; for (int i = 0; i < 8; ++i) v[i] = v_of_abs(h[i]); return v; }

    // one invalid list derived from a valid list L (all halffaces live and free)
    void invalid_attempt(const std::vector<long>& L) {
        std::vector<long> B = L;
        std::vector<int> fr = free_hfs();
        std::vector<int> others; for (int h : fr) if (std::find(L.begin(), L.end(), (long)h) == L.end()) others.push_back(h);
        int what = (int)rng.below(7);
        size_t j = rng.below(6), i = rng.below(6);
        // directed: the far side of the very first face (halfface 1) replaced by a stray halfface -- the list the
        // re-ordering path used to complete with an invalid handle
        { auto it = std::find(L.begin(), L.end(), 1L); if (it != L.end() && !others.empty() && rng.chance(2, 3)) { what = 0; j = (size_t)(it - L.begin()); } }
        if (what == 0 && !others.empty()) B[j] = rng.pick(others);                       // stray halfface
        else if (what == 1) { int o = (int)L[j] ^ 1; if (hf_in_live_cell(o)) return; B[j] = o; }     // one face seen from inside
        else if (what == 2) { if (i == j) return; B[j] = B[i]; }                          // doubled
        else if (what == 3) B.erase(B.begin() + j);                                       // five
        else if (what == 4 && !others.empty()) B.push_back(rng.pick(others));             // seven
        else if (what == 5 && others.size() >= 2) { B[j] = rng.pick(others); size_t j2 = (j + 1 + rng.below(5)) % 6; B[j2] = rng.pick(others); }
        else { B.clear(); }                                                               // empty list
        if (B == L) return;
        rng.shuffle(B);
        add_cell_op(B, true, true);
    }
    // a closed surface of six quads that is not a hexahedron: N, S, d0..d5, faces (N d_i S d_{i+1})
    void orange_attempt() {
        int N = v_of_abs(fresh_abs()), S = v_of_abs(fresh_abs());
        int d[6]; for (int& x : d) x = v_of_abs(fresh_abs());
        std::vector<long> L;
        for (int i = 0; i < 6; ++i) { int hf = ensure_hf({N, d[i], S, d[(i + 1) % 6]}); if (hf < 0) return; L.push_back(hf); }
        rng.shuffle(L);
        add_cell_op(L, true, true);
    }
    // the other quadrangulation of the sphere with 8 vertices, 12 edges and 6 proper quads (degrees 4,4,3,3,3,3,2,2):
    // closed, both walks of check_halfface_ordering succeed, eight distinct vertices, but the first two halffaces
    // share two vertices (C16K, findings/C16-quad-sphere-hex.md; rejected since 7800c85)
    void quad_sphere_attempt() {
        int w[8]; for (int& x : w) x = v_of_abs(fresh_abs());
        static const int F[6][4] = {{0, 1, 2, 3}, {4, 0, 5, 2}, {1, 0, 4, 6}, {3, 2, 5, 7}, {2, 1, 6, 4}, {0, 3, 7, 5}};
        std::vector<long> L;
        for (auto& f : F) { int hf = ensure_hf({w[f[0]], w[f[1]], w[f[2]], w[f[3]]}); if (hf < 0) return; L.push_back(hf); }
        if (rng.chance(1, 3)) rng.shuffle(L);
        if (add_cell_op(L, true, true) && last_res != "-1") exec(mk("delete_cell", {atol(last_res.c_str())}));
    }
    // a hexahedron with two diagonally opposite vertices identified: closed, every face a proper quad,
    // 7 distinct vertices (judged separately: C16J)
    void pinched_attempt() {
        Hex h; for (int& x : h) x = fresh_abs();
        h[6] = h[0];
        std::array<int, 8> v = handles_of(rotate(h, rng.pick(rots)));
        std::vector<long> L = ensure_hex_faces(v);
        if (L.empty()) return;
        if (rng.chance(1, 2)) rng.shuffle(L);
        if (add_cell_op(L, true, true) && last_res != "-1") exec(mk("delete_cell", {atol(last_res.c_str())}));
    }

    void add_hex_H(const Hex& h, int sweep) {
        std::array<int, 8> v = handles_of(h);
        std::vector<long> L = ensure_hex_faces(v);
        if (L.empty()) return;
        if (sweep > 0) {
            // permutations of the valid list through the checked call; every accepted cell is deleted again
            std::vector<std::array<int, 6>> perms;
            std::array<int, 6> idx{{0, 1, 2, 3, 4, 5}};
            if (sweep >= 720) { do { perms.push_back(idx); } while (std::next_permutation(idx.begin(), idx.end())); }
            else {
                perms.push_back(idx);
                perms.push_back({{0, 1, 2, 3, 5, 4}});      // mirrored
                perms.push_back({{1, 0, 2, 3, 4, 5}});
                while ((int)perms.size() < sweep) { std::vector<int> p{0, 1, 2, 3, 4, 5}; rng.shuffle(p); std::array<int, 6> q; for (int i = 0; i < 6; ++i) q[i] = p[i]; perms.push_back(q); }
            }
            for (const auto& p : perms) {
                // handles may have moved (fast deletion / garbage collection): re-resolve through the vertex cycles
                std::vector<long> cur = ensure_hex_faces(handles_of(h));
                if (cur.empty()) return;
                std::vector<long> pp; for (int t = 0; t < 6; ++t) pp.push_back(cur[p[t]]);
                if (!add_cell_op(pp, true, false)) return;
                if (last_res != "-1") { exec(mk("delete_cell", {atol(last_res.c_str())})); maybe_gc(); }
            }
            L = ensure_hex_faces(handles_of(h));
            if (L.empty()) return;
        }
        int variant = (int)rng.below(100);
        if (variant < 35) { int n = 1 + (int)rng.below(3); for (int t = 0; t < n; ++t) invalid_attempt(L); }
        // the faces may have been renumbered by nothing here (invalid attempts are rejected): L still valid
        for (long x : L) if (!liveHF((int)x) || hf_in_live_cell((int)x)) return;
        if (variant < 65) { std::vector<long> p = L; rng.shuffle(p); add_cell_op(p, true, false); }
        else add_cell_op(L, rng.chance(2, 3), false);
    }
    void add_hex_V(const Hex& h) {
        bool mir = rng.chance(1, 20);       // mirrored vertex order: faces shared with a neighbour are found from the wrong side
        std::array<int, 8> v = handles_of(mir ? mirror(h) : h);
        // a face of the hex that exists with its outward side already in a live cell: only the checked call is in contract
        bool occupied = false;
        for (int f = 0; f < 6; ++f) { int hf = find_hf_by_verts(face_cycle(v, f)); if (hf >= 0 && hf_in_live_cell(hf)) occupied = true; }
        Op op; op.name = "hex_add_cell_v"; op.a.push_back(mir || occupied || rng.chance(2, 3) ? 1 : 0); for (int x : v) op.a.push_back(x);
        bool fq = force_queries; force_queries = true;
        exec(op, mir || occupied || !full_bu());
        force_queries = fq;
    }
    // the 8 vertices of a live cell whose six outer halffaces are free, seen from outside: the "outside cell"
    void outside_cell() {
        for (int c : live(3)) {
            std::vector<long> L; bool ok = true;
            for (auto h : m.cell(CellHandle(c)).halffaces()) { int o = h.idx() ^ 1; if (!liveHF(o) || hf_in_live_cell(o)) ok = false; L.push_back(o); }
            if (!ok || L.size() != 6) continue;
            rng.shuffle(L);
            add_cell_op(L, true, false);
            return;
        }
    }
    void add_mirrored_neighbour() {
        // the vertices of a live cell in mirrored order: all six faces are found but seen from inside
        std::vector<int> lc = live(3); if (lc.empty() || !full_bu()) return;
        int c = rng.pick(lc);
        std::vector<int> hv; for (auto it = m.hv_iter(CellHandle(c)); it.valid(); ++it) hv.push_back(it->idx());
        std::set<int> s(hv.begin(), hv.end());
        if (hv.size() != 8 || s.size() != 8) return;
        Hex h; for (int i = 0; i < 8; ++i) h[i] = hv[i];
        Hex mh = mirror(h);
        Op op; op.name = "hex_add_cell_v"; op.a.push_back(1); for (int x : mh) op.a.push_back(x);
        bool fq = force_queries; force_queries = true;
        exec(op, true);
        force_queries = fq;
    }

    // ------------------------------------------------------------------ other operations
    void gen_delete() {
        int k = (int)rng.below(10);
        int kindIdx = k < 1 ? 0 : k < 2 ? 1 : k < 4 ? 2 : 3;
        std::vector<int> l = live(kindIdx);
        if (l.empty()) return;
        static const char* names[4] = {"delete_vertex", "delete_edge", "delete_face", "delete_cell"};
        exec(mk(names[kindIdx], {rng.pick(l)}));
    }
    void gen_swap() {
        int kindIdx = (int)rng.below(4);
        int n = kindIdx == 0 ? nV() : kindIdx == 1 ? nE() : kindIdx == 2 ? nF() : nC();
        if (n < 2) return;
        static const char* names[4] = {"swap_vertex", "swap_edge", "swap_face", "swap_cell"};
        exec(mk(names[kindIdx], {(long)rng.below((uint64_t)n), (long)rng.below((uint64_t)n)}));
    }
    void gen_mode() {
        int what = (int)rng.below(10);
        if (what < 2) exec(mk("enable_deferred", {(long)rng.below(2)}));
        else if (what < 4) exec(mk("enable_fast", {(long)rng.below(2)}));
        else if (what < 8) exec(mk("collect_garbage", {}));
        else { long kd = (long)rng.below(3); exec(mk("enable_bu", {kd, 0})); if (rng.chance(3, 4)) exec(mk("enable_bu", {kd, 1})); }
    }
    void restore_bu() {
        if (!m.has_vertex_bottom_up_incidences()) exec(mk("enable_bu", {0, 1}));
        if (!m.has_edge_bottom_up_incidences()) exec(mk("enable_bu", {1, 1}));
        if (!m.has_face_bottom_up_incidences()) exec(mk("enable_bu", {2, 1}));
    }

    void run(bool sweep_trace) {
        int nshapes = sweep_trace ? 1 : rng.range(1, 2);
        std::vector<Hex> plan;
        for (int s = 0; s < nshapes; ++s) {
            int kind = (int)rng.below(3);
            std::vector<Hex> sh = kind == 0 ? shape_lattice() : kind == 1 ? shape_ring() : shape_fan();
            for (auto& h : sh) plan.push_back(rotate(h, rng.pick(rots)));
        }
        if (sweep_trace && plan.size() > 3) plan.resize(3);
        rng.shuffle(plan);
        size_t budget = plan.size() * 2 + 4;
        std::vector<Hex> todo = plan;
        int sweeps_left = sweep_trace ? (thorough ? 1 : 2) : 0;
        while (!todo.empty() && budget-- > 0) {
            Hex h = todo.back(); todo.pop_back();
            bool wantV = rng.chance(9, 20);
            if (sweeps_left > 0 && (todo.size() <= 1 || rng.chance(1, 2))) { add_hex_H(h, thorough ? 720 : 24); --sweeps_left; }
            else if (wantV) { if (!full_bu() && rng.chance(3, 4)) restore_bu(); add_hex_V(h); }
            else add_hex_H(h, 0);
            int w = (int)rng.below(100);
            if (w < 14) { gen_delete(); if (rng.chance(1, 2)) todo.insert(todo.begin(), rotate(h, rng.pick(rots))); }
            else if (w < 22) gen_mode();
            else if (w < 28) gen_swap();
            else if (w < 31) orange_attempt();
            else if (w < 34) pinched_attempt();
            else if (w < 37) outside_cell();
            else if (w < 40) add_mirrored_neighbour();
            else if (w < 44 && w >= 42) quad_sphere_attempt();
            else if (w < 42) { std::vector<int> lf = live(2); if (!lf.empty()) { std::vector<int> hes = hf_hes(2 * rng.pick(lf)); hes.pop_back();
                               Op op; op.name = "add_face_he"; op.a = {1, 3, hes[0], hes[1], hes[2]}; exec(op, true); } }
        }
        // final round of deletions / garbage collection with the queries asked on what is left
        force_queries = true;
        for (int i = 0; i < 3; ++i) { if (rng.chance(1, 2)) gen_delete(); }
        exec(mk("collect_garbage", {}));
        if (rng.chance(1, 2)) { restore_bu(); }
        force_queries = false;
    }
};

static void init_mesh(Driver& d, uint64_t cfg) {
    d.m.enable_deferred_deletion((cfg & 1) != 0);
    d.m.enable_fast_deletion((cfg & 2) != 0);
    d.m.enable_vertex_bottom_up_incidences((cfg & 4) == 0);
    d.m.enable_edge_bottom_up_incidences((cfg & 8) == 0);
    d.m.enable_face_bottom_up_incidences((cfg & 16) == 0);
}

static void run_trace(uint64_t seed, bool thorough, int trace, const char* replay) {
    HexMesh mesh;
    Driver d(mesh, vh::mix(seed, (uint64_t)trace), thorough, trace);
    fprintf(OUT, "T hex_drv c16 seed=%llu tier=%s kind=hex trace=%d\n", (unsigned long long)seed, thorough ? "t" : "q", trace);
    if (replay) {
        FILE* f = fopen(replay, "r");
        if (!f) { perror("replay"); exit(3); }
        char* line = nullptr; size_t cap = 0; bool first = true;
        d.force_queries = true;
        while (getline(&line, &cap, f) > 0) {
            std::istringstream is(line);
            std::string tag; is >> tag;
            if (tag == "I") { uint64_t cfg; is >> cfg; init_mesh(d, cfg); d.make_id_columns(); fprintf(OUT, "I %llu\n", (unsigned long long)cfg); d.dump(); fputs("E\n", OUT); first = false; continue; }
            if (tag != "O" && tag != "O!") continue;
            if (first) { init_mesh(d, 0); d.make_id_columns(); first = false; }
            Op op; is >> op.name; long x; while (is >> x) op.a.push_back(x);
            if (op.name == "retoken") continue;     // issued automatically
            d.exec(op, tag == "O!");
        }
        fclose(f);
        return;
    }
    // modes cycle with the trace number; incidences: all enabled in three of four traces (add_cell(vertices) needs them)
    uint64_t cfg = (uint64_t)trace % 4;
    if (trace % 4 == 3) cfg |= (uint64_t)(4 << ((trace / 4) % 3));
    init_mesh(d, cfg);
    d.make_id_columns();
    fprintf(OUT, "I %llu\n", (unsigned long long)cfg);
    d.dump();
    fputs("E\n", OUT);
    d.run(trace % 6 == 0);
}

int main(int argc, char** argv) {
    std::string out, tier = "q";
    uint64_t seed = vh::env_seed();
    int traces = 8, first = 0;
    const char* replay = nullptr;
    for (int i = 1; i < argc; ++i) {
        std::string a = argv[i];
        if (a == "--seed") seed = strtoull(argv[++i], 0, 10);
        else if (a == "--tier") tier = argv[++i];
        else if (a == "--traces") traces = atoi(argv[++i]);
        else if (a == "--first") first = atoi(argv[++i]);
        else if (a == "--out") out = argv[++i];
        else if (a == "--replay") replay = argv[++i];
        else { fprintf(stderr, "unknown arg %s\n", a.c_str()); return 2; }
    }
    if (!out.empty()) { OUT = fopen(out.c_str(), "w"); if (!OUT) { perror("out"); return 2; } }
    if (replay) traces = 1;
    for (int t = first; t < first + traces; ++t) {
        fflush(OUT);
        pid_t pid = fork();
        if (pid == 0) {
            alarm(tier == "t" ? 600 : 120);
            run_trace(seed, tier == "t", t, replay);
            fflush(OUT);
            _exit(0);
        }
        int st = 0;
        waitpid(pid, &st, 0);
        if (WIFSIGNALED(st)) fprintf(OUT, "\nX signal %d\n", WTERMSIG(st));
        else if (WIFEXITED(st) && WEXITSTATUS(st) != 0) fprintf(OUT, "\nX exit %d\n", WEXITSTATUS(st));
        fflush(OUT);
    }
    if (OUT != stdout) fclose(OUT);
    return 0;
}

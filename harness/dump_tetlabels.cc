// dump_tetlabels -- T3: every label function / table of Unstable/Topology/TetTopology.hh and
// TriangleTopology.hh, evaluated by the C++ compiler against the *current* headers, printed
// one entry per line.  The enumerator name lists come from "tetlabels_names.inc", which
// tools/t3_tetlabels.py regenerates from the enum bodies of the headers on every run (so an
// added / removed / renamed enumerator is picked up or breaks the build: fail closed).
// The second half instantiates every accessor of one reference TetTopology built on a mesh in
// which all handles of the tetrahedron are pairwise distinct, and prints which array slot and
// which orientation each label reads (heh<I>(), hfh<I>()), and what get_label returns for it.
// Parsed by tools/t3_tetlabels.py -> lean/OVM/Gen/TetLabels.lean.
#include <cstdio>
#include <OpenVolumeMesh/Mesh/TetrahedralMesh.hh>
#include <OpenVolumeMesh/Unstable/Topology/TetTopology.hh>
#include <OpenVolumeMesh/Unstable/Topology/TriangleTopology.hh>
#include "tetlabels_names.inc"

using namespace OpenVolumeMesh;
using TT = TetTopology;
using TR = TriangleTopology;

template <class O> static int optv(const O& o) { return o ? (int)*o : -1; }

// ---- static label algebra ------------------------------------------------------------------
template <TT::HalfEdgeLabel L> static void dump_hel(const char* name) {
    printf("hel %s %d from %d to %d opp %d fwd %d\n", name, (int)L, (int)TT::hel_from<L>(), (int)TT::hel_to<L>(),
           (int)TT::opposite(L), TT::is_forward(L) ? 1 : 0);
}
template <TT::VertexLabel F, TT::VertexLabel T> static void dump_pair() {
    if constexpr (F != T) printf("helft %d %d %d\n", (int)F, (int)T, (int)TT::hel<F, T>());
}
template <TT::VertexLabel F> static void dump_pairs_from() {
#define X(n) dump_pair<F, TT::n>();
    VL_LIST2(X)
#undef X
}
template <TT::HalfFaceLabel L> static void dump_hfl(const char* name) {
    printf("hfl %s %d opp %d oppT %d inner %d innerOf %d innerOfT %d outerOf %d outerOfT %d start %d\n", name, (int)L,
           (int)TT::opposite(L), (int)TT::opposite<L>(), TT::is_inner(L) ? 1 : 0, (int)TT::inner(L), (int)TT::inner<L>(),
           (int)TT::outer(L), (int)TT::outer<L>(), TT::has_start(L) ? 1 : 0);
    if constexpr (TT::has_start(L)) {
        printf("hflv %s %d %d %d %d %d %d\n", name, (int)TT::hfl_vl<L, 0>(), (int)TT::hfl_vl<L, 1>(), (int)TT::hfl_vl<L, 2>(),
               (int)TT::hfl_hel<L, 0>(), (int)TT::hfl_hel<L, 1>(), (int)TT::hfl_hel<L, 2>());
    }
}

// ---- accessors on the reference instance ---------------------------------------------------
static int FWD[16];            // heh<forward label v>() for v < 8 that are labels, else -2
static std::array<HFH, 4> HFS;

template <TT::VertexLabel L> static void inst_vh(const char* name, const TT& t) {
    printf("ivh %s %d %d\n", name, t.vh<L>().idx(), optv(t.get_label(t.vh<L>())));
}
template <TT::HalfEdgeLabel L> static void inst_heh(const char* name, const TT& t) {
    int h = t.heh<L>().idx(), slot = -1, flip = -1;
    for (int j = 0; j < 8; ++j) { if (FWD[j] == h) { slot = j; flip = 0; } else if (FWD[j] >= 0 && (FWD[j] ^ 1) == h) { slot = j; flip = 1; } }
    constexpr TT::VertexLabel f = TT::hel_from<L>(), g = TT::hel_to<L>();
    printf("iheh %s %d %d %d %d %d\n", name, h, slot, flip, optv(t.get_label(t.heh<L>())), t.heh<f, g>().idx());
}
template <TT::HalfFaceLabel L> static void inst_hfh(const char* name, const TT& t) {
    int h = t.hfh<L>().idx(), slot = -1, flip = -1;
    for (int j = 0; j < 4; ++j) { if (HFS[j].idx() == h) { slot = j; flip = 0; } else if ((HFS[j].idx() ^ 1) == h) { slot = j; flip = 1; } }
    int gl2 = -2;
    if constexpr (TT::has_start(L)) gl2 = optv(t.get_label(t.hfh<L>(), t.vh<TT::hfl_vl<L, 0>()>()));
    printf("ihfh %s %d %d %d %d %d\n", name, h, slot, flip, optv(t.get_label(t.hfh<L>())), gl2);
    if constexpr (TT::has_start(L)) {
        TR r = t.triangle_topology<L>();
        TR d = t.triangle_topology(L);
        printf("itri %s %d %d %d %d %d %d %d\n", name, r.a().idx(), r.b().idx(), r.c().idx(), r.ab().idx(), r.bc().idx(), r.ca().idx(), (r == d) ? 1 : 0);
    }
}

int main() {
#define X(n) printf("vl %s %d\n", #n, (int)TT::n);
    VL_LIST(X)
#undef X
#define X(n) dump_hel<TT::n>(#n);
    HEL_LIST(X)
#undef X
#define X(n) dump_pairs_from<TT::n>();
    VL_LIST(X)
#undef X
#define X(n) dump_hfl<TT::n>(#n);
    HFL_LIST(X)
#undef X
#define X(n) printf("trivl %s %d\n", #n, (int)TR::n);
    TRI_VL_LIST(X)
#undef X
#define X(n) printf("trihel %s %d\n", #n, (int)TR::n);
    TRI_HEL_LIST(X)
#undef X

    // reference instance: two unrelated vertices and an unrelated edge first, so that no handle of the
    // tetrahedron coincides with a label value by accident
    GeometricTetrahedralMeshV3d m;
    std::vector<VertexHandle> v;
    for (int i = 0; i < 7; ++i) v.push_back(m.add_vertex(Geometry::Vec3d(i, 0, 0)));
    m.add_edge(v[0], v[1]);
    m.add_edge(v[5], v[3]);                               // an edge of the tet stored "backwards"
    m.add_face(std::vector<VertexHandle>{v[4], v[3], v[2]});   // a face of the tet stored in the opposite rotation
    CellHandle ch = m.add_cell(v[2], v[3], v[4], v[5], true);
    if (!ch.is_valid()) { fprintf(stderr, "reference tet rejected\n"); return 3; }
    printf("inv %zu\n", m.n_vertices());
    for (size_t e = 0; e < m.n_edges(); ++e) printf("ie %zu %d %d\n", e, m.edge(EdgeHandle((int)e)).from_vertex().idx(), m.edge(EdgeHandle((int)e)).to_vertex().idx());
    for (size_t f = 0; f < m.n_faces(); ++f) { printf("if %zu", f); for (auto h : m.face(FaceHandle((int)f)).halfedges()) printf(" %d", h.idx()); printf("\n"); }
    printf("ic %d", ch.idx()); for (auto h : m.cell(ch).halffaces()) printf(" %d", h.idx()); printf("\n");

    HFH abc = m.cell(ch).halffaces()[1];
    VH a = m.get_halfface_vertices(abc)[1];
    const TT t_(m, ch, abc, a);
    const TT& t = t_;   // the templated hfh<I>() of a non-const object resolves to the private overload
    printf("ictor %d %d %d\n", ch.idx(), abc.idx(), a.idx());
    for (int j = 0; j < 16; ++j) FWD[j] = -2;
#define X(n) if constexpr (TT::is_forward(TT::n)) FWD[(int)TT::n] = t.heh<TT::n>().idx();
    HEL_LIST(X)
#undef X
    HFS = t.halfface_handles();
    printf("ihfs %d %d %d %d\n", HFS[0].idx(), HFS[1].idx(), HFS[2].idx(), HFS[3].idx());
#define X(n) inst_vh<TT::n>(#n, t);
    VL_LIST(X)
#undef X
#define X(n) inst_heh<TT::n>(#n, t);
    HEL_LIST(X)
#undef X
#define X(n) inst_hfh<TT::n>(#n, t);
    HFL_LIST(X)
#undef X
    // the convenience accessors must agree with the templated ones
    int conv = (t.a() == t.vh<TT::A>() && t.b() == t.vh<TT::B>() && t.c() == t.vh<TT::C>() && t.d() == t.vh<TT::D>()
        && t.ab() == t.heh<TT::AB>() && t.ba() == t.heh<TT::BA>() && t.bc() == t.heh<TT::BC>() && t.cb() == t.heh<TT::CB>()
        && t.ca() == t.heh<TT::CA>() && t.ac() == t.heh<TT::AC>() && t.ad() == t.heh<TT::AD>() && t.da() == t.heh<TT::DA>()
        && t.bd() == t.heh<TT::BD>() && t.db() == t.heh<TT::DB>() && t.cd() == t.heh<TT::CD>() && t.dc() == t.heh<TT::DC>()
        && t.bdc() == t.hfh<TT::BDC>() && t.dcb() == t.hfh<TT::DCB>() && t.cbd() == t.hfh<TT::CBD>()
        && t.acd() == t.hfh<TT::ACD>() && t.cda() == t.hfh<TT::CDA>() && t.dac() == t.hfh<TT::DAC>()
        && t.bad() == t.hfh<TT::BAD>() && t.adb() == t.hfh<TT::ADB>() && t.dba() == t.hfh<TT::DBA>()
        && t.abc() == t.hfh<TT::ABC>() && t.bca() == t.hfh<TT::BCA>() && t.cab() == t.hfh<TT::CAB>()
        && t.bcd() == t.hfh<TT::BCD>() && t.dbc() == t.hfh<TT::DBC>() && t.cdb() == t.hfh<TT::CDB>()
        && t.adc() == t.hfh<TT::ADC>() && t.cad() == t.hfh<TT::CAD>() && t.dca() == t.hfh<TT::DCA>()
        && t.bda() == t.hfh<TT::BDA>() && t.abd() == t.hfh<TT::ABD>() && t.dab() == t.hfh<TT::DAB>()
        && t.acb() == t.hfh<TT::ACB>() && t.bac() == t.hfh<TT::BAC>() && t.cba() == t.hfh<TT::CBA>()) ? 1 : 0;
    printf("iconv %d\n", conv);
    printf("end\n");
    return 0;
}

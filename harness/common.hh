// Shared by all harness drivers: deterministic PRNG, small helpers.  Public OVM API only.
#pragma once
#include <cstdint>
#include <cstdio>
#include <cstdlib>
#include <cstring>
#include <string>
#include <vector>
#include <sstream>
#include <iostream>
#include <algorithm>

namespace vh {

// splitmix64: every random choice of a driver derives from one state seeded by VERIF_SEED
struct Rng {
    uint64_t s;
    explicit Rng(uint64_t seed) : s(seed) {}
    uint64_t next() {
        uint64_t z = (s += 0x9e3779b97f4a7c15ull);
        z = (z ^ (z >> 30)) * 0xbf58476d1ce4e5b9ull;
        z = (z ^ (z >> 27)) * 0x94d049bb133111ebull;
        return z ^ (z >> 31);
    }
    // uniform in [0, n)   (n > 0)
    uint64_t below(uint64_t n) { return next() % n; }
    int range(int lo, int hi) { return lo + (int)below((uint64_t)(hi - lo + 1)); }  // inclusive
    bool chance(int num, int den) { return below((uint64_t)den) < (uint64_t)num; }
    template <class T> const T& pick(const std::vector<T>& v) { return v[below(v.size())]; }
    template <class T> void shuffle(std::vector<T>& v) {
        for (size_t i = v.size(); i > 1; --i) std::swap(v[i - 1], v[below(i)]);
    }
};

inline uint64_t env_seed() {
    const char* s = getenv("VERIF_SEED");
    return s ? strtoull(s, nullptr, 10) : 1;
}

inline uint64_t mix(uint64_t a, uint64_t b) {
    Rng r(a * 0x9e3779b97f4a7c15ull + b);
    return r.next();
}

} // namespace vh

// probes -- exact replays of recorded known findings (known_findings.json, kind "known") on the current tree.
//   probes <id>   prints "REPRODUCED <detail>" or "NOT-REPRODUCED <detail>"; public OVM API only.
#include <OpenVolumeMesh/Core/TopologyKernel.hh>
#include <cstdio>
#include <cstring>
#include <string>
using namespace OpenVolumeMesh;

// C09J (findings/C09-adj-both-halffaces.md): closed cell that contains both halffaces of a face ("pillow")
static int c09j() {
    TopologyKernel m;
    for (int i = 0; i < 3; ++i) m.add_vertex();
    m.add_edge(VertexHandle(0), VertexHandle(1)); m.add_edge(VertexHandle(1), VertexHandle(2)); m.add_edge(VertexHandle(2), VertexHandle(0));
    m.add_face({HalfEdgeHandle(0), HalfEdgeHandle(2), HalfEdgeHandle(4)}, true);
    CellHandle c = m.add_cell({HalfFaceHandle(0), HalfFaceHandle(1)}, true);
    int a = m.adjacent_halfface_in_cell(HalfFaceHandle(0), HalfEdgeHandle(0)).idx();
    int b = m.adjacent_halfface_in_cell(HalfFaceHandle(1), HalfEdgeHandle(1)).idx();
    bool holds = c.idx() == 0 && a == 1 && b == 0;     // the unique other halfface of the cell at that edge
    std::printf("%s cell=%d adj(hf0,he0)=%d adj(hf1,he1)=%d (required: 1 and 0)\n", holds ? "NOT-REPRODUCED" : "REPRODUCED", c.idx(), a, b);
    return 0;
}

// F11: a parallel duplicate edge hides a face from find_halfface(vertices): the two-stage lookup takes the FIRST halfedge
// v0->v1 (find_halfedge) and only looks at the halffaces around that one
static int f11() {
    TopologyKernel m;
    for (int i = 0; i < 3; ++i) m.add_vertex();
    VertexHandle v0(0), v1(1), v2(2);
    m.add_edge(v0, v1);                       // e0: a first edge v0-v1, used by no face
    EdgeHandle e1 = m.add_edge(v0, v1, true); // e1: parallel duplicate (explicitly allowed)
    EdgeHandle e2 = m.add_edge(v1, v2), e3 = m.add_edge(v2, v0);
    FaceHandle f = m.add_face({m.halfedge_handle(e1, 0), m.halfedge_handle(e2, 0), m.halfedge_handle(e3, 0)}, true);
    HalfFaceHandle got = m.find_halfface(std::vector<VertexHandle>{v0, v1, v2});
    bool holds = f.is_valid() && got == m.halfface_handle(f, 0);
    std::printf("%s face=%d find_halfface(v0,v1,v2)=%d (required: %d, the halfface of the face on exactly these vertices in this order)\n",
                holds ? "NOT-REPRODUCED" : "REPRODUCED", f.idx(), got.idx(), 2 * f.idx());
    return 0;
}

// C05M (findings/C05-loop-edge-multiplicity.md): vertex->vertices / vertex->edges enumerate once per outgoing halfedge, so a
// neighbour joined by two parallel edges (or a loop edge) is visited twice
static int c05m() {
    TopologyKernel m;
    m.add_vertex(); m.add_vertex();
    m.add_edge(VertexHandle(0), VertexHandle(1)); m.add_edge(VertexHandle(0), VertexHandle(1), true);
    std::vector<int> vv, ve;
    for (auto it = m.vv_iter(VertexHandle(0)); it.valid(); ++it) vv.push_back(it->idx());
    for (auto it = m.ve_iter(VertexHandle(0)); it.valid(); ++it) ve.push_back(it->idx());
    bool holds = vv.size() == 1;      // the neighbour set of vertex 0 is {1}
    std::printf("%s vv_iter(v0) visits %zu entries (neighbour set {1}); ve_iter(v0) visits %zu entries (edges {0,1})\n",
                holds ? "NOT-REPRODUCED" : "REPRODUCED", vv.size(), ve.size());
    return 0;
}

int main(int argc, char** argv) {
    if (argc < 2) { std::fprintf(stderr, "usage: probes <id>\n"); return 2; }
    if (!std::strcmp(argv[1], "C09J")) return c09j();
    if (!std::strcmp(argv[1], "F11")) return f11();
    if (!std::strcmp(argv[1], "C05M")) return c05m();
    std::fprintf(stderr, "unknown probe %s\n", argv[1]);
    return 2;
}

// dump_consts -- T4: prints every OVMB format constant the Lean model uses, evaluated by the C++ compiler
// against the *current* headers/library.  Output: `key value...` lines, parsed by tools/t4_ovmb_consts.py.
#include "io_core.hh"
#include <OpenVolumeMesh/IO/detail/ovmb_format.hh>
#include <OpenVolumeMesh/IO/detail/ovmb_codec.hh>
#include <OpenVolumeMesh/IO/detail/BinaryFileReader_impl.hh>
#include <OpenVolumeMesh/IO/PropertyCodecs.hh>

using namespace OpenVolumeMesh;
using namespace OpenVolumeMesh::IO::detail;

template<class E> static void valid_range(const char* name) {
    printf("valid %s", name);
    for (int v = 0; v < 256; ++v) if (is_valid(static_cast<E>(v))) printf(" %d", v);
    printf("\n");
}

int main() {
    printf("magic"); for (auto b : ovmb_magic) printf(" %u", (unsigned)b); printf("\n");
    printf("size FileHeader %zu\n", ovmb_size<FileHeader>);
    printf("size ChunkHeader %zu\n", ovmb_size<ChunkHeader>);
    printf("size ArraySpan %zu\n", ovmb_size<ArraySpan>);
    printf("size PropChunkHeader %zu\n", ovmb_size<PropChunkHeader>);
    printf("size VertexChunkHeader %zu\n", ovmb_size<VertexChunkHeader>);
    printf("size TopoChunkHeader %zu\n", ovmb_size<TopoChunkHeader>);
    printf("size PropertyInfoMin %d\n", 2 + 3 * 4);   // literal in ovmb_codec.cc read(Decoder&, PropertyInfo&); cross-checked by regex in t4
    printf("cc VERT %u\ncc TOPO %u\ncc DIRP %u\ncc PROP %u\ncc EOF %u\ncc ANY %u\n", (unsigned)ChunkType::Vertices, (unsigned)ChunkType::Topo,
           (unsigned)ChunkType::PropertyDirectory, (unsigned)ChunkType::Property, (unsigned)ChunkType::EndOfFile, (unsigned)ChunkType::Any);
    printf("enum IntEncoding None %u U8 %u U16 %u U32 %u\n", (unsigned)IntEncoding::None, (unsigned)IntEncoding::U8, (unsigned)IntEncoding::U16, (unsigned)IntEncoding::U32);
    printf("enum VertexEncoding None %u Float %u Double %u\n", (unsigned)VertexEncoding::None, (unsigned)VertexEncoding::Float, (unsigned)VertexEncoding::Double);
    printf("enum TopoEntity Edge %u Face %u Cell %u\n", (unsigned)TopoEntity::Edge, (unsigned)TopoEntity::Face, (unsigned)TopoEntity::Cell);
    printf("enum TopoType Polyhedral %u Tetrahedral %u Hexahedral %u\n", (unsigned)TopoType::Polyhedral, (unsigned)TopoType::Tetrahedral, (unsigned)TopoType::Hexahedral);
    printf("enum PropertyEntity Vertex %u Edge %u Face %u Cell %u HalfEdge %u HalfFace %u Mesh %u\n", (unsigned)PropertyEntity::Vertex, (unsigned)PropertyEntity::Edge,
           (unsigned)PropertyEntity::Face, (unsigned)PropertyEntity::Cell, (unsigned)PropertyEntity::HalfEdge, (unsigned)PropertyEntity::HalfFace, (unsigned)PropertyEntity::Mesh);
    printf("enum ChunkFlags Mandatory %u\n", (unsigned)ChunkFlags::Mandatory);
    valid_range<IntEncoding>("IntEncoding"); valid_range<VertexEncoding>("VertexEncoding"); valid_range<TopoEntity>("TopoEntity");
    valid_range<TopoType>("TopoType"); valid_range<PropertyEntity>("PropertyEntity"); valid_range<ChunkFlags>("ChunkFlags");
    printf("elemsize IntEncoding"); for (int v : {0, 1, 2, 4}) printf(" %d:%u", v, (unsigned)elem_size(static_cast<IntEncoding>(v))); printf("\n");
    printf("elemsize VertexEncoding"); for (int v : {0, 1, 2}) printf(" %d:%u", v, (unsigned)elem_size(static_cast<VertexEncoding>(v))); printf("\n");
    // suitable_int_encoding: find the two thresholds by scanning the change points; verify the 3-piece monotone shape on samples
    {
        std::vector<std::pair<uint64_t, unsigned>> changes; unsigned prev = (unsigned)suitable_int_encoding(0);
        printf("suitable first %u\n", prev);
        for (uint64_t v = 1; v <= 0x20000; ++v) { unsigned e = (unsigned)suitable_int_encoding((uint32_t)v); if (e != prev) { changes.push_back({v, e}); prev = e; } }
        for (uint64_t v : {0x20001ull, 0xffffffull, 0x1000000ull, 0x7fffffffull, 0x80000000ull, 0xfffffffeull, 0xffffffffull}) {
            unsigned e = (unsigned)suitable_int_encoding((uint32_t)v); if (e != prev) { changes.push_back({v, e}); prev = e; } }
        printf("suitable changes"); for (auto& c : changes) printf(" %llu:%u", (unsigned long long)c.first, c.second); printf("\n");
        printf("suitable samples");
        for (uint64_t v : {0ull, 1ull, 254ull, 255ull, 256ull, 257ull, 65534ull, 65535ull, 65536ull, 65537ull, 0xffffffffull}) printf(" %llu:%u", (unsigned long long)v, (unsigned)suitable_int_encoding((uint32_t)v));
        printf("\n");
    }
    printf("max_handle_idx %zu\n", (size_t)max_handle_idx);
    // what the writer puts into the version fields and chunk headers: write an empty and a one-vertex mesh
    {
        io::PM m; io::Bytes out; std::string r = io::write_mesh(m, out);
        printf("writer empty %s %s\n", r.c_str(), io::hex(out).c_str());
        io::PM m1; m1.add_vertex(Vec3d(0, 0, 0)); io::Bytes o1; r = io::write_mesh(m1, o1);
        printf("writer onevertex %s %s\n", r.c_str(), io::hex(o1).c_str());
    }
    // per codec known to the driver: is an encoder/decoder registered under that name, and the size of one encoded element
    {
        int i = 0;
#define X(name, T) { \
        auto* enc = IO::g_default_property_codecs.get_encoder(OpenVolumeMesh::detail::internal_type_name<T>()); \
        auto* dec = IO::g_default_property_codecs.get_decoder(name); \
        long sz = -1; std::string on = "?"; \
        if (enc) { on = enc->ovmb_type_name(); io::PM m; auto p = m.request_vertex_property<T>("x"); m.set_persistent(p); m.add_vertex(Vec3d(0,0,0)); \
            PropertyStorageBase* sb = *m.persistent_props_begin<Entity::Vertex>(); \
            WriteBuffer wb; wb.need(64); enc->serialize(sb, wb, 0, 1); sz = (long)wb.size(); \
            WriteBuffer wd; wd.need(64); enc->serialize_default(sb, wd); printf("codec %d %s enc=%s dec=%d size_n1=%ld size_default=%zu\n", i, name, on.c_str(), dec ? 1 : 0, sz, wd.size()); } \
        else printf("codec %d %s enc=- dec=%d size_n1=-1 size_default=0\n", i, name, dec ? 1 : 0); ++i; }
        IO_CODECS(X)
#undef X
    }
    // bool bit packing: 9 bools -> 2 bytes; pattern probe
    {
        io::PM m; for (int i = 0; i < 9; ++i) m.add_vertex(Vec3d(0, 0, 0));
        auto p = m.request_vertex_property<bool>("b"); p[VH(0)] = true; p[VH(3)] = true; p[VH(8)] = true;
        auto* enc = IO::g_default_property_codecs.get_encoder(OpenVolumeMesh::detail::internal_type_name<bool>());
        m.set_persistent(p); PropertyStorageBase* sb = *m.persistent_props_begin<Entity::Vertex>();
        WriteBuffer wb; wb.need(64); enc->serialize(sb, wb, 0, 9); auto v = wb.vec();
        printf("boolpack"); for (auto b : v) printf(" %u", (unsigned)b); printf("\n");
    }
    return 0;
}

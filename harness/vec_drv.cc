// C19 driver: evaluates the real OpenVolumeMesh::Geometry::VectorT templates and the
// GeometryKernel queries and prints one canonical line per evaluation.  Public API only.
//
//   vec_drv lattice <quick|thorough>   E-lines: every operator, all four scalar types, N=2,3,4,
//                                      operands from the integer lattice (see gen_lattice)
//   vec_drv geom    <quick|thorough>   G-lines: generated meshes with small-integer positions
//   vec_drv special <quick|thorough>   T-lines: float/double special+sampled values, compared HERE
//                                      against the same formula in plain scalar C++ (testing)
//   vec_drv witness                    W-lines: two fixed, seed-independent witnesses (known findings)
//   vec_drv eval                       reads "E <st> <N> <op> <operands>" lines from stdin and
//                                      prints them completed with "= <result>" (replay)
//
// Line grammar (blank separated):
//   E <st> <N> <op> <operand scalars...> = <result tokens...>
//        st: i=int u=unsigned f=float d=double.  Vectors are flattened.  Scalars are printed
//        canonically: integers in decimal; floating values exactly, as  m | m/2^k | m*2^k |
//        nan | inf | -inf  (both zeros print "0": the sign of zero is not specified by C19).
//   G <mesh> <query> <handle> <k> <3k position scalars> = <result tokens>
//   T <st> <N> <op> evals=<n> mismatches=<m>
//   TM <st> <N> <op> | <operands %a> | lib <..> | ref <..>
#include "common.hh"

#include <cfloat>
#include <cmath>
#include <limits>
#include <map>
#include <set>
#include <type_traits>
#include <utility>

#include <OpenVolumeMesh/Geometry/VectorT.hh>
#include <OpenVolumeMesh/Mesh/PolyhedralMesh.hh>
#include <OpenVolumeMesh/Mesh/TetrahedralMesh.hh>
#include <OpenVolumeMesh/Mesh/HexahedralMesh.hh>
#include <OpenVolumeMesh/Attribs/NormalAttrib.hh>

using namespace OpenVolumeMesh;
template <class S, int N> using V = Geometry::VectorT<S, N>;
typedef long long ll;

// ------------------------------------------------------------------ canonical printing
static std::string canon_fp(double x) {
    if (std::isnan(x)) return "nan";
    if (std::isinf(x)) return x > 0 ? "inf" : "-inf";
    if (x == 0) return "0";
    int e;
    double fr = std::frexp(x, &e);          // x = fr * 2^e, 0.5 <= |fr| < 1
    ll m = (ll)std::ldexp(fr, 53);          // exact: 53-bit integer mantissa
    e -= 53;
    while ((m % 2) == 0) { m /= 2; ++e; }
    if (e == 0) return std::to_string(m);
    if (e > 0) {
        ll am = m < 0 ? -m : m;
        int bits = 0;
        while ((am >> bits) != 0) ++bits;
        if (bits + e <= 62) return std::to_string(m * ((ll)1 << e));
        return std::to_string(m) + "*2^" + std::to_string(e);
    }
    return std::to_string(m) + "/2^" + std::to_string(-e);
}
static std::string canon(bool b) { return b ? "1" : "0"; }
static std::string canon(int x) { return std::to_string(x); }
static std::string canon(unsigned x) { return std::to_string(x); }
static std::string canon(ll x) { return std::to_string(x); }
static std::string canon(unsigned long x) { return std::to_string(x); }
static std::string canon(float x) { return canon_fp((double)x); }
static std::string canon(double x) { return canon_fp(x); }
template <class S, int N> static std::string canon(const V<S, N>& v) {
    std::string s;
    for (int i = 0; i < N; ++i) { if (i) s += ' '; s += canon(v[i]); }
    return s;
}

template <class S> struct ST;
template <> struct ST<int> { static constexpr char c = 'i'; };
template <> struct ST<unsigned> { static constexpr char c = 'u'; };
template <> struct ST<float> { static constexpr char c = 'f'; };
template <> struct ST<double> { static constexpr char c = 'd'; };

// ------------------------------------------------------------------ operator table
enum Kind { K_VV_V, K_VV_S, K_VV_B, K_VV_BV, K_VV_VV, K_VS_V, K_S_V, K_V_V, K_V_S, K_V_TOK, K_TOK_V };
enum Op {
    ADD, ADDEQ, SUB, SUBEQ, MUL, MULEQ, DIV, DIVEQ, MIN2, MAX2, MINIMIZE, MAXIMIZE, CROSS, CROSSM, CROSSF,
    DOT, DOTM, DOTF, EQ, NE, LT, MINIMIZED, MAXIMIZED, SWAP, SWAPF,
    SMUL, SMULL, SMULEQ, SDIV, SDIVEQ, VECTORIZE, VECTORIZED, CTOR1,
    NEG, NORMALIZED, NORMALIZE, NORMALIZECOND, HOMOGENIZED, COMP, ITER, CASTI, CASTU, CASTF, CASTD, APPLYINC,
    SQRNORM, NORM, LENGTH, L1, L8, MAX, MIN, MAXABS, MINABS, MEAN, MEANABS, SIZE,
    PRINT, PARSE, N_OPS
};
struct OpDesc { const char* name; Kind kind; int onlyN; bool alias; };
static const OpDesc OPS[N_OPS] = {
    {"add", K_VV_V, 0, false}, {"addeq", K_VV_V, 0, true}, {"sub", K_VV_V, 0, false}, {"subeq", K_VV_V, 0, true},
    {"mul", K_VV_V, 0, false}, {"muleq", K_VV_V, 0, true}, {"div", K_VV_V, 0, false}, {"diveq", K_VV_V, 0, true},
    {"min2", K_VV_V, 0, true}, {"max2", K_VV_V, 0, true}, {"minimize", K_VV_V, 0, false}, {"maximize", K_VV_V, 0, false},
    {"cross", K_VV_V, 3, false}, {"crossm", K_VV_V, 3, true}, {"crossf", K_VV_V, 3, true},
    {"dot", K_VV_S, 0, false}, {"dotm", K_VV_S, 0, true}, {"dotf", K_VV_S, 0, true},
    {"eq", K_VV_B, 0, false}, {"ne", K_VV_B, 0, false}, {"lt", K_VV_B, 0, false},
    {"minimized", K_VV_BV, 0, false}, {"maximized", K_VV_BV, 0, false},
    {"swap", K_VV_VV, 0, true}, {"swapf", K_VV_VV, 0, true},
    {"smul", K_VS_V, 0, false}, {"smull", K_VS_V, 0, false}, {"smuleq", K_VS_V, 0, false},
    {"sdiv", K_VS_V, 0, false}, {"sdiveq", K_VS_V, 0, false},
    {"vectorize", K_S_V, 0, false}, {"vectorized", K_S_V, 0, false}, {"ctor1", K_S_V, 0, false},
    {"neg", K_V_V, 0, false}, {"normalized", K_V_V, 0, false}, {"normalize", K_V_V, 0, false},
    {"normalizecond", K_V_V, 0, false}, {"homogenized", K_V_V, 4, false}, {"comp", K_V_V, 0, false},
    {"iter", K_V_V, 0, false}, {"casti", K_V_V, 0, false}, {"castu", K_V_V, 0, false},
    {"castf", K_V_V, 0, false}, {"castd", K_V_V, 0, false}, {"applyinc", K_V_V, 0, false},
    {"sqrnorm", K_V_S, 0, false}, {"norm", K_V_S, 0, false}, {"length", K_V_S, 0, false},
    {"l1", K_V_S, 0, false}, {"l8", K_V_S, 0, false}, {"max", K_V_S, 0, false}, {"min", K_V_S, 0, false},
    {"maxabs", K_V_S, 0, false}, {"minabs", K_V_S, 0, false}, {"mean", K_V_S, 0, false},
    {"meanabs", K_V_S, 0, false}, {"size", K_V_S, 0, false},
    {"print", K_V_TOK, 0, false}, {"parse", K_TOK_V, 0, false},
};

template <class S, int N> static V<S, N> mk(const ll* a) {
    V<S, N> v;
    for (int i = 0; i < N; ++i) v[i] = (S)a[i];
    return v;
}
template <class S, int N, size_t... I> static V<S, N> mk_variadic(const ll* a, std::index_sequence<I...>) {
    return V<S, N>((S)a[I]...);       // the N-ary constructor (:121-132)
}
template <class S, int N> static bool has_zero(const ll* a) {
    for (int i = 0; i < N; ++i) if ((S)a[i] == (S)0) return true;
    return false;
}
template <class S, int N> static bool all_zero(const ll* a) {
    for (int i = 0; i < N; ++i) if ((S)a[i] != (S)0) return false;
    return true;
}

// Evaluate one operator through the library.  Returns false when the operands are outside
// the operator's contract (zero divisor, zero vector for normalize, abs of unsigned: does not
// compile) -- such evaluations are never emitted.
template <class S, int N>
static bool eval(Op op, const ll* a, const ll* b, ll sc, std::string& out) {
    typedef V<S, N> Vec;
    constexpr bool is_int = std::is_integral<S>::value;
    constexpr bool is_uns = std::is_unsigned<S>::value;
    (void)is_int;
    Vec v = mk<S, N>(a);
    Vec w = mk<S, N>(b);
    S s = (S)sc;
    switch (op) {
    case ADD: out = canon(v + w); return true;
    case ADDEQ: { Vec r = v; r += w; out = canon(r); return true; }
    case SUB: out = canon(v - w); return true;
    case SUBEQ: { Vec r = v; r -= w; out = canon(r); return true; }
    case MUL: out = canon(v * w); return true;
    case MULEQ: { Vec r = v; r *= w; out = canon(r); return true; }
    case DIV: if (has_zero<S, N>(b)) return false; out = canon(v / w); return true;
    case DIVEQ: { if (has_zero<S, N>(b)) return false; Vec r = v; r /= w; out = canon(r); return true; }
    case MIN2: out = canon(v.min(w)); return true;
    case MAX2: out = canon(v.max(w)); return true;
    case MINIMIZE: { Vec r = v; r.minimize(w); out = canon(r); return true; }
    case MAXIMIZE: { Vec r = v; r.maximize(w); out = canon(r); return true; }
    case CROSS: if constexpr (N == 3) { out = canon(Vec(v % w)); return true; } return false;
    case CROSSM: if constexpr (N == 3) { out = canon(Vec(v.cross(w))); return true; } return false;
    case CROSSF: if constexpr (N == 3) { out = canon(Vec(cross(v, w))); return true; } return false;
    case DOT: out = canon(v | w); return true;
    case DOTM: out = canon(v.dot(w)); return true;
    case DOTF: out = canon(dot(v, w)); return true;
    case EQ: out = canon(v == w); return true;
    case NE: out = canon(v != w); return true;
    case LT: out = canon(v < w); return true;
    case MINIMIZED: { Vec r = v; bool f = r.minimized(w); out = canon(f) + " " + canon(r); return true; }
    case MAXIMIZED: { Vec r = v; bool f = r.maximized(w); out = canon(f) + " " + canon(r); return true; }
    case SWAP: { Vec x = v, y = w; x.swap(y); out = canon(x) + " " + canon(y); return true; }
    case SWAPF: { Vec x = v, y = w; swap(x, y); out = canon(x) + " " + canon(y); return true; }
    case SMUL: out = canon(v * s); return true;
    case SMULL: out = canon(s * v); return true;
    case SMULEQ: { Vec r = v; r *= s; out = canon(r); return true; }
    case SDIV: if (s == (S)0) return false; out = canon(v / s); return true;
    case SDIVEQ: { if (s == (S)0) return false; Vec r = v; r /= s; out = canon(r); return true; }
    case VECTORIZE: { Vec r = v; r.vectorize(s); out = canon(r); return true; }
    case VECTORIZED: out = canon(Vec::vectorized(s)); return true;
    case CTOR1: out = canon(Vec(s)); return true;
    case NEG: out = canon(-v); return true;
    // zero vector, or (unsigned wrap-around) zero squared norm: division by zero, outside the contract
    case NORMALIZED: if (all_zero<S, N>(a) || v.sqrnorm() == 0) return false; out = canon(Vec(v.normalized())); return true;
    case NORMALIZE: { if (all_zero<S, N>(a) || v.sqrnorm() == 0) return false; Vec r = v; r.normalize(); out = canon(r); return true; }
    case NORMALIZECOND: { Vec r = v; r.normalize_cond(); out = canon(r); return true; }
    case HOMOGENIZED:
        if constexpr (N == 4) { if ((S)a[3] == (S)0) return false; out = canon(Vec(v.homogenized())); return true; }
        return false;
    case COMP: {   // N-ary constructor, operator[], data(), dim(), size()
        Vec c = mk_variadic<S, N>(a, std::make_index_sequence<N>());
        const Vec& cc = c;
        std::string r;
        for (int i = 0; i < N; ++i) {
            if (i) r += ' ';
            r += canon(cc[i]);
            if (!(cc.data()[i] == cc[i]) || !(c.data()[i] == c[i])) r += "!data";
        }
        if (Vec::dim() != N || Vec::size() != (size_t)N) r += " !dim";
        out = r; return true;
    }
    case ITER: {   // begin()/end(), rbegin()/rend(), iterator constructor, copy
        std::string r; int i = 0;
        for (auto it = v.begin(); it != v.end(); ++it, ++i) { if (i) r += ' '; r += canon(*it); }
        std::vector<S> rev(v.rbegin(), v.rend());
        for (int k = 0; k < N; ++k) if (!(rev[k] == v[N - 1 - k])) r += " !rev";
        Vec fromit(v.data());
        Vec cp(v); Vec as; as = v;
        if (!(fromit == v) || !(cp == v) || !(as == v)) r += " !copy";
        out = r; return true;
    }
    case CASTI: out = canon(V<int, N>(v)); return true;       // copy & cast constructor (:171-177)
    case CASTU:
        if constexpr (!is_int) { for (int i = 0; i < N; ++i) if (a[i] < 0) return false; }  // float -> unsigned of a negative is UB
        out = canon(V<unsigned, N>(v)); return true;
    case CASTF: out = canon(V<float, N>(v)); return true;
    case CASTD: out = canon(V<double, N>(v)); return true;
    case APPLYINC: out = canon(v.apply([](const S& x) { return (S)(x + (S)1); })); return true;
    case SQRNORM: out = canon(v.sqrnorm()); return true;
    case NORM: out = canon(v.norm()); return true;
    case LENGTH: out = canon(v.length()); return true;
    case L1: out = canon(v.l1_norm()); return true;
    case MAX: out = canon(v.max()); return true;
    case MIN: out = canon(v.min()); return true;
    case MEAN: out = canon(v.mean()); return true;
    case SIZE: out = canon((ll)v.size()) ; return true;
    case L8: if constexpr (!is_uns) { out = canon(v.l8_norm()); return true; } return false;
    case MAXABS: if constexpr (!is_uns) { out = canon(v.max_abs()); return true; } return false;
    case MINABS: if constexpr (!is_uns) { out = canon(v.min_abs()); return true; } return false;
    case MEANABS: if constexpr (!is_uns) { out = canon(v.mean_abs()); return true; } return false;
    case PRINT: {  // operator<< : report the tokens (re-read as scalars) and whether the separator is one blank
        std::ostringstream os; os << v;
        std::string txt = os.str();
        std::istringstream is(txt);
        std::string tok, r; int n = 0;
        while (is >> tok) {
            ++n; r += ' ';
            if constexpr (is_int) r += canon((S)strtoll(tok.c_str(), nullptr, 10)); else r += canon((S)strtod(tok.c_str(), nullptr));
        }
        int blanks = 0; for (char c : txt) if (c == ' ') ++blanks;
        bool sep_ok = blanks == N - 1 && txt.find_first_of("\t\n") == std::string::npos;
        out = std::to_string(n) + r + (sep_ok ? "" : " !sep"); return true;
    }
    case PARSE: {  // operator>> on "a0 .. a(N-1) extra": the vector, then the next token
        std::ostringstream os;
        for (int i = 0; i < N; ++i) os << (S)a[i] << (i % 2 ? "  " : " ");
        os << s;
        std::istringstream is(os.str());
        Vec r(S(0)); S extra = S(0);
        is >> r; is >> extra;
        out = canon(r) + " " + canon(extra) + (is.fail() ? " !fail" : ""); return true;
    }
    default: return false;
    }
}

template <class S, int N>
static void emit(Op op, const ll* a, const ll* b, ll sc, bool echo_only_if_ok = true) {
    std::string res;
    if (!eval<S, N>(op, a, b, sc, res)) { (void)echo_only_if_ok; return; }
    std::string line = "E ";
    line += ST<S>::c; line += ' '; line += std::to_string(N); line += ' '; line += OPS[op].name;
    auto putv = [&](const ll* x) { for (int i = 0; i < N; ++i) { line += ' '; line += std::to_string(x[i]); } };
    switch (OPS[op].kind) {
    case K_VV_V: case K_VV_S: case K_VV_B: case K_VV_BV: case K_VV_VV: putv(a); putv(b); break;
    case K_VS_V: case K_TOK_V: putv(a); line += ' '; line += std::to_string(sc); break;
    case K_S_V: line += ' '; line += std::to_string(sc); break;
    default: putv(a); break;
    }
    line += " = "; line += res; line += '\n';
    fputs(line.c_str(), stdout);
}

// ------------------------------------------------------------------ lattice stream
// Operand lattice: {-2..2}^N for int/float/double, {0..4}^N for unsigned (the same five
// values shifted; the Lean side evaluates unsigned in UInt32, i.e. modulo 2^32).
// quick tier:   unary / vector-scalar operators exhaustive for N=2,3,4; vector-vector
//               operators exhaustive over all pairs for N=2,3; for N=4 exhaustive over the
//               sub-lattice {-1,0,1}^4 (resp. {0,1,2}^4) plus a seeded sample of the full one.
// thorough tier: everything exhaustive.
// Alias spellings of an operator (+= next to +, .cross()/cross() next to %, ...) run on a
// seeded 1/16 stride of the pairs.
template <class S> static ll lat(int i) { return std::is_unsigned<S>::value ? i : i - 2; }

template <class S, int N> static void unrank(ll idx, ll* a) {
    for (int i = 0; i < N; ++i) { a[i] = lat<S>((int)(idx % 5)); idx /= 5; }
}

template <class S, int N> static void gen_lattice(bool thorough, uint64_t seed) {
    ll npts = 1; for (int i = 0; i < N; ++i) npts *= 5;
    ll a[4] = {0, 0, 0, 0}, b[4] = {0, 0, 0, 0};
    for (ll i = 0; i < npts; ++i) {
        unrank<S, N>(i, a);
        for (int op = 0; op < N_OPS; ++op) {
            const OpDesc& d = OPS[op];
            if (d.onlyN && d.onlyN != N) continue;
            if (d.kind == K_V_V || d.kind == K_V_S || d.kind == K_V_TOK) emit<S, N>((Op)op, a, b, 0);
            if (d.kind == K_VS_V) for (int k = 0; k < 5; ++k) emit<S, N>((Op)op, a, b, lat<S>(k));
            if (d.kind == K_TOK_V) emit<S, N>((Op)op, a, b, lat<S>((int)(i % 5)));
        }
    }
    for (int op = 0; op < N_OPS; ++op)
        if (OPS[op].kind == K_S_V) for (int k = 0; k < 5; ++k) emit<S, N>((Op)op, a, b, lat<S>(k));
    vh::Rng rng(vh::mix(seed, 1000 + N * 10 + ST<S>::c));
    const unsigned stride_res = (unsigned)rng.below(16);
    auto pair_ops = [&](ll pi) {
        for (int op = 0; op < N_OPS; ++op) {
            const OpDesc& d = OPS[op];
            if (d.onlyN && d.onlyN != N) continue;
            if (d.kind > K_VV_VV) continue;
            if (d.alias && (unsigned)(pi % 16) != stride_res) continue;
            emit<S, N>((Op)op, a, b, 0);
        }
    };
    if (N < 4 || thorough) {
        for (ll i = 0; i < npts; ++i) for (ll j = 0; j < npts; ++j) {
            unrank<S, N>(i, a); unrank<S, N>(j, b); pair_ops(i * npts + j);
        }
    } else {
        // sub-lattice {-1,0,1}^4 exhaustively
        for (ll i = 0; i < 81; ++i) for (ll j = 0; j < 81; ++j) {
            ll x = i, y = j;
            for (int k = 0; k < 4; ++k) { a[k] = lat<S>(1 + (int)(x % 3)); x /= 3; b[k] = lat<S>(1 + (int)(y % 3)); y /= 3; }
            pair_ops(i * 81 + j);
        }
        for (int t = 0; t < 3000; ++t) {
            ll i = (ll)rng.below((uint64_t)npts), j = (ll)rng.below((uint64_t)npts);
            unrank<S, N>(i, a); unrank<S, N>(j, b); pair_ops(i * npts + j);
        }
    }
}

// Extra integer stream outside the small lattice: unsigned wrap-around values and larger ints
// (no signed overflow: |x| <= 1000 keeps every product/sum of <= 4 terms inside int).
template <class S, int N> static void gen_wide(uint64_t seed, int count) {
    vh::Rng rng(vh::mix(seed, 2000 + N * 10 + ST<S>::c));
    std::vector<ll> pool;
    if (std::is_same<S, unsigned>::value)
        pool = {0, 1, 2, 3, 7, 65535, 65536, 2147483647ll, 2147483648ll, 4294967295ll, 4294967294ll, 4000000000ll, 123456789ll};
    else
        pool = {0, 1, -1, 2, -2, 3, -3, 7, -7, 10, -10, 100, -100, 999, -1000, 25, 24, -24, 60, 11};
    ll a[4], b[4];
    for (int t = 0; t < count; ++t) {
        for (int i = 0; i < 4; ++i) { a[i] = rng.pick(pool); b[i] = rng.pick(pool); }
        ll sc = rng.pick(pool);
        for (int op = 0; op < N_OPS; ++op) {
            const OpDesc& d = OPS[op];
            if (d.onlyN && d.onlyN != N) continue;
            if (op == CASTI && std::is_same<S, unsigned>::value) continue;   // value > INT_MAX: implementation-defined pre C++20
            if ((op == CASTF) && std::is_same<S, unsigned>::value) continue; // rounds (2^32-1 not a float): not an exact case
            emit<S, N>((Op)op, a, b, sc);
        }
    }
}

// Pythagorean cases so that norm / normalize are exact for every scalar type.
template <class S, int N> static void gen_pyth() {
    static const ll P2[][2] = {{3, 4}, {-3, 4}, {4, -3}, {5, 12}, {-8, -6}, {0, 7}, {8, 15}, {6, 8}, {-5, 0}};
    static const ll P3[][3] = {{1, 2, 2}, {2, 3, 6}, {-2, 3, -6}, {3, 4, 12}, {4, 4, 7}, {0, 3, 4}, {2, -1, 2}, {6, 0, 8}, {1, 4, 8}, {0, 0, -9}, {2, 6, 9}};
    static const ll P4[][4] = {{1, 1, 1, 1}, {2, 2, 2, 2}, {1, 2, 2, 4}, {-1, 1, -1, 1}, {1, 3, 3, 9}, {0, 3, 4, 12}, {2, 4, 5, 6}, {4, 4, 4, 4}, {0, 0, 0, 3}, {1, 1, 3, 5}};
    const Op ops[] = {SQRNORM, NORM, LENGTH, NORMALIZED, NORMALIZE, NORMALIZECOND};
    ll z[4] = {0, 0, 0, 0};
    auto run = [&](const ll* p) {
        ll a[4];
        for (int sgn = 0; sgn < 2; ++sgn) {
            for (int i = 0; i < N; ++i) a[i] = sgn ? -p[i] : p[i];
            if (std::is_unsigned<S>::value) for (int i = 0; i < N; ++i) if (a[i] < 0) a[i] = -a[i];
            for (Op op : ops) emit<S, N>(op, a, z, 0);
        }
    };
    if (N == 2) for (auto& p : P2) run(p);
    if (N == 3) for (auto& p : P3) run(p);
    if (N == 4) for (auto& p : P4) run(p);
}

template <class S> static void lattice_for_type(bool thorough, uint64_t seed) {
    gen_lattice<S, 2>(thorough, seed); gen_lattice<S, 3>(thorough, seed); gen_lattice<S, 4>(thorough, seed);
    gen_pyth<S, 2>(); gen_pyth<S, 3>(); gen_pyth<S, 4>();
    if (std::is_integral<S>::value) {
        int cnt = thorough ? 4000 : 400;
        gen_wide<S, 2>(seed, cnt); gen_wide<S, 3>(seed, cnt); gen_wide<S, 4>(seed, cnt);
    }
}

// ------------------------------------------------------------------ eval mode (replay)
template <class S> static bool eval_dispatch(int N, Op op, const ll* a, const ll* b, ll sc) {
    if (N == 2) { emit<S, 2>(op, a, b, sc); return true; }
    if (N == 3) { emit<S, 3>(op, a, b, sc); return true; }
    if (N == 4) { emit<S, 4>(op, a, b, sc); return true; }
    return false;
}
static int eval_stdin() {
    std::string line;
    while (std::getline(std::cin, line)) {
        std::istringstream is(line);
        std::string tag, st, opn; int N;
        if (!(is >> tag >> st >> N >> opn) || tag != "E") continue;
        int op = -1;
        for (int i = 0; i < N_OPS; ++i) if (opn == OPS[i].name) op = i;
        if (op < 0 || N < 2 || N > 4) { printf("? %s\n", line.c_str()); continue; }
        std::vector<ll> xs; std::string t;
        while (is >> t) { if (t == "=") break; xs.push_back(strtoll(t.c_str(), nullptr, 10)); }
        ll a[4] = {0, 0, 0, 0}, b[4] = {0, 0, 0, 0}, sc = 0; size_t p = 0;
        auto getv = [&](ll* x) { for (int i = 0; i < N && p < xs.size(); ++i) x[i] = xs[p++]; };
        switch (OPS[op].kind) {
        case K_VV_V: case K_VV_S: case K_VV_B: case K_VV_BV: case K_VV_VV: getv(a); getv(b); break;
        case K_VS_V: case K_TOK_V: getv(a); if (p < xs.size()) sc = xs[p++]; break;
        case K_S_V: if (p < xs.size()) sc = xs[p++]; break;
        default: getv(a); break;
        }
        switch (st[0]) {
        case 'i': eval_dispatch<int>(N, (Op)op, a, b, sc); break;
        case 'u': eval_dispatch<unsigned>(N, (Op)op, a, b, sc); break;
        case 'f': eval_dispatch<float>(N, (Op)op, a, b, sc); break;
        case 'd': eval_dispatch<double>(N, (Op)op, a, b, sc); break;
        default: printf("? %s\n", line.c_str());
        }
    }
    return 0;
}

// ------------------------------------------------------------------ special-value float stream (testing)
// Library result vs. the defining formula written out in plain scalar code, same evaluation
// order; tolerance 16 ulp relative (nan must match nan, inf must match inf of the same sign).
template <class S> static bool close_enough(S lib, S ref) {
    if (std::isnan(ref) || std::isnan(lib)) return std::isnan(ref) && std::isnan(lib);
    if (std::isinf(ref) || std::isinf(lib)) return lib == ref;
    if (lib == ref) return true;
    S diff = std::fabs(lib - ref), mag = std::max(std::fabs(lib), std::fabs(ref));
    return diff <= 16 * std::numeric_limits<S>::epsilon() * mag || diff <= 16 * std::numeric_limits<S>::denorm_min();
}
struct TStat { ll evals = 0, mism = 0; };
static std::map<std::string, TStat> g_tstat;
static ll g_tm_printed = 0;

template <class S> static std::string hexs(const S* x, int n) {
    std::string r; char buf[64];
    for (int i = 0; i < n; ++i) { snprintf(buf, sizeof buf, "%s%a", i ? " " : "", (double)x[i]); r += buf; }
    return r;
}
template <class S, int N>
static void tcheck(const char* op, const S* a, const S* b, const S* sc, const S* lib, const S* ref, int nres) {
    std::string key = std::string(1, ST<S>::c) + " " + std::to_string(N) + " " + op;
    TStat& st = g_tstat[key];
    st.evals++;
    bool ok = true;
    for (int i = 0; i < nres; ++i) ok = ok && close_enough<S>(lib[i], ref[i]);
    if (!ok) {
        st.mism++;
        if (g_tm_printed++ < 200) {
            std::string l = "TM " + key + " | " + hexs(a, N);
            if (b) l += " ; " + hexs(b, N);
            if (sc) l += " ; " + hexs(sc, 1);
            l += " | lib " + hexs(lib, nres) + " | ref " + hexs(ref, nres) + "\n";
            fputs(l.c_str(), stdout);
        }
    }
}

template <class S, int N> static void special_one(const S* a, const S* b, S s) {
    typedef V<S, N> Vec;
    Vec v(a), w(b);      // iterator constructor
    S lib[4], ref[4];
    auto put = [&](const Vec& r) { for (int i = 0; i < N; ++i) lib[i] = r[i]; };
    for (int i = 0; i < N; ++i) ref[i] = a[i] + b[i]; put(v + w); tcheck<S, N>("add", a, b, nullptr, lib, ref, N);
    for (int i = 0; i < N; ++i) ref[i] = a[i] - b[i]; put(v - w); tcheck<S, N>("sub", a, b, nullptr, lib, ref, N);
    for (int i = 0; i < N; ++i) ref[i] = a[i] * b[i]; put(v * w); tcheck<S, N>("mul", a, b, nullptr, lib, ref, N);
    for (int i = 0; i < N; ++i) ref[i] = a[i] / b[i]; put(v / w); tcheck<S, N>("div", a, b, nullptr, lib, ref, N);
    for (int i = 0; i < N; ++i) ref[i] = a[i] * s; put(v * s); tcheck<S, N>("smul", a, nullptr, &s, lib, ref, N);
    for (int i = 0; i < N; ++i) ref[i] = a[i] / s; put(v / s); tcheck<S, N>("sdiv", a, nullptr, &s, lib, ref, N);
    for (int i = 0; i < N; ++i) ref[i] = -a[i]; put(-v); tcheck<S, N>("neg", a, nullptr, nullptr, lib, ref, N);
    { S d = a[0] * b[0]; for (int i = 1; i < N; ++i) d = d + a[i] * b[i]; ref[0] = d; lib[0] = (v | w); tcheck<S, N>("dot", a, b, nullptr, lib, ref, 1); }
    S sq = a[0] * a[0]; for (int i = 1; i < N; ++i) sq = sq + a[i] * a[i];
    ref[0] = sq; lib[0] = v.sqrnorm(); tcheck<S, N>("sqrnorm", a, nullptr, nullptr, lib, ref, 1);
    S nrm = std::sqrt(sq);
    ref[0] = nrm; lib[0] = v.norm(); tcheck<S, N>("norm", a, nullptr, nullptr, lib, ref, 1);
    for (int i = 0; i < N; ++i) ref[i] = a[i] / nrm; put(v.normalized()); tcheck<S, N>("normalized", a, nullptr, nullptr, lib, ref, N);
    { Vec r = v; r.normalize_cond(); put(r); for (int i = 0; i < N; ++i) ref[i] = (nrm != (S)0) ? a[i] / nrm : a[i]; tcheck<S, N>("normalizecond", a, nullptr, nullptr, lib, ref, N); }
    { S t = a[0]; for (int i = 1; i < N; ++i) t = t + a[i]; ref[0] = t; lib[0] = v.l1_norm(); tcheck<S, N>("l1", a, nullptr, nullptr, lib, ref, 1);
      ref[0] = t / (S)N; lib[0] = v.mean(); tcheck<S, N>("mean", a, nullptr, nullptr, lib, ref, 1); }
    { S t = std::fabs(a[0]); for (int i = 1; i < N; ++i) t = t + std::fabs(a[i]); ref[0] = t / (S)N; lib[0] = v.mean_abs(); tcheck<S, N>("meanabs", a, nullptr, nullptr, lib, ref, 1); }
    bool any_nan = false; for (int i = 0; i < N; ++i) any_nan = any_nan || std::isnan(a[i]) || std::isnan(b[i]);
    if (!any_nan) {   // order-based reductions are unspecified in the presence of NaN (comparisons all false)
        S mx = a[0], mn = a[0], mxa = std::fabs(a[0]), mna = std::fabs(a[0]);
        for (int i = 1; i < N; ++i) { mx = std::max(mx, a[i]); mn = std::min(mn, a[i]); mxa = std::max(mxa, (S)std::fabs(a[i])); mna = std::min(mna, (S)std::fabs(a[i])); }
        ref[0] = mx; lib[0] = v.max(); tcheck<S, N>("max", a, nullptr, nullptr, lib, ref, 1);
        ref[0] = mn; lib[0] = v.min(); tcheck<S, N>("min", a, nullptr, nullptr, lib, ref, 1);
        ref[0] = mxa; lib[0] = v.max_abs(); tcheck<S, N>("maxabs", a, nullptr, nullptr, lib, ref, 1);
        ref[0] = mna; lib[0] = v.min_abs(); tcheck<S, N>("minabs", a, nullptr, nullptr, lib, ref, 1);
        ref[0] = mxa; lib[0] = v.l8_norm(); tcheck<S, N>("l8", a, nullptr, nullptr, lib, ref, 1);
        for (int i = 0; i < N; ++i) ref[i] = a[i] < b[i] ? a[i] : b[i]; put(v.min(w)); tcheck<S, N>("min2", a, b, nullptr, lib, ref, N);
        for (int i = 0; i < N; ++i) ref[i] = a[i] > b[i] ? a[i] : b[i]; put(v.max(w)); tcheck<S, N>("max2", a, b, nullptr, lib, ref, N);
        bool lt = false; for (int i = 0; i < N; ++i) { if (a[i] < b[i]) { lt = true; break; } if (b[i] < a[i]) break; }
        ref[0] = lt; lib[0] = (v < w); tcheck<S, N>("lt", a, b, nullptr, lib, ref, 1);
        bool eq = true; for (int i = 0; i < N; ++i) eq = eq && a[i] == b[i];
        ref[0] = eq; lib[0] = (v == w); tcheck<S, N>("eq", a, b, nullptr, lib, ref, 1);
        ref[0] = !eq; lib[0] = (v != w); tcheck<S, N>("ne", a, b, nullptr, lib, ref, 1);
    }
    if constexpr (N == 3) {
        ref[0] = a[1] * b[2] - a[2] * b[1]; ref[1] = a[2] * b[0] - a[0] * b[2]; ref[2] = a[0] * b[1] - a[1] * b[0];
        put(v % w); tcheck<S, N>("cross", a, b, nullptr, lib, ref, N);
    }
    if constexpr (N == 4) {
        for (int i = 0; i < 3; ++i) ref[i] = a[i] / a[3]; ref[3] = 1; put(v.homogenized()); tcheck<S, N>("homogenized", a, nullptr, nullptr, lib, ref, N);
    }
    {   // conversions: float<->double, to int where in range (static_cast semantics)
        typedef typename std::conditional<std::is_same<S, float>::value, double, float>::type O;
        V<O, N> c(v); for (int i = 0; i < N; ++i) { lib[i] = (S)c[i]; ref[i] = (S)(O)a[i]; }
        tcheck<S, N>("cast_fp", a, nullptr, nullptr, lib, ref, N);
        bool inrange = true; for (int i = 0; i < N; ++i) inrange = inrange && std::fabs(a[i]) < (S)2e9;   // false for nan
        if (inrange) { V<int, N> ci(v); for (int i = 0; i < N; ++i) { lib[i] = (S)ci[i]; ref[i] = (S)(int)a[i]; } tcheck<S, N>("cast_int", a, nullptr, nullptr, lib, ref, N); }
    }
    {   // stream round trip with max_digits10: >> (<< v) == v for finite values
        bool fin = true; for (int i = 0; i < N; ++i) fin = fin && std::isfinite(a[i]);
        if (fin) {
            std::ostringstream os; os.precision(std::numeric_limits<S>::max_digits10); os << v;
            std::istringstream is(os.str()); Vec r(S(0)); is >> r; put(r);
            for (int i = 0; i < N; ++i) ref[i] = a[i];
            tcheck<S, N>("stream_roundtrip", a, nullptr, nullptr, lib, ref, N);
        }
    }
}

template <class S> static void special_for_type(bool thorough, uint64_t seed) {
    typedef std::numeric_limits<S> L;
    std::vector<S> pool = {(S)0.0, (S)-0.0, (S)1, (S)-1, (S)0.1, (S)(1.0 / 3), (S)-2.5, L::denorm_min(), -L::denorm_min(),
                           L::min(), L::min() / 2, L::max(), -L::max(), L::max() / 4, L::epsilon(), (S)1 + L::epsilon(),
                           L::infinity(), -L::infinity(), L::quiet_NaN(), (S)16777217.0, (S)1e10, (S)-1e-10, (S)3, (S)4,
                           std::sqrt(L::max()), std::sqrt(L::min())};
    vh::Rng rng(vh::mix(seed, 3000 + ST<S>::c));
    auto draw = [&]() -> S {
        if (rng.chance(1, 2)) return rng.pick(pool);
        // random sign/exponent/mantissa
        double m = (double)(rng.next() >> 11) / 9007199254740992.0 + 0.5;
        int e = rng.range(-30, 30);
        if (rng.chance(1, 8)) e = rng.range(L::min_exponent - 8, L::max_exponent - 1);
        return (S)std::ldexp(rng.chance(1, 2) ? m : -m, e);
    };
    int count = thorough ? 200000 : 20000;
    for (int t = 0; t < count; ++t) {
        S a[4], b[4];
        for (int i = 0; i < 4; ++i) { a[i] = draw(); b[i] = draw(); }
        S s = draw();
        special_one<S, 2>(a, b, s); special_one<S, 3>(a, b, s); special_one<S, 4>(a, b, s);
    }
}

// ------------------------------------------------------------------ geometry stream
template <class P> static std::string pos3(const P& p) { return canon(p[0]) + " " + canon(p[1]) + " " + canon(p[2]); }

template <class MeshT> static void dump_geometry(const MeshT& m, const std::string& id) {
    typedef typename MeshT::PointT P;
    auto head = [&](const char* q, int h, size_t k) { return "G " + id + " " + q + " " + std::to_string(h) + " " + std::to_string(k); };
    for (auto eh : m.edges()) {
        const P& pf = m.vertex(m.edge(eh).from_vertex());
        const P& pt = m.vertex(m.edge(eh).to_vertex());
        std::string ops = " " + pos3(pf) + " " + pos3(pt);
        puts((head("vec_e", eh.idx(), 2) + ops + " = " + pos3(m.vector(eh))).c_str());
        puts((head("len_e", eh.idx(), 2) + ops + " = " + canon(m.length(eh))).c_str());
        puts((head("bary_e", eh.idx(), 2) + ops + " = " + pos3(m.barycenter(eh))).c_str());
        for (int s = 0; s < 2; ++s) {
            HalfEdgeHandle he = m.halfedge_handle(eh, (unsigned char)s);
            const P& hf_ = m.vertex(m.halfedge(he).from_vertex());
            const P& ht_ = m.vertex(m.halfedge(he).to_vertex());
            std::string hops = " " + pos3(hf_) + " " + pos3(ht_);
            puts((head("vec_he", he.idx(), 2) + hops + " = " + pos3(m.vector(he))).c_str());
            puts((head("len_he", he.idx(), 2) + hops + " = " + canon(m.length(he))).c_str());
        }
    }
    for (auto fh : m.faces()) {
        std::string ops; size_t k = 0;
        for (auto hfv = m.hfv_iter(m.halfface_handle(fh, 0)); hfv.valid(); ++hfv, ++k) ops += " " + pos3(m.vertex(*hfv));
        if (k > 0) puts((head("bary_f", fh.idx(), k) + ops + " = " + pos3(m.barycenter(fh))).c_str());
        // the two sides: vertex cycles (handles) and normals
        std::string cyc[2]; std::string nrm[2]; std::string pcs[2]; size_t kk[2] = {0, 0};
        for (int s = 0; s < 2; ++s) {
            HalfFaceHandle hf = m.halfface_handle(fh, (unsigned char)s);
            for (auto hfv = m.hfv_iter(hf); hfv.valid(); ++hfv, ++kk[s]) { cyc[s] += " " + std::to_string(hfv->idx()); pcs[s] += " " + pos3(m.vertex(*hfv)); }
            if (kk[s] >= 3) {
                nrm[s] = pos3(m.normal(hf));
                puts((head("normal", hf.idx(), kk[s]) + pcs[s] + " = " + nrm[s]).c_str());
            }
        }
        if (kk[0] == kk[1]) puts(("G " + id + " oppcycle " + std::to_string(fh.idx()) + " " + std::to_string(kk[0]) + cyc[0] + " =" + cyc[1]).c_str());
        if (kk[0] >= 3 && kk[0] == kk[1]) puts((head("normal_pair", fh.idx(), kk[0]) + pcs[0] + " = " + nrm[0] + " " + nrm[1]).c_str());
    }
    for (auto ch : m.cells()) {
        std::string ops; size_t k = 0;
        for (auto cv = m.cv_iter(ch); cv.valid(); ++cv, ++k) ops += " " + pos3(m.vertex(*cv));
        if (k > 0) puts((head("bary_c", ch.idx(), k) + ops + " = " + pos3(m.barycenter(ch))).c_str());
    }
    // NormalAttrib: face normals are normal(halfface 0); attrib[halfface] flips the sign for odd handles;
    // vertex normals are the normalised sum of the attrib normals of the incident boundary halffaces.
    MeshT& mm = const_cast<MeshT&>(m);
    NormalAttrib<MeshT> na(mm);
    na.update_vertex_normals();   // calls update_face_normals()
    for (auto fh : m.faces()) {
        std::string pcs; size_t k = 0;
        for (auto hfv = m.hfv_iter(m.halfface_handle(fh, 0)); hfv.valid(); ++hfv, ++k) pcs += " " + pos3(m.vertex(*hfv));
        if (k < 3) continue;
        puts((head("nattr_f", fh.idx(), k) + pcs + " = " + pos3(na[fh])).c_str());
        puts(("G " + id + " nattr_hf " + std::to_string(fh.idx()) + " 1 " + pos3(na[fh]) + " = " + pos3(na[m.halfface_handle(fh, 0)]) + " " + pos3(na[m.halfface_handle(fh, 1)])).c_str());
        const NormalAttrib<MeshT>& cna = na;   // the const overloads
        puts(("G " + id + " nattr_hfc " + std::to_string(fh.idx()) + " 1 " + pos3(cna[fh]) + " = " + pos3(cna[m.halfface_handle(fh, 0)]) + " " + pos3(cna[m.halfface_handle(fh, 1)])).c_str());
    }
    for (auto vh_ : m.vertices()) {
        std::set<HalfFaceHandle> hfs;
        for (auto voh = m.voh_iter(vh_); voh.valid(); ++voh)
            for (auto hehf = m.hehf_iter(*voh); hehf.valid(); ++hehf)
                if (m.is_boundary(*hehf)) hfs.insert(*hehf);
        bool ok = true; std::string ops;
        for (auto hf : hfs) { if (m.halfface(hf).halfedges().size() < 3) ok = false; ops += " " + pos3(na[hf]); }
        if (!ok || hfs.empty()) continue;
        puts((head("nattr_v", vh_.idx(), hfs.size()) + ops + " = " + pos3(na[vh_])).c_str());
    }
}

struct IP { int x, y, z; };
template <class MeshT> static VertexHandle addv(MeshT& m, int x, int y, int z) {
    typedef typename MeshT::PointT P; typedef typename P::value_type S;
    return m.add_vertex(P((S)x, (S)y, (S)z));
}

static const int SCALES[] = {1, 1, 2, 3, 6, 12, 60, 120, 840};

// Exactness budget (matters for Vec3f, 24-bit mantissa): coordinates are scale * k with |k| <= ~50 and
// scale <= 840 = 2^3*105; differences of ADJACENT vertices have |k| <= 10, so every product in the cross
// product (840^2 * k1 * k2 = 2^6 * 11025 * k1*k2) and every coordinate sum of a barycenter is exactly
// representable; only sqrnorm/sqrt/division round, which the evaluator judges by rounding bounds.
template <class VecT> static void gen_meshes(bool thorough, uint64_t seed, const char* tag) {
    typedef GeometryKernel<VecT, TetrahedralMeshTopologyKernel> TetM;
    typedef GeometryKernel<VecT, HexahedralMeshTopologyKernel> HexM;
    typedef GeometryKernel<VecT, TopologyKernel> PolyM;
    vh::Rng rng(vh::mix(seed, 4000 + tag[0]));
    int rounds = thorough ? 60 : 8;
    for (int r = 0; r < rounds; ++r) {
        int sc = SCALES[rng.below(sizeof(SCALES) / sizeof(int))];
        {   // tetrahedral strip on random distinct points
            TetM m; int nt = rng.range(1, 4); int nv = nt + 3;
            std::set<std::tuple<int, int, int>> used; std::vector<VertexHandle> vs;
            while ((int)vs.size() < nv) {
                int x = rng.range(-4, 4), y = rng.range(-4, 4), z = rng.range(-4, 4);
                if (!used.insert({x, y, z}).second) continue;
                vs.push_back(addv(m, sc * x, sc * y, sc * z));
            }
            for (int i = 0; i < nt; ++i) m.add_cell(vs[i], vs[i + 1], vs[i + 2], vs[i + 3]);
            dump_geometry(m, std::string(tag) + "tet" + std::to_string(r));
        }
        {   // hexahedral a x b x c grid of parallelepipeds, optionally perturbed (non-parallelogram faces)
            HexM m; int na = rng.range(1, 2), nb = rng.range(1, 2), nc = rng.range(1, thorough ? 2 : 1);
            int A[3], B[3], C[3];
            bool perturb = rng.chance(1, 3);
            for (;;) {
                for (int i = 0; i < 3; ++i) { A[i] = rng.range(-2, 2); B[i] = rng.range(-2, 2); C[i] = rng.range(-2, 2); }
                if (rng.chance(1, 3)) { A[0] = rng.range(1, 3); A[1] = A[2] = 0; B[1] = rng.range(1, 3); B[0] = B[2] = 0; C[2] = rng.range(1, 3); C[0] = C[1] = 0; }
                int det = A[0] * (B[1] * C[2] - B[2] * C[1]) - A[1] * (B[0] * C[2] - B[2] * C[0]) + A[2] * (B[0] * C[1] - B[1] * C[0]);
                if (det != 0) break;
            }
            std::map<std::tuple<int, int, int>, VertexHandle> g;
            for (int i = 0; i <= na; ++i) for (int j = 0; j <= nb; ++j) for (int k = 0; k <= nc; ++k) {
                int p[3];
                for (int d = 0; d < 3; ++d) p[d] = 4 * (i * A[d] + j * B[d] + k * C[d]) + (perturb ? rng.range(-1, 1) : 0);
                g[{i, j, k}] = addv(m, sc * p[0], sc * p[1], sc * p[2]);
            }
            for (int i = 0; i < na; ++i) for (int j = 0; j < nb; ++j) for (int k = 0; k < nc; ++k) {
                // documented order (HexahedralMeshTopologyKernel.hh:113-124)
                std::vector<VertexHandle> c = {g[{i, j, k}], g[{i + 1, j, k}], g[{i + 1, j + 1, k}], g[{i, j + 1, k}],
                                               g[{i, j, k + 1}], g[{i, j + 1, k + 1}], g[{i + 1, j + 1, k + 1}], g[{i + 1, j, k + 1}]};
                m.add_cell(c);
            }
            dump_geometry(m, std::string(tag) + "hex" + std::to_string(r));
        }
        {   // polyhedral: prism over a k-gon (possibly non-convex), plus free faces with random vertex lists
            PolyM m; int k = rng.range(3, 6);
            std::vector<VertexHandle> bot, top; std::set<std::pair<int, int>> used;
            int hx = rng.range(-1, 1), hy = rng.range(-1, 1), hz = rng.range(1, 3);
            while ((int)bot.size() < k) {
                int x = rng.range(-4, 4), y = rng.range(-4, 4);
                if (!used.insert({x, y}).second) continue;
                bot.push_back(addv(m, sc * x, sc * y, 0));
                top.push_back(addv(m, sc * (x + hx), sc * (y + hy), sc * hz));
            }
            std::vector<HalfFaceHandle> hfs;
            std::vector<VertexHandle> rb(bot.rbegin(), bot.rend());
            hfs.push_back(m.halfface_handle(m.add_face(rb), 0));
            hfs.push_back(m.halfface_handle(m.add_face(top), 0));
            for (int i = 0; i < k; ++i) {
                int j = (i + 1) % k;
                hfs.push_back(m.halfface_handle(m.add_face(std::vector<VertexHandle>{bot[i], bot[j], top[j], top[i]}), 0));
            }
            m.add_cell(hfs);
            {   // a pyramid on the prism's top face: a cell whose vertices lie in different numbers of its faces
                // (apex: k faces, base vertices: 3) -- averages weighted by face incidence differ from the vertex mean here
                VertexHandle apex = addv(m, sc * (hx + rng.range(-2, 2)), sc * (hy + rng.range(-2, 2)), sc * (hz + rng.range(1, 3)));
                std::vector<HalfFaceHandle> ph;
                ph.push_back(m.halfface_handle(m.face_handle(hfs[1]), 1));
                for (int i = 0; i < k; ++i) { int j = (i + 1) % k; ph.push_back(m.halfface_handle(m.add_face(std::vector<VertexHandle>{top[i], top[j], apex}), 0)); }
                m.add_cell(ph);
            }
            int nfree = rng.range(1, 4);
            for (int f = 0; f < nfree; ++f) {
                int kk = rng.range(3, 6); std::vector<VertexHandle> vs; std::set<std::tuple<int, int, int>> u3;
                while ((int)vs.size() < kk) {
                    int x = rng.range(-3, 3), y = rng.range(-3, 3), z = rng.range(4, 7);
                    if (!u3.insert({x, y, z}).second) continue;
                    vs.push_back(addv(m, sc * x, sc * y, sc * z));
                }
                m.add_face(vs);
            }
            dump_geometry(m, std::string(tag) + "poly" + std::to_string(r));
        }
    }
}

// ------------------------------------------------------------------ fixed witnesses (seed independent)
// Two statements of C19 that the code does not satisfy (findings/C19.md F-C19-2, F-C19-3); evaluated on
// the real code on every run and judged by the Lean evaluator against the DEFINING formula:
//   W l1 <st> <N> <operands> = <l1_norm()>                    vs. the Manhattan norm  sum |x_i|
//   W normal_nonconvex <st> <k> <3k positions> = <normal(hf)> <normal(opposite hf)>   on a planar,
//     non-convex face whose corner used by normal(hf) is convex and whose corner used by
//     normal(opposite hf) is the reflex one: "the normals of the two sides are opposite"
template <class VecT> static void witness_nonconvex(const char* st, const std::vector<IP>& poly) {
    typedef GeometryKernel<VecT, TopologyKernel> PolyM;
    PolyM m; std::vector<VertexHandle> vs;
    for (auto& p : poly) vs.push_back(addv(m, p.x, p.y, p.z));
    FaceHandle fh = m.add_face(vs);
    HalfFaceHandle h0 = m.halfface_handle(fh, 0), h1 = m.halfface_handle(fh, 1);
    std::string pcs; size_t k = 0;
    for (auto hfv = m.hfv_iter(h0); hfv.valid(); ++hfv, ++k) pcs += " " + pos3(m.vertex(*hfv));
    printf("W normal_nonconvex %s %zu%s = %s %s\n", st, k, pcs.c_str(), pos3(m.normal(h0)).c_str(), pos3(m.normal(h1)).c_str());
}
static void witnesses() {
    printf("W l1 i 2 1 -2 = %s\n", canon(Geometry::Vec2i(1, -2).l1_norm()).c_str());
    printf("W l1 d 3 1 -1 0 = %s\n", canon(Geometry::Vec3d(1.0, -1.0, 0.0).l1_norm()).c_str());
    printf("W l1 f 4 -1 -2 -2 0 = %s\n", canon(Geometry::Vec4f(-1.f, -2.f, -2.f, 0.f).l1_norm()).c_str());
    printf("W l1 i 3 1 2 3 = %s\n", canon(Geometry::Vec3i(1, 2, 3).l1_norm()).c_str());   // control: non-negative
    // arrow-shaped quad in z = 0: corner at (4,0,0) convex, corner at (2,1,0) reflex
    std::vector<IP> quad = {{0, 0, 0}, {4, 0, 0}, {4, 4, 0}, {2, 1, 0}};
    // L-shaped hexagon in z = 0 (reflex corner at (3,3,0)), once as a control and once rotated so that the
    // reflex corner is the last vertex, i.e. the corner normal(opposite hf) uses
    std::vector<IP> lshape = {{0, 0, 0}, {6, 0, 0}, {6, 6, 0}, {3, 6, 0}, {3, 3, 0}, {0, 3, 0}};
    std::vector<IP> lrot = {{0, 3, 0}, {0, 0, 0}, {6, 0, 0}, {6, 6, 0}, {3, 6, 0}, {3, 3, 0}};   // last vertex reflex
    witness_nonconvex<Geometry::Vec3d>("d", quad);
    witness_nonconvex<Geometry::Vec3f>("f", quad);
    witness_nonconvex<Geometry::Vec3d>("d", lrot);
    witness_nonconvex<Geometry::Vec3d>("d", lshape);   // control: both corners used are convex -> opposite
}

int main(int argc, char** argv) {
    std::string mode = argc > 1 ? argv[1] : "lattice";
    bool thorough = argc > 2 && std::string(argv[2]) == "thorough";
    uint64_t seed = vh::env_seed();
    static char obuf[1 << 20];
    setvbuf(stdout, obuf, _IOFBF, sizeof obuf);
    if (mode == "lattice") {
        lattice_for_type<int>(thorough, seed);
        lattice_for_type<unsigned>(thorough, seed);
        lattice_for_type<float>(thorough, seed);
        lattice_for_type<double>(thorough, seed);
    } else if (mode == "eval") {
        return eval_stdin();
    } else if (mode == "special") {
        special_for_type<float>(thorough, seed);
        special_for_type<double>(thorough, seed);
        for (auto& kv : g_tstat) printf("T %s evals=%lld mismatches=%lld\n", kv.first.c_str(), kv.second.evals, kv.second.mism);
    } else if (mode == "witness") {
        witnesses();
    } else if (mode == "geom") {
        gen_meshes<Geometry::Vec3d>(thorough, seed, "d");
        gen_meshes<Geometry::Vec3f>(thorough, seed, "f");
    } else {
        fprintf(stderr, "usage: vec_drv lattice|geom|special|witness|eval [quick|thorough]\n");
        return 2;
    }
    fflush(stdout);
    return 0;
}

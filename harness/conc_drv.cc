// conc_drv -- dynamic validation of property C20 (concurrent read-only use of a mesh).
// Public OpenVolumeMesh API only.  Two modes, two sanitizer flavours:
//
//   conc_drv snap  [--reps N] [--only a,b]      (ASan flavour, built with -DCONC_SNAPSHOT)
//       byte snapshot of the mesh object and of EVERY live heap block (global operator new/delete
//       are replaced by a recording allocator -- standard C++, no OVM hook) before and after each
//       const query: a lazily filled cache, a shared scratch buffer, a retained allocation
//       (function-local static buffer) or a freed mesh block shows up as a diff.
//   conc_drv tsan  [--ms T] [--threads a,b,..] [--only a,b] [--ops N]      (TSan flavour)
//       2..16 reader threads run seeded random sequences of the const queries on the same mesh
//       concurrently; the per-operation result hashes are compared with a single-threaded run of
//       the same sequences.  ThreadSanitizer reports are failures (halt_on_error, exit code 66).
//   conc_drv list                                 names of the queries and the API they cover
//
// All randomness derives from VERIF_SEED (splitmix64, common.hh).
#include "common.hh"

#include <cmath>
#include <OpenVolumeMesh/Mesh/PolyhedralMesh.hh>
#include <OpenVolumeMesh/Mesh/TetrahedralMesh.hh>
#include <OpenVolumeMesh/Mesh/HexahedralMesh.hh>

#include <atomic>
#include <chrono>
#include <functional>
#include <map>
#include <memory>
#include <new>
#include <set>
#include <thread>

namespace ovm = OpenVolumeMesh;
using ovm::VertexHandle; using ovm::EdgeHandle; using ovm::HalfEdgeHandle;
using ovm::FaceHandle; using ovm::HalfFaceHandle; using ovm::CellHandle;
using Vec3d = ovm::Geometry::Vec3d;
using PolyMesh = ovm::GeometricPolyhedralMeshV3d;
using TetMesh = ovm::GeometricTetrahedralMeshV3d;
using HexMesh = ovm::GeometricHexahedralMeshV3d;
namespace Entity = ovm::Entity;

// ------------------------------------------------------------------------------------------
// heap registry (snapshot mode only)
#ifdef CONC_SNAPSHOT
namespace heapreg {
struct Slot { void* p; size_t n; };
static const size_t CAP = size_t(1) << 17;
static Slot* tab = nullptr;          // open addressing, tombstone = (void*)1
static size_t live = 0;
static bool enabled = false;
static inline size_t h(void* p) { return (size_t(reinterpret_cast<uintptr_t>(p)) >> 4) * 0x9e3779b97f4a7c15ull >> 40; }
static void init() { if (!tab) { tab = static_cast<Slot*>(calloc(CAP, sizeof(Slot))); if (!tab) abort(); } }
static void add(void* p, size_t n) {
    init();
    if (live * 2 > CAP) { fprintf(stderr, "heapreg: table full\n"); abort(); }
    size_t i = h(p) & (CAP - 1);
    while (tab[i].p && tab[i].p != reinterpret_cast<void*>(1)) i = (i + 1) & (CAP - 1);
    tab[i].p = p; tab[i].n = n; ++live;
}
static void del(void* p) {
    if (!tab) return;
    size_t i = h(p) & (CAP - 1);
    while (tab[i].p) {
        if (tab[i].p == p) { tab[i].p = reinterpret_cast<void*>(1); tab[i].n = 0; --live; return; }
        i = (i + 1) & (CAP - 1);
    }
}
struct Block { void* p; size_t n; unsigned char* copy; };
struct Snapshot {
    Block* b = nullptr; size_t nb = 0; size_t bytes = 0;
    void release() { for (size_t i = 0; i < nb; ++i) free(b[i].copy); free(b); b = nullptr; nb = 0; }
};
static int cmp_block(const void* a, const void* b) {
    auto x = static_cast<const Block*>(a)->p, y = static_cast<const Block*>(b)->p;
    return x < y ? -1 : (x > y ? 1 : 0);
}
static Snapshot take() {
    Snapshot s;
    s.b = static_cast<Block*>(malloc(sizeof(Block) * (live + 1)));
    for (size_t i = 0; i < CAP; ++i)
        if (tab[i].p && tab[i].p != reinterpret_cast<void*>(1)) {
            Block& k = s.b[s.nb++];
            k.p = tab[i].p; k.n = tab[i].n;
            k.copy = static_cast<unsigned char*>(malloc(k.n ? k.n : 1));
            memcpy(k.copy, k.p, k.n);
            s.bytes += k.n;
        }
    qsort(s.b, s.nb, sizeof(Block), cmp_block);
    return s;
}
// compare the current heap with the snapshot; returns a description of the first difference
static bool differs(const Snapshot& s, char* msg, size_t msgn) {
    size_t now = 0;
    for (size_t i = 0; i < CAP; ++i)
        if (tab[i].p && tab[i].p != reinterpret_cast<void*>(1)) {
            ++now;
            Block key{tab[i].p, 0, nullptr};
            auto* f = static_cast<Block*>(bsearch(&key, s.b, s.nb, sizeof(Block), cmp_block));
            if (!f) { snprintf(msg, msgn, "what=retained-allocation size=%zu", tab[i].n); return true; }
            if (f->n != tab[i].n) { snprintf(msg, msgn, "what=block-resized old=%zu new=%zu", f->n, tab[i].n); return true; }
        }
    if (now != s.nb) { snprintf(msg, msgn, "what=block-freed before=%zu after=%zu", s.nb, now); return true; }
    for (size_t i = 0; i < s.nb; ++i)
        if (memcmp(s.b[i].copy, s.b[i].p, s.b[i].n) != 0) {
            size_t off = 0;
            while (s.b[i].copy[off] == static_cast<unsigned char*>(s.b[i].p)[off]) ++off;
            snprintf(msg, msgn, "what=heap-block-changed block=%zu size=%zu offset=%zu", i, s.b[i].n, off);
            return true;
        }
    return false;
}
} // namespace heapreg

void* operator new(size_t n) {
    void* p = malloc(n ? n : 1);
    if (!p) throw std::bad_alloc();
    if (heapreg::enabled) heapreg::add(p, n);
    return p;
}
void* operator new[](size_t n) { return operator new(n); }
void operator delete(void* p) noexcept { if (p) { if (heapreg::enabled) heapreg::del(p); free(p); } }
void operator delete[](void* p) noexcept { operator delete(p); }
void operator delete(void* p, size_t) noexcept { operator delete(p); }
void operator delete[](void* p, size_t) noexcept { operator delete(p); }
#endif

// ------------------------------------------------------------------------------------------
// result hashing
struct Hash {
    uint64_t h = 0x243f6a8885a308d3ull;
    void u(uint64_t x) { h = vh::mix(h, x); }
    void operator()(const ovm::detail::HandleBase& x) { u(uint64_t(int64_t(x.idx()))); }
    void operator()(bool b) { u(b ? 2 : 1); }
    void operator()(int x) { u(uint64_t(int64_t(x))); }
    void operator()(unsigned x) { u(x); }
    void operator()(unsigned char x) { u(x); }
    void operator()(size_t x) { u(x); }
    void operator()(double d) { uint64_t b; memcpy(&b, &d, 8); u(b); }
    void operator()(const Vec3d& v) { (*this)(v[0]); (*this)(v[1]); (*this)(v[2]); }
    void operator()(const std::string& s) { u(s.size()); for (unsigned char c : s) u(c); }
    template <class T> void operator()(const std::vector<T>& v) { u(v.size()); for (const auto& x : v) (*this)(x); }
    template <class T, size_t N> void operator()(const std::array<T, N>& v) { for (const auto& x : v) (*this)(x); }
    void operator()(const ovm::OpenVolumeMeshEdge& e) { (*this)(e.from_vertex()); (*this)(e.to_vertex()); }
    void operator()(const ovm::OpenVolumeMeshFace& f) { (*this)(f.halfedges()); }
    void operator()(const ovm::OpenVolumeMeshCell& c) { (*this)(c.halffaces()); }
};

// ------------------------------------------------------------------------------------------
// mesh construction (mutating phase; single-threaded; before any query)
template <class M> static HalfFaceHandle get_or_add_halfface(M& m, const std::vector<VertexHandle>& vs) {
    HalfFaceHandle hf = m.find_halfface(vs);
    if (hf.is_valid()) return hf;
    FaceHandle f = m.add_face(vs);
    return m.halfface_handle(f, 0);
}

struct Grid {
    int nx, ny, nz;
    std::vector<VertexHandle> v;
    VertexHandle at(int x, int y, int z) const { return v[size_t((z * (ny + 1) + y) * (nx + 1) + x)]; }
};

template <class M> static Grid add_grid_vertices(M& m, int nx, int ny, int nz, vh::Rng& rng) {
    Grid g{nx, ny, nz, {}};
    for (int z = 0; z <= nz; ++z) for (int y = 0; y <= ny; ++y) for (int x = 0; x <= nx; ++x) {
        double jx = double(rng.below(100)) / 1000.0, jy = double(rng.below(100)) / 1000.0, jz = double(rng.below(100)) / 1000.0;
        g.v.push_back(m.add_vertex(Vec3d(x + jx, y + jy, z + jz)));
    }
    return g;
}

// the 8 corners of cube (x,y,z) in the order documented for HexahedralMeshTopologyKernel::add_cell
static std::vector<VertexHandle> hex_corners(const Grid& g, int x, int y, int z) {
    return {g.at(x, y, z), g.at(x + 1, y, z), g.at(x + 1, y + 1, z), g.at(x, y + 1, z),
            g.at(x, y, z + 1), g.at(x, y + 1, z + 1), g.at(x + 1, y + 1, z + 1), g.at(x + 1, y, z + 1)};
}

static void build(PolyMesh& m, vh::Rng& rng) {
    Grid g = add_grid_vertices(m, 2, 2, 2, rng);
    for (int z = 0; z < 2; ++z) for (int y = 0; y < 2; ++y) for (int x = 0; x < 2; ++x) {
        auto c = hex_corners(g, x, y, z);
        // six faces, all oriented the same way w.r.t. the cell
        const int F[6][4] = {{0, 1, 2, 3}, {7, 6, 5, 4}, {1, 7, 6, 2}, {0, 3, 5, 4}, {3, 2, 6, 5}, {0, 4, 7, 1}};
        std::vector<HalfFaceHandle> hfs;
        for (auto& f : F) hfs.push_back(get_or_add_halfface(m, {c[f[0]], c[f[1]], c[f[2]], c[f[3]]}));
        // a halfface already taken by a neighbour means we must use the opposite one
        for (auto& hf : hfs) if (m.incident_cell(hf).is_valid()) hf = m.opposite_halfface_handle(hf);
        m.add_cell(hfs);
    }
    // a pyramid on top of cube (0,0,1) and a tet glued to one of its sides: non-hex cells
    VertexHandle apex = m.add_vertex(Vec3d(0.5, 0.5, 3.0));
    auto c = hex_corners(g, 0, 0, 1);
    std::vector<VertexHandle> top = {c[4], c[5], c[6], c[7]};
    std::vector<HalfFaceHandle> pyr;
    HalfFaceHandle base = m.find_halfface(top);
    if (!base.is_valid()) base = m.find_halfface({top[3], top[2], top[1], top[0]});
    if (m.incident_cell(base).is_valid()) base = m.opposite_halfface_handle(base);
    pyr.push_back(base);
    auto bv = m.get_halfface_vertices(base);
    for (size_t i = 0; i < 4; ++i) {
        HalfFaceHandle s = get_or_add_halfface(m, {bv[(i + 1) % 4], bv[i], apex});
        pyr.push_back(s);
    }
    m.add_cell(pyr);
    VertexHandle tip = m.add_vertex(Vec3d(-1.0, 0.5, 2.5));
    HalfFaceHandle side = m.opposite_halfface_handle(pyr[1]);
    auto sv = m.get_halfface_vertices(side);
    std::vector<HalfFaceHandle> tet = {side};
    for (size_t i = 0; i < 3; ++i) tet.push_back(get_or_add_halfface(m, {sv[(i + 1) % 3], sv[i], tip}));
    m.add_cell(tet);
    // a closed fan of 24 tetrahedra around one axis edge (edge valence 24, two vertices of valence 25)
    {
        const int N = 24;
        VertexHandle a = m.add_vertex(Vec3d(20, 20, 0)), b = m.add_vertex(Vec3d(20, 20, 1));
        std::vector<VertexHandle> ring;
        for (int i = 0; i < N; ++i) ring.push_back(m.add_vertex(Vec3d(20 + std::cos(6.283185307179586 * i / N), 20 + std::sin(6.283185307179586 * i / N), 0.5)));
        for (int i = 0; i < N; ++i) {
            VertexHandle p = ring[i], q = ring[(i + 1) % N];
            // tet (a, b, p, q): faces oriented consistently; halffaces shared with the neighbours in the ring are re-used
            std::vector<HalfFaceHandle> hfs = {get_or_add_halfface(m, {a, b, p}), get_or_add_halfface(m, {b, a, q}),
                                               get_or_add_halfface(m, {a, p, q}), get_or_add_halfface(m, {b, q, p})};
            for (auto& hf : hfs) if (m.incident_cell(hf).is_valid()) hf = m.opposite_halfface_handle(hf);
            m.add_cell(hfs);
        }
    }
    // two stacked 20-gon prisms (40 vertices, 22 faces each; they share one 20-gon): cells beyond any small-size fast path
    {
        const int N = 20;
        std::vector<std::vector<VertexHandle>> lay(3);
        for (int l = 0; l < 3; ++l) for (int i = 0; i < N; ++i)
            lay[size_t(l)].push_back(m.add_vertex(Vec3d(40 + std::cos(6.283185307179586 * i / N), 40 + std::sin(6.283185307179586 * i / N), l)));
        for (int l = 0; l < 2; ++l) {
            const auto &lo = lay[size_t(l)], &hi = lay[size_t(l) + 1];
            std::vector<HalfFaceHandle> hfs;
            hfs.push_back(get_or_add_halfface(m, std::vector<VertexHandle>(lo.rbegin(), lo.rend())));
            hfs.push_back(get_or_add_halfface(m, hi));
            for (int i = 0; i < N; ++i) hfs.push_back(get_or_add_halfface(m, {lo[size_t(i)], lo[size_t((i + 1) % N)], hi[size_t((i + 1) % N)], hi[size_t(i)]}));
            for (auto& hf : hfs) if (m.incident_cell(hf).is_valid()) hf = m.opposite_halfface_handle(hf);
            m.add_cell(hfs);
        }
    }
    // an isolated vertex, a dangling edge and a dangling face
    VertexHandle iso = m.add_vertex(Vec3d(9, 9, 9));
    VertexHandle d0 = m.add_vertex(Vec3d(8, 8, 8));
    m.add_edge(iso, d0);
    m.add_face(std::vector<VertexHandle>{g.at(2, 2, 2), d0, iso});
}

static void build(TetMesh& m, vh::Rng& rng) {
    Grid g = add_grid_vertices(m, 2, 2, 1, rng);
    static const int P[6][3] = {{0, 1, 2}, {0, 2, 1}, {1, 0, 2}, {1, 2, 0}, {2, 0, 1}, {2, 1, 0}};
    for (int z = 0; z < g.nz; ++z) for (int y = 0; y < g.ny; ++y) for (int x = 0; x < g.nx; ++x)
        for (auto& p : P) {            // Kuhn triangulation: conforming across cubes
            int c[3] = {x, y, z};
            std::vector<VertexHandle> t = {g.at(c[0], c[1], c[2])};
            for (int i = 0; i < 3; ++i) { c[p[i]] += 1; t.push_back(g.at(c[0], c[1], c[2])); }
            Vec3d a = m.vertex(t[1]) - m.vertex(t[0]), b = m.vertex(t[2]) - m.vertex(t[0]), d = m.vertex(t[3]) - m.vertex(t[0]);
            if ((a % b | d) < 0) std::swap(t[2], t[3]);
            m.add_cell(t[0], t[1], t[2], t[3]);
        }
}

static void build(HexMesh& m, vh::Rng& rng) {
    Grid g = add_grid_vertices(m, 3, 2, 2, rng);
    for (int z = 0; z < g.nz; ++z) for (int y = 0; y < g.ny; ++y) for (int x = 0; x < g.nx; ++x)
        m.add_cell(hex_corners(g, x, y, z));
}

// properties of a few types, kept alive as "existing handles"
struct Props {
    ovm::VertexPropertyPtr<int> vi;
    ovm::EdgePropertyPtr<Vec3d> ev;
    ovm::HalfEdgePropertyPtr<bool> heb;
    ovm::FacePropertyPtr<std::string> fs;
    ovm::HalfFacePropertyPtr<int> hfi;
    ovm::CellPropertyPtr<double> cd;
    ovm::MeshPropertyPtr<std::string> ms;
    ovm::VertexPropertyPtr<std::vector<int>> vvec;
    template <class M> explicit Props(M& m, vh::Rng& rng)
        : vi(*m.template create_persistent_property<int, Entity::Vertex>("c20:vi", -1)),
          ev(*m.template create_shared_property<Vec3d, Entity::Edge>("c20:ev", Vec3d(1, 2, 3))),
          heb(*m.template create_persistent_property<bool, Entity::HalfEdge>("c20:heb", false)),
          fs(*m.template create_persistent_property<std::string, Entity::Face>("c20:fs", "dflt")),
          hfi(*m.template create_shared_property<int, Entity::HalfFace>("c20:hfi", 7)),
          cd(*m.template create_persistent_property<double, Entity::Cell>("c20:cd", 0.5)),
          ms(*m.template create_persistent_property<std::string, Entity::Mesh>("c20:ms", "mesh")),
          vvec(m.template create_private_property<std::vector<int>, Entity::Vertex>("", {1, 2}))
    {
        for (auto v : m.vertices()) { vi[v] = int(rng.below(1000)); vvec[v] = std::vector<int>(rng.below(4), v.idx()); }
        for (auto e : m.edges()) ev[e] = Vec3d(e.idx(), double(rng.below(50)), 0.25);
        for (auto he : m.halfedges()) heb[he] = rng.chance(1, 2);
        for (auto f : m.faces()) fs[f] = "face-" + std::to_string(f.idx() * 7919 % 101) + std::string(rng.below(40), 'x');
        for (auto hf : m.halffaces()) hfi[hf] = int(rng.below(100)) - 50;
        for (auto c : m.cells()) cd[c] = double(rng.below(1000)) / 8.0;
        ms[ovm::MeshHandle(0)] = "the mesh " + std::to_string(rng.below(1000));
    }
};

// deferred deletion: entities stay in place, flagged deleted
template <class M> static void delete_some(M& m, vh::Rng& rng, bool cascade) {
    m.enable_deferred_deletion(true);
    if (m.n_cells() > 2) m.delete_cell(CellHandle(int(rng.below(m.n_cells()))));
    if (cascade && m.n_edges() > 4) m.delete_edge(EdgeHandle(int(rng.below(m.n_edges()))));
}

// ------------------------------------------------------------------------------------------
// the const queries
struct Query {
    std::string name;
    std::string covers;                       // API members exercised (matched against T5 entries)
    std::function<uint64_t(vh::Rng&)> run;    // picks its arguments from the rng, returns a result hash
};

template <class M> struct Suite {
    const M& m;                 // queries only ever see the mesh as const
    const Props& P;
    std::string kind;
    std::vector<Query> q;
    std::vector<HalfFaceHandle> bhf, ihf;       // boundary / interior halffaces (live)
    std::vector<CellHandle> livec;
    std::vector<std::pair<HalfFaceHandle, HalfEdgeHandle>> hf_he;   // halfface with one of its halfedges (live, in a cell)

    // "hot" entities: the edge and the vertex of highest valence (a fan of 24 cells in the polyhedral mesh) are picked
    // every fourth time, so that code paths that only large neighbourhoods reach (size thresholds, scratch buffers)
    // are exercised by every circulator query, single- and multi-threaded
    int hot_e = -1, hot_v = -1, hot_c = -1, hot_c2 = -1;     // hot_c/hot_c2: the two cells with most halffaces (20-gon prisms in poly)
    VertexHandle rv(vh::Rng& r) const { if (hot_v >= 0 && r.chance(1, 4)) return VertexHandle(hot_v); return VertexHandle(int(r.below(m.n_vertices()))); }
    EdgeHandle re(vh::Rng& r) const { if (hot_e >= 0 && r.chance(1, 4)) return EdgeHandle(hot_e); return EdgeHandle(int(r.below(m.n_edges()))); }
    HalfEdgeHandle rhe(vh::Rng& r) const { if (hot_e >= 0 && r.chance(1, 4)) return HalfEdgeHandle(2 * hot_e + int(r.below(2))); return HalfEdgeHandle(int(r.below(m.n_halfedges()))); }
    FaceHandle rf(vh::Rng& r) const { return FaceHandle(int(r.below(m.n_faces()))); }
    HalfFaceHandle rhf(vh::Rng& r) const { return HalfFaceHandle(int(r.below(m.n_halffaces()))); }
    CellHandle rc(vh::Rng& r) const { if (hot_c >= 0 && r.chance(1, 4)) return CellHandle(r.chance(1, 2) && hot_c2 >= 0 ? hot_c2 : hot_c); return CellHandle(int(r.below(m.n_cells()))); }
    CellHandle rlc(vh::Rng& r) const { if (hot_c >= 0 && r.chance(1, 4)) return CellHandle(r.chance(1, 2) && hot_c2 >= 0 ? hot_c2 : hot_c); return r.pick(livec); }
    HalfFaceHandle rbhf(vh::Rng& r) const { return r.pick(bhf); }

    void add(const char* name, const char* covers, std::function<uint64_t(vh::Rng&)> f) {
        q.push_back(Query{kind + ":" + name, covers, std::move(f)});
    }

    Suite(const M& mesh, const Props& props, std::string k) : m(mesh), P(props), kind(std::move(k)) {
        for (auto hf : m.halffaces()) {
            if (m.is_deleted(hf)) continue;
            (m.is_boundary(hf) ? bhf : ihf).push_back(hf);
            if (m.incident_cell(hf).is_valid()) hf_he.emplace_back(hf, m.halfface(hf).halfedges()[size_t(hf.idx()) % m.halfface(hf).halfedges().size()]);
        }
        for (auto c : m.cells()) if (!m.is_deleted(c)) livec.push_back(c);
        size_t be = 0, bv = 0;
        for (auto e : m.edges()) if (m.valence(e) > be) { be = m.valence(e); hot_e = e.idx(); }
        for (auto v : m.vertices()) if (m.valence(v) > bv) { bv = m.valence(v); hot_v = v.idx(); }
        size_t bc = 6, bc2 = 6;     // only cells larger than a hexahedron count as "hot"
        for (auto c : livec) { size_t n = m.cell(c).halffaces().size(); if (n > bc) { bc2 = bc; hot_c2 = hot_c; bc = n; hot_c = c.idx(); } else if (n > bc2) { bc2 = n; hot_c2 = c.idx(); } }
        common();
    }

#define CIRC(NAME, ITER, RANGE, PICK)                                                              \
    add(#ITER, #ITER "," #RANGE, [this](vh::Rng& r) {                                               \
        Hash H; auto h = PICK(r); int laps = 1 + int(r.below(2));                                   \
        for (auto it = m.ITER(h, laps); it.valid(); ++it) H(*it);                                   \
        auto it2 = m.ITER(h); if (it2.valid()) { auto cp = it2; ++cp; H(*it2); H(cp.valid()); }     \
        return H.h; });                                                                            \
    add(#RANGE, #RANGE "," #ITER, [this](vh::Rng& r) {                                              \
        Hash H; auto h = PICK(r); size_t n = 0;                                                     \
        for (auto x : m.RANGE(h)) { H(x); ++n; }                                                    \
        H(n); return H.h; });

#define ITER(ITERF, RANGE)                                                                         \
    add(#ITERF, #ITERF, [this](vh::Rng&) { Hash H; for (auto it = m.ITERF(); it.valid(); ++it) H(*it); return H.h; }); \
    add(#RANGE, #RANGE, [this](vh::Rng&) { Hash H; for (auto x : m.RANGE()) H(x); return H.h; });

    void common() {
        CIRC(vv, vv_iter, vertex_vertices, rv)
        CIRC(voh, voh_iter, outgoing_halfedges, rv)
        CIRC(vih, vih_iter, incoming_halfedges, rv)
        CIRC(ve, ve_iter, vertex_edges, rv)
        CIRC(vhf, vhf_iter, vertex_halffaces, rv)
        CIRC(vf, vf_iter, vertex_faces, rv)
        CIRC(vc, vc_iter, vertex_cells, rv)
        CIRC(hehf, hehf_iter, halfedge_halffaces, rhe)
        CIRC(hef, hef_iter, halfedge_faces, rhe)
        CIRC(hec, hec_iter, halfedge_cells, rhe)
        CIRC(ehf, ehf_iter, edge_halffaces, re)
        CIRC(ef, ef_iter, edge_faces, re)
        CIRC(ec, ec_iter, edge_cells, re)
        CIRC(hfhe, hfhe_iter, halfface_halfedges, rhf)
        CIRC(hfe, hfe_iter, halfface_edges, rhf)
        CIRC(fv, fv_iter, face_vertices, rf)
        CIRC(fhe, fhe_iter, face_halfedges, rf)
        CIRC(fe, fe_iter, face_edges, rf)
        CIRC(cv, cv_iter, cell_vertices, rc)
        CIRC(che, che_iter, cell_halfedges, rc)
        CIRC(ce, ce_iter, cell_edges, rc)
        CIRC(chf, chf_iter, cell_halffaces, rc)
        CIRC(cf, cf_iter, cell_faces, rc)
        CIRC(cc, cc_iter, cell_cells, rc)
        CIRC(hfv, hfv_iter, halfface_vertices, rhf)
        if (!bhf.empty()) {
            CIRC(bhfhf, bhfhf_iter, boundary_halfface_halffaces, rbhf)
        }
        ITER(v_iter, vertices) ITER(e_iter, edges) ITER(he_iter, halfedges)
        ITER(f_iter, faces) ITER(hf_iter, halffaces) ITER(c_iter, cells)
        add("bv_iter", "bv_iter,BoundaryItemIter", [this](vh::Rng&) { Hash H; for (auto it = m.bv_iter(); it.valid(); ++it) H(*it); return H.h; });
        add("bhe_iter", "bhe_iter,BoundaryItemIter", [this](vh::Rng&) { Hash H; for (auto it = m.bhe_iter(); it.valid(); ++it) H(*it); return H.h; });
        add("be_iter", "be_iter,BoundaryItemIter", [this](vh::Rng&) { Hash H; for (auto it = m.be_iter(); it.valid(); ++it) H(*it); return H.h; });
        add("bhf_iter", "bhf_iter,BoundaryItemIter", [this](vh::Rng&) { Hash H; for (auto it = m.bhf_iter(); it.valid(); ++it) H(*it); return H.h; });
        add("bf_iter", "bf_iter,BoundaryItemIter", [this](vh::Rng&) { Hash H; for (auto it = m.bf_iter(); it.valid(); ++it) H(*it); return H.h; });
        add("bc_iter", "bc_iter,BoundaryItemIter", [this](vh::Rng&) { Hash H; for (auto it = m.bc_iter(); it.valid(); ++it) H(*it); return H.h; });
        add("iter_begin_end", "vertices_begin,vertices_end,edges_begin,edges_end,halfedges_begin,halfedges_end,faces_begin,faces_end,halffaces_begin,halffaces_end,cells_begin,cells_end",
            [this](vh::Rng&) { Hash H;
                for (auto it = m.vertices_begin(); it != m.vertices_end(); ++it) H(*it);
                for (auto it = m.edges_begin(); it != m.edges_end(); ++it) H(*it);
                for (auto it = m.halfedges_begin(); it != m.halfedges_end(); ++it) H(*it);
                for (auto it = m.faces_begin(); it != m.faces_end(); ++it) H(*it);
                for (auto it = m.halffaces_begin(); it != m.halffaces_end(); ++it) H(*it);
                for (auto it = m.cells_begin(); it != m.cells_end(); ++it) H(*it);
                return H.h; });

        // lookups
        add("find_halfedge", "find_halfedge,halfedge", [this](vh::Rng& r) { Hash H;
            VertexHandle a, b;
            if (r.chance(2, 3)) { auto he = rhe(r); a = m.from_vertex_handle(he); b = m.to_vertex_handle(he); } else { a = rv(r); b = rv(r); }
            H(m.find_halfedge(a, b)); H(m.find_halfedge(b, a)); H(m.halfedge(a, b)); return H.h; });
        add("find_halfedge_in_cell", "find_halfedge_in_cell", [this](vh::Rng& r) { Hash H;
            auto c = rlc(r); auto he = rhe(r);
            H(m.find_halfedge_in_cell(m.from_vertex_handle(he), m.to_vertex_handle(he), c));
            for (auto x : m.cell_halfedges(c)) { H(m.find_halfedge_in_cell(m.from_vertex_handle(x), m.to_vertex_handle(x), c)); break; }
            return H.h; });
        add("find_halfface", "find_halfface,halfface,find_halfface_extensive,halfface_extensive,find_halfface_in_cell", [this](vh::Rng& r) { Hash H;
            auto hf = rhf(r); auto vs = m.get_halfface_vertices(hf);
            if (r.chance(1, 4) && !vs.empty()) vs[r.below(vs.size())] = rv(r);
            H(m.find_halfface(vs)); H(m.find_halfface_extensive(vs)); H(m.halfface(vs)); H(m.halfface_extensive(vs));
            H(m.find_halfface_in_cell(vs, rlc(r)));
            auto hes = m.halfface(hf).halfedges();
            H(m.find_halfface(hes)); H(m.halfface(hes));
            return H.h; });
        add("next_prev_halfedge_in_halfface", "next_halfedge_in_halfface,prev_halfedge_in_halfface", [this](vh::Rng& r) { Hash H;
            auto hf = rhf(r); const auto hes = m.halfface(hf).halfedges();
            auto he = hes[r.below(hes.size())];
            H(m.next_halfedge_in_halfface(he, hf)); H(m.prev_halfedge_in_halfface(he, hf)); return H.h; });
        add("adjacent_halfface_in_cell", "adjacent_halfface_in_cell,incident_cell", [this](vh::Rng& r) { Hash H;
            if (hf_he.empty()) return H.h;
            auto p = r.pick(hf_he); H(m.incident_cell(p.first)); H(m.adjacent_halfface_in_cell(p.first, p.second));
            H(m.adjacent_halfface_in_cell(p.first, m.opposite_halfedge_handle(p.second))); return H.h; });
        add("incident_cell", "incident_cell,face_cells", [this](vh::Rng& r) { Hash H; H(m.incident_cell(rhf(r))); H(m.face_cells(rf(r))); return H.h; });

        // boundary / valence / flags
        add("is_boundary", "is_boundary", [this](vh::Rng& r) { Hash H;
            H(m.is_boundary(rv(r))); H(m.is_boundary(re(r))); H(m.is_boundary(rhe(r))); H(m.is_boundary(rf(r)));
            H(m.is_boundary(rhf(r))); H(m.is_boundary(rc(r))); return H.h; });
        add("valence", "valence", [this](vh::Rng& r) { Hash H;
            H(m.valence(rv(r))); H(m.valence(re(r))); H(m.valence(rf(r))); H(m.valence(rc(r))); return H.h; });
        add("is_deleted", "is_deleted,is_valid", [this](vh::Rng& r) { Hash H;
            H(m.is_deleted(rv(r))); H(m.is_deleted(re(r))); H(m.is_deleted(rhe(r))); H(m.is_deleted(rf(r)));
            H(m.is_deleted(rhf(r))); H(m.is_deleted(rc(r)));
            H(m.is_valid(rv(r))); H(m.is_valid(CellHandle(int(m.n_cells())))); H(m.is_valid(HalfFaceHandle(-1))); return H.h; });
        add("counts", "n_vertices,n_edges,n_halfedges,n_faces,n_halffaces,n_cells,n_logical_vertices,n_logical_edges,n_logical_halfedges,n_logical_faces,n_logical_halffaces,n_logical_cells,genus,needs_garbage_collection,has_full_bottom_up_incidences,has_vertex_bottom_up_incidences,has_edge_bottom_up_incidences,has_face_bottom_up_incidences,deferred_deletion_enabled,fast_deletion_enabled,n",
            [this](vh::Rng&) { Hash H;
                H(m.n_vertices()); H(m.n_edges()); H(m.n_halfedges()); H(m.n_faces()); H(m.n_halffaces()); H(m.n_cells());
                H(m.n_logical_vertices()); H(m.n_logical_edges()); H(m.n_logical_halfedges()); H(m.n_logical_faces());
                H(m.n_logical_halffaces()); H(m.n_logical_cells()); H(m.genus()); H(m.needs_garbage_collection());
                H(m.has_full_bottom_up_incidences()); H(m.has_vertex_bottom_up_incidences()); H(m.has_edge_bottom_up_incidences());
                H(m.has_face_bottom_up_incidences()); H(m.deferred_deletion_enabled()); H(m.fast_deletion_enabled());
                H(m.template n<Entity::Vertex>()); H(m.template n<Entity::HalfFace>()); H(m.template n<Entity::Mesh>());
                return H.h; });
        add("genus", "genus", [this](vh::Rng&) { Hash H; H(m.genus()); return H.h; });

        // definitions
        add("definitions", "edge,face,cell,halfedge,halfface,opposite_halfedge,opposite_halfface,from_vertex_handle,to_vertex_handle,halfedge_vertices,edge_vertices,edge_halfedges,face_halffaces,OpenVolumeMeshEdge,OpenVolumeMeshFace,OpenVolumeMeshCell",
            [this](vh::Rng& r) { Hash H;
                auto e = re(r); auto he = rhe(r); auto f = rf(r); auto hf = rhf(r); auto c = rc(r);
                H(m.edge(e)); H(m.halfedge(he)); H(m.opposite_halfedge(he)); H(m.opposite_halfedge(m.edge(e)));
                H(m.face(f)); H(m.halfface(hf)); H(m.opposite_halfface(hf)); H(m.opposite_halfface(m.face(f)));
                H(m.cell(c)); H(m.from_vertex_handle(he)); H(m.to_vertex_handle(he));
                H(m.halfedge_vertices(he)); H(m.edge_vertices(e)); H(m.edge_halfedges(e)); H(m.face_halffaces(f));
                ovm::OpenVolumeMeshFace fc = m.face(f); ovm::OpenVolumeMeshCell cc = m.cell(c); H(fc); H(cc);   // copies
                return H.h; });
        add("get_halfface_vertices", "get_halfface_vertices", [this](vh::Rng& r) { Hash H;
            auto hf = rhf(r); auto vs = m.get_halfface_vertices(hf); H(vs);
            if (!vs.empty()) H(m.get_halfface_vertices(hf, vs[r.below(vs.size())]));
            const auto hes = m.halfface(hf).halfedges(); H(m.get_halfface_vertices(hf, hes[r.below(hes.size())]));
            return H.h; });
        add("is_incident", "is_incident,n_vertices_in_cell", [this](vh::Rng& r) { Hash H;
            auto f = rf(r); H(m.is_incident(f, re(r)));
            H(m.is_incident(f, m.edge_handle(m.face(f).halfedges()[0]))); H(m.n_vertices_in_cell(rc(r))); return H.h; });

        // geometry
        add("positions", "vertex,vertex_positions", [this](vh::Rng& r) { Hash H;
            H(m.vertex(rv(r))); const auto& pos = m.vertex_positions(); H(pos.size()); H(pos[rv(r)]);
            size_t n = 0; for (auto it = pos.begin(); it != pos.end(); ++it) { if (n++ % 5 == 0) H(*it); } return H.h; });
        add("geometry", "length,vector,barycenter,normal", [this](vh::Rng& r) { Hash H;
            auto he = rhe(r); auto e = re(r);
            H(m.length(he)); H(m.length(e)); H(m.vector(he)); H(m.vector(e)); H(m.barycenter(e));
            H(m.barycenter(rf(r))); H(m.barycenter(rc(r))); H(m.normal(rhf(r))); return H.h; });

        // properties through existing handles
        add("prop_read", "operator[],at,PropertyStoragePtr,PropertyPtr,HandleIndexing", [this](vh::Rng& r) { Hash H;
            H(P.vi[rv(r)]); H(P.vi.at(rv(r))); H(P.ev[re(r)]); H(bool(P.heb[rhe(r)])); H(bool(P.heb.at(rhe(r))));
            H(P.fs[rf(r)]); H(P.hfi[rhf(r)]); H(P.cd[rc(r)]); H(P.ms[ovm::MeshHandle(0)]); H(P.vvec[rv(r)]);
            return H.h; });
        add("prop_copy_handle", "PropertyPtr,PropertyStoragePtr,operator[]", [this](vh::Rng& r) { Hash H;
            auto a = P.vi; auto b = P.fs; auto c = P.heb; ovm::CellPropertyPtr<double> d(P.cd);   // copies of the handles
            H(a[rv(r)]); H(b[rf(r)]); H(bool(c[rhe(r)])); H(d[rc(r)]); H(a.size()); H(bool(a));
            return H.h; });
        add("prop_serialize", "serialize,from_vertex,to_vertex", [this](vh::Rng& r) { Hash H;
            std::ostringstream os; P.vi.serialize(os); P.fs.serialize(os); P.heb.serialize(os); H(os.str());
            H(m.edge(re(r)).from_vertex()); H(m.edge(re(r)).to_vertex()); return H.h; });
        add("prop_meta", "size,name,def,persistent,shared,anonymous,entity_type,typeNameWrapper,operator bool,begin,end,data_vector", [this](vh::Rng&) { Hash H;
            H(P.vi.size()); H(P.vi.name()); H(P.vi.def()); H(P.vi.persistent()); H(P.ev.shared()); H(P.vvec.anonymous());
            H(int(P.fs.entity_type())); H(P.cd.typeNameWrapper()); H(bool(P.hfi)); H(P.fs.def());
            long s = 0; for (auto it = P.vi.begin(); it != P.vi.end(); ++it) s += *it; H(int(s));
            H(P.hfi.data_vector()); size_t nb = 0; for (auto it = P.heb.begin(); it != P.heb.end(); ++it) nb += *it ? 1 : 0; H(nb);
            return H.h; });
        add("prop_lookup", "get_property,property_exists,internal_find_property,get_vertex_property,get_edge_property,get_halfedge_property,get_face_property,get_halfface_property,get_cell_property,vertex_property_exists,edge_property_exists,halfedge_property_exists,face_property_exists,halfface_property_exists,cell_property_exists",
            [this](vh::Rng& r) { Hash H;
                auto a = m.template get_property<int, Entity::Vertex>("c20:vi"); H(a.has_value()); if (a) H((*a)[rv(r)]);
                auto b = m.template get_face_property<std::string>("c20:fs"); H(b.has_value()); if (b) H((*b)[rf(r)]);
                auto c = m.template get_cell_property<double>("c20:cd"); H(c.has_value()); if (c) H((*c)[rc(r)]);
                auto d = m.template get_halfedge_property<bool>("c20:heb"); H(d.has_value()); if (d) H(bool((*d)[rhe(r)]));
                auto e = m.template get_edge_property<Vec3d>("c20:ev"); H(e.has_value());
                auto f = m.template get_halfface_property<int>("c20:hfi"); H(f.has_value());
                auto g = m.template get_vertex_property<double>("c20:vi"); H(g.has_value());      // wrong type: absent
                H(m.template property_exists<int, Entity::Vertex>("c20:vi")); H(m.template property_exists<int, Entity::Vertex>("nope"));
                H(m.template vertex_property_exists<int>("c20:vi")); H(m.template edge_property_exists<Vec3d>("c20:ev"));
                H(m.template halfedge_property_exists<bool>("c20:heb")); H(m.template face_property_exists<int>("c20:fs"));
                H(m.template halfface_property_exists<int>("c20:hfi")); H(m.template cell_property_exists<double>("c20:cd"));
                H(m.template get_property<Vec3d, Entity::Vertex>("ovm:position").has_value());
                return H.h; });
        add("prop_registry", "n_props,n_persistent_props,n_vertex_props,n_edge_props,n_halfedge_props,n_face_props,n_halfface_props,n_cell_props,persistent_props_begin,persistent_props_end,vertex_props_begin,vertex_props_end,edge_props_begin,edge_props_end,halfedge_props_begin,halfedge_props_end,face_props_begin,face_props_end,halfface_props_begin,halfface_props_end,cell_props_begin,cell_props_end",
            [this](vh::Rng&) { Hash H;
                H(m.n_vertex_props()); H(m.n_edge_props()); H(m.n_halfedge_props()); H(m.n_face_props()); H(m.n_halfface_props()); H(m.n_cell_props());
                H(m.template n_props<Entity::Mesh>()); H(m.template n_persistent_props<Entity::Vertex>()); H(m.template n_persistent_props<Entity::Face>());
                // order of the persistent set is address dependent: hash order-independently
                uint64_t acc = 0;
                auto one = [&](auto b, auto e) { for (auto it = b; it != e; ++it) { Hash K; K((*it)->name()); K((*it)->size()); K(int((*it)->entity_type())); acc += K.h; } };
                one(m.vertex_props_begin(), m.vertex_props_end()); one(m.edge_props_begin(), m.edge_props_end());
                one(m.halfedge_props_begin(), m.halfedge_props_end()); one(m.face_props_begin(), m.face_props_end());
                one(m.halfface_props_begin(), m.halfface_props_end()); one(m.cell_props_begin(), m.cell_props_end());
                one(m.template persistent_props_begin<Entity::Mesh>(), m.template persistent_props_end<Entity::Mesh>());
                H.u(acc); return H.h; });
    }
#undef CIRC
#undef ITER

    void tet();    // defined for TetMesh
    void hex();    // defined for HexMesh
};

template <> void Suite<TetMesh>::tet() {
    add("tet_get_cell_vertices", "get_cell_vertices", [this](vh::Rng& r) { Hash H;
        auto c = rlc(r); auto vs = m.get_cell_vertices(c); H(vs);
        H(m.get_cell_vertices(c, vs[r.below(vs.size())]));
        if (!hf_he.empty()) { auto p = r.pick(hf_he); H(m.get_cell_vertices(p.first)); H(m.get_cell_vertices(p.first, p.second)); }
        if (!bhf.empty()) H(m.get_cell_vertices(r.pick(bhf)));
        return H.h; });
    add("tet_opposite", "halfface_opposite_vertex,vertex_opposite_halfface", [this](vh::Rng& r) { Hash H;
        H(m.halfface_opposite_vertex(rhf(r)));
        auto c = rlc(r); auto vs = m.get_cell_vertices(c); H(m.vertex_opposite_halfface(c, vs[r.below(vs.size())]));
        return H.h; });
    add("tv_iter", "tv_iter,tet_vertices,TetVertexIter", [this](vh::Rng& r) { Hash H;
        auto c = rlc(r); for (auto it = m.tv_iter(c, 1 + int(r.below(2))); it.valid(); ++it) H(*it);
        for (auto v : m.tet_vertices(c)) H(v); return H.h; });
}

template <> void Suite<HexMesh>::hex() {
    add("hex_faces", "xfront_halfface,xback_halfface,yfront_halfface,yback_halfface,zfront_halfface,zback_halfface,opposite_halfface_handle_in_cell,orientation,get_oriented_halfface",
        [this](vh::Rng& r) { Hash H;
            auto c = rlc(r);
            H(m.xfront_halfface(c)); H(m.xback_halfface(c)); H(m.yfront_halfface(c)); H(m.yback_halfface(c));
            H(m.zfront_halfface(c)); H(m.zback_halfface(c));
            auto hf = m.cell(c).halffaces()[r.below(6)];
            H(m.opposite_halfface_handle_in_cell(hf, c)); H(m.orientation(hf, c));
            H(m.orientation(rhf(r), c)); H(m.get_oriented_halfface((unsigned char)r.below(7), c));
            H(HexMesh::opposite_orientation((unsigned char)r.below(6)));
            H(HexMesh::orthogonal_orientation((unsigned char)r.below(6), (unsigned char)r.below(6)));
            return H.h; });
    add("hex_adjacency", "adjacent_halfface_on_sheet,adjacent_halfface_on_surface,neighboring_outside_halfface", [this](vh::Rng& r) { Hash H;
        if (!hf_he.empty()) { auto p = r.pick(hf_he); H(m.adjacent_halfface_on_sheet(p.first, p.second)); }
        if (!bhf.empty()) { auto hf = r.pick(bhf); const auto hes = m.halfface(hf).halfedges(); auto he = hes[r.below(hes.size())];
            H(m.adjacent_halfface_on_surface(hf, he)); H(m.neighboring_outside_halfface(hf, he)); }
        return H.h; });
    add("csc_iter", "csc_iter,cell_sheet_cells,CellSheetCellIter", [this](vh::Rng& r) { Hash H;
        auto c = rlc(r); unsigned char d = (unsigned char)r.below(6);
        for (auto it = m.csc_iter(c, d); it.valid(); ++it) H(*it);
        for (auto x : m.cell_sheet_cells(c, d)) H(x); return H.h; });
    add("hfshf_iter", "hfshf_iter,halfface_sheet_halffaces,HalfFaceSheetHalfFaceIter", [this](vh::Rng& r) { Hash H;
        if (hf_he.empty()) return H.h; auto hf = r.pick(hf_he).first;
        for (auto it = m.hfshf_iter(hf); it.valid(); ++it) H(*it);
        for (auto x : m.halfface_sheet_halffaces(hf)) H(x); return H.h; });
    add("hv_iter", "hv_iter,hex_vertices,HexVertexIter", [this](vh::Rng& r) { Hash H;
        auto c = rlc(r); for (auto it = m.hv_iter(c, 1 + int(r.below(2))); it.valid(); ++it) H(*it);
        for (auto v : m.hex_vertices(c)) H(v); return H.h; });
}

// ------------------------------------------------------------------------------------------
struct World {
    std::unique_ptr<PolyMesh> poly; std::unique_ptr<TetMesh> tet; std::unique_ptr<HexMesh> hex;
    std::unique_ptr<Props> pp, tp, hp;
    std::unique_ptr<Suite<PolyMesh>> ps; std::unique_ptr<Suite<TetMesh>> ts; std::unique_ptr<Suite<HexMesh>> hs;
    std::vector<const Query*> all;

    explicit World(uint64_t seed) {
        vh::Rng rng(vh::mix(seed, 0xC20));
        poly.reset(new PolyMesh); tet.reset(new TetMesh); hex.reset(new HexMesh);
        build(*poly, rng); build(*tet, rng); build(*hex, rng);
        pp.reset(new Props(*poly, rng)); tp.reset(new Props(*tet, rng)); hp.reset(new Props(*hex, rng));
        delete_some(*poly, rng, true); delete_some(*tet, rng, false); delete_some(*hex, rng, false);
        ps.reset(new Suite<PolyMesh>(*poly, *pp, "poly"));
        ts.reset(new Suite<TetMesh>(*tet, *tp, "tet")); ts->tet();
        hs.reset(new Suite<HexMesh>(*hex, *hp, "hex")); hs->hex();
        for (auto& q : ps->q) all.push_back(&q);
        for (auto& q : ts->q) all.push_back(&q);
        for (auto& q : hs->q) all.push_back(&q);
    }
    template <class M> static void info(const char* k, const M& m) {
        printf("INFO mesh=%s sizeof=%zu nv=%zu ne=%zu nf=%zu nc=%zu logical_nv=%zu logical_ne=%zu logical_nf=%zu logical_nc=%zu props=%zu\n", k, sizeof(M),
               m.n_vertices(), m.n_edges(), m.n_faces(), m.n_cells(), m.n_logical_vertices(), m.n_logical_edges(),
               m.n_logical_faces(), m.n_logical_cells(),
               m.n_vertex_props() + m.n_edge_props() + m.n_halfedge_props() + m.n_face_props() + m.n_halfface_props() + m.n_cell_props());
    }
    void info_all() const { info("poly", *poly); info("tet", *tet); info("hex", *hex); }
};

static std::vector<std::string> split(const std::string& s) {
    std::vector<std::string> out; std::string cur;
    for (char c : s) { if (c == ',') { if (!cur.empty()) out.push_back(cur); cur.clear(); } else cur += c; }
    if (!cur.empty()) out.push_back(cur);
    return out;
}

// --only: a query is selected when its name (after "kind:") equals a token or one of the API
// names it covers equals a token
static std::vector<const Query*> select(const World& w, const std::string& only) {
    if (only.empty()) return w.all;
    auto toks = split(only);
    std::vector<const Query*> out;
    for (auto* q : w.all) {
        std::string bare = q->name.substr(q->name.find(':') + 1);
        auto cov = split(q->covers);
        bool hit = false;
        for (auto& t : toks) { if (t == bare || t == q->name) hit = true; for (auto& c : cov) if (c == t) hit = true; }
        if (hit) out.push_back(q);
    }
    return out;
}

static int mode_list(const World& w) {
    for (auto* q : w.all) printf("QUERY %s covers=%s\n", q->name.c_str(), q->covers.c_str());
    return 0;
}

#ifdef CONC_SNAPSHOT
static int mode_snap(World& w, uint64_t seed, int reps, const std::string& only) {
    auto qs = select(w, only);
    w.info_all();
    const void* named[3] = {w.poly.get(), w.tet.get(), w.hex.get()};
    const char* names[3] = {"poly", "tet", "hex"};
    heapreg::Snapshot S = heapreg::take();
    size_t mesh_blocks = 0;
    for (size_t i = 0; i < S.nb; ++i) for (auto p : named) if (S.b[i].p == p) ++mesh_blocks;
    printf("SNAPBASE blocks=%zu bytes=%zu mesh_objects_tracked=%zu\n", S.nb, S.bytes, mesh_blocks);
    size_t calls = 0, diffs = 0, nondet = 0;
    uint64_t checksum = 0;
    char msg[256];
    for (int rep = 0; rep < reps; ++rep)
        for (size_t qi = 0; qi < qs.size(); ++qi) {
            uint64_t as = vh::mix(seed, uint64_t(rep) * 100003 + qi);
            vh::Rng r1(as);
            uint64_t h1 = qs[qi]->run(r1);
            ++calls;
            bool d = heapreg::differs(S, msg, sizeof msg);
            if (d) {
                const char* where = "heap";
                size_t blk = 0;
                if (sscanf(msg, "what=heap-block-changed block=%zu", &blk) == 1 && blk < S.nb)
                    for (int k = 0; k < 3; ++k) if (S.b[blk].p == named[k]) where = names[k];
                printf("DIFF query=%s rep=%d argseed=%llu where=%s-%s %s\n", qs[qi]->name.c_str(), rep, (unsigned long long)as,
                       where, strcmp(where, "heap") ? "mesh-object" : "block", msg);
                ++diffs;
                heapreg::enabled = false; S.release(); heapreg::enabled = true;
                S = heapreg::take();
            }
            vh::Rng r2(as);
            uint64_t h2 = qs[qi]->run(r2);
            ++calls;
            if (h1 != h2) { printf("NONDET query=%s rep=%d argseed=%llu first=%016llx second=%016llx\n", qs[qi]->name.c_str(), rep,
                                   (unsigned long long)as, (unsigned long long)h1, (unsigned long long)h2); ++nondet; }
            if (heapreg::differs(S, msg, sizeof msg)) {
                printf("DIFF query=%s rep=%d argseed=%llu where=second-call %s\n", qs[qi]->name.c_str(), rep, (unsigned long long)as, msg);
                ++diffs;
                S.release(); S = heapreg::take();
            }
            checksum = vh::mix(checksum, h1);
        }
    printf("SUMMARY mode=snap queries=%zu calls=%zu snapshot_diffs_performed=%zu diffs=%zu nondeterministic=%zu blocks=%zu bytes=%zu checksum=%016llx\n",
           qs.size(), calls, calls, diffs, nondet, S.nb, S.bytes, (unsigned long long)checksum);
    return (diffs || nondet) ? 3 : 0;
}
#endif

static int mode_tsan(uint64_t seed, long budget_ms, std::vector<int> tcounts, int ops, const std::string& only) {
    auto t0 = std::chrono::steady_clock::now();
    auto elapsed = [&] { return std::chrono::duration_cast<std::chrono::milliseconds>(std::chrono::steady_clock::now() - t0).count(); };
    size_t rounds = 0, total_ops = 0, mism = 0, nq = 0;
    std::map<int, size_t> rounds_by_t;
    std::set<size_t> exercised;
    long conc_ms = 0;
    for (;; ++rounds) {
        if (rounds >= tcounts.size() && elapsed() >= budget_ms) break;
        // a FRESH world every round (same seed => same meshes): the concurrent phase comes first, so
        // a lazily filled cache is first touched by racing threads, not by the reference run
        World w(seed);
        auto qs = select(w, only);
        nq = qs.size();
        if (rounds == 0) w.info_all();
        if (qs.empty()) { printf("SUMMARY mode=tsan queries=0\n"); return 4; }
        int T = tcounts[rounds % tcounts.size()];
        int K = std::min(T, 4);                         // distinct sequences; thread t runs sequence t % K
        std::vector<std::vector<std::pair<size_t, uint64_t>>> seq(static_cast<size_t>(K));
        for (int k = 0; k < K; ++k) {
            vh::Rng r(vh::mix(seed, rounds * 64 + uint64_t(k)));
            for (int j = 0; j < ops; ++j) { seq[size_t(k)].emplace_back(r.below(qs.size()), r.next()); exercised.insert(seq[size_t(k)].back().first); }
        }
        std::vector<std::vector<uint64_t>> got(static_cast<size_t>(T));
        std::atomic<int> ready{0};
        std::atomic<bool> go{false};
        std::vector<std::thread> th;
        auto c0 = std::chrono::steady_clock::now();
        for (int t = 0; t < T; ++t)
            th.emplace_back([&, t] {
                const auto& s = seq[size_t(t % K)];
                auto& out = got[size_t(t)];
                out.reserve(s.size());
                ready.fetch_add(1);
                while (!go.load(std::memory_order_acquire)) std::this_thread::yield();
                for (auto& op : s) { vh::Rng a(op.second); out.push_back(qs[op.first]->run(a)); }
            });
        while (ready.load() < T) std::this_thread::yield();
        go.store(true, std::memory_order_release);
        for (auto& x : th) x.join();
        conc_ms += std::chrono::duration_cast<std::chrono::milliseconds>(std::chrono::steady_clock::now() - c0).count();
        // reference: the same sequences, single-threaded, on a second fresh world
        World ref(seed);
        auto rq = select(ref, only);
        for (int k = 0; k < K; ++k) {
            std::vector<uint64_t> expect;
            for (auto& op : seq[size_t(k)]) { vh::Rng a(op.second); expect.push_back(rq[op.first]->run(a)); }
            for (int t = k; t < T; t += K)
                for (size_t j = 0; j < got[size_t(t)].size(); ++j)
                    if (got[size_t(t)][j] != expect[j]) {
                        if (mism < 10)
                            printf("MISMATCH round=%zu threads=%d thread=%d op=%zu query=%s argseed=%llu expected=%016llx got=%016llx\n", rounds, T, t, j,
                                   qs[seq[size_t(k)][j].first]->name.c_str(), (unsigned long long)seq[size_t(k)][j].second,
                                   (unsigned long long)expect[j], (unsigned long long)got[size_t(t)][j]);
                        ++mism;
                    }
        }
        total_ops += size_t(T) * size_t(ops);
        rounds_by_t[T]++;
    }
    std::string hist;
    for (auto& kv : rounds_by_t) hist += (hist.empty() ? "" : ",") + std::to_string(kv.first) + "x" + std::to_string(kv.second);
    printf("SUMMARY mode=tsan queries=%zu exercised=%zu rounds=%zu thread_rounds=%s concurrent_ops=%zu mismatches=%zu wall_ms=%ld concurrent_ms=%ld\n",
           nq, exercised.size(), rounds, hist.c_str(), total_ops, mism, long(elapsed()), conc_ms);
    return mism ? 3 : 0;
}

int main(int argc, char** argv) {
#ifdef CONC_SNAPSHOT
    heapreg::init();
    heapreg::enabled = true;
#endif
    std::string mode = argc > 1 ? argv[1] : "list";
    long ms = 3000; int reps = 3, ops = 300; std::string only; std::vector<int> tc = {2, 4, 8, 16};
    for (int i = 2; i + 1 < argc; i += 2) {
        std::string k = argv[i], v = argv[i + 1];
        if (k == "--ms") ms = atol(v.c_str());
        else if (k == "--reps") reps = atoi(v.c_str());
        else if (k == "--ops") ops = atoi(v.c_str());
        else if (k == "--only") only = v;
        else if (k == "--threads") { tc.clear(); for (auto& s : split(v)) tc.push_back(atoi(s.c_str())); }
        else { fprintf(stderr, "unknown option %s\n", k.c_str()); return 2; }
    }
    uint64_t seed = vh::env_seed();
    setvbuf(stdout, nullptr, _IOLBF, 0);
    if (mode == "tsan") return mode_tsan(seed, ms, tc, ops, only);
    World w(seed);
    if (mode == "list") return mode_list(w);
#ifdef CONC_SNAPSHOT
    if (mode == "snap") return mode_snap(w, seed, reps, only);
#endif
    fprintf(stderr, "mode %s not available in this build\n", mode.c_str());
    return 2;
}

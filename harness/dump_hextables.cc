// T2 dump program: the C++ compiler evaluates the public static orientation helpers of
// HexahedralMeshTopologyKernel over their whole argument space (0..INVALID) and prints one
// table entry per line.  Header-only use: no library needed.  tools/t2_hextables.py turns the
// output into lean/OVM/Gen/HexTables.lean.
#include <OpenVolumeMesh/Mesh/HexahedralMeshTopologyKernel.hh>
#include <cstdio>

int main() {
    typedef OpenVolumeMesh::HexahedralMeshTopologyKernel K;
    const int XF = K::XF, XB = K::XB, YF = K::YF, YB = K::YB, ZF = K::ZF, ZB = K::ZB, INVALID = K::INVALID;
    printf("const XF %d\nconst XB %d\nconst YF %d\nconst YB %d\nconst ZF %d\nconst ZB %d\nconst INVALID %d\n", XF, XB, YF, YB, ZF, ZB, INVALID);
    for (int d = 0; d <= INVALID; ++d)
        printf("opp %d %d\n", d, (int)K::opposite_orientation((unsigned char)d));
    for (int a = 0; a <= INVALID; ++a)
        for (int b = 0; b <= INVALID; ++b)
            printf("orth %d %d %d\n", a, b, (int)K::orthogonal_orientation((unsigned char)a, (unsigned char)b));
    return 0;
}

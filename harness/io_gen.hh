// io_gen.hh -- mesh generators for the OVMB/ASCII drivers: structured meshes of the three kinds
// (low-level add_* calls only, no topology check at build time), persistent properties of every codec.
#pragma once
#include "io_core.hh"

namespace io {

template<class M> struct Builder {
    M& m; vh::Rng& r;
    std::map<std::pair<int,int>, HEH> emap;
    std::map<std::vector<int>, HFH> fmap;
    Builder(M& mesh, vh::Rng& rng) : m(mesh), r(rng) {}

    VH vert() { Vec3d p; for (int d = 0; d < 3; ++d) p[d] = Tok<double>::make(r); return m.add_vertex(p); }
    // vertex whose coordinates are exactly representable as float (for the float-encoded alternative files)
    VH vert_f() { Vec3d p; for (int d = 0; d < 3; ++d) p[d] = (double)f_bits((uint32_t)(0x3f000000u + r.below(0x02000000u))); return m.add_vertex(p); }
    HEH he(VH a, VH b) {
        auto it = emap.find({a.idx(), b.idx()}); if (it != emap.end()) return it->second;
        EH e = m.add_edge(a, b, true);
        emap[{a.idx(), b.idx()}] = m.halfedge_handle(e, 0); emap[{b.idx(), a.idx()}] = m.halfedge_handle(e, 1);
        return m.halfedge_handle(e, 0); }
    static std::vector<int> canon(std::vector<int> v) {
        if (v.empty()) return v; auto mi = std::min_element(v.begin(), v.end()); std::rotate(v.begin(), mi, v.end()); return v; }
    HFH face(const std::vector<VH>& vs, bool reuse = true) {
        std::vector<int> k; for (auto v : vs) k.push_back(v.idx());
        auto kc = canon(k);
        if (reuse) { auto it = fmap.find(kc); if (it != fmap.end()) return it->second; }
        std::vector<HEH> hes; for (size_t i = 0; i < vs.size(); ++i) hes.push_back(he(vs[i], vs[(i + 1) % vs.size()]));
        FH f = m.add_face(hes, false);
        if (!f.is_valid()) return HFH(-1);
        std::vector<int> rk(k.rbegin(), k.rend());
        fmap[kc] = m.halfface_handle(f, 0); fmap[canon(rk)] = m.halfface_handle(f, 1);
        return m.halfface_handle(f, 0); }
    CH cell(std::vector<HFH> hfs) { for (auto h : hfs) if (!h.is_valid()) return CH(-1); return m.add_cell(hfs, false); }
    CH tet(VH a, VH b, VH c, VH d) { return cell({face({a,b,c}), face({a,c,d}), face({a,d,b}), face({b,d,c})}); }
    CH hex(const VH* v) {   // OVM vertex order, halffaces XF XB YF YB ZF ZB as HexahedralMeshTopologyKernel::add_cell builds them
        return cell({face({v[3],v[2],v[1],v[0]}), face({v[7],v[6],v[5],v[4]}), face({v[1],v[2],v[6],v[7]}),
                     face({v[4],v[5],v[3],v[0]}), face({v[1],v[7],v[4],v[0]}), face({v[2],v[3],v[5],v[6]})}); }
    CH pyramid(VH a, VH b, VH c, VH d, VH top) {
        return cell({face({d,c,b,a}), face({a,b,top}), face({b,c,top}), face({c,d,top}), face({d,a,top})}); }
    CH prism(VH a, VH b, VH c, VH d, VH e, VH f) {
        return cell({face({c,b,a}), face({d,e,f}), face({a,b,e,d}), face({b,c,f,e}), face({c,a,d,f})}); }
    std::vector<VH> pick_distinct(size_t k, size_t fresh_pct) {
        std::vector<VH> out; std::set<int> used;
        while (out.size() < k) {
            if (m.n_vertices() < k || r.below(100) < fresh_pct) { VH v = vert(); out.push_back(v); used.insert(v.idx()); continue; }
            VH v((int)r.below(m.n_vertices())); if (used.insert(v.idx()).second) out.push_back(v);
        }
        return out; }
};

// one persistent property of codec c on entity pe with token values (some slots left at the default)
template<class T> void fix_empty_default(T&, bool) {}
inline void fix_empty_default(std::string& s, bool allow_empty) { if (s.empty() && !allow_empty) s = "dflt"; }
template<class M> void attach_prop(M& m, vh::Rng& r, int pe, int c, const std::string& name, bool allow_empty_strdef = false) {
    with_codec(c, [&](const char*, auto* tp) {
        using T = std::remove_pointer_t<decltype(tp)>;
        with_entity(pe, [&](auto tag) {
            using Tag = decltype(tag);
            T def = Tok<T>::make(r);
            fix_empty_default(def, allow_empty_strdef);   // an empty string default has its own recipe (finding F21)
            auto p = m.template request_property<T, Tag>(name, def);
            m.set_persistent(p);
            PropertyStoragePtr<T>& sp = p;
            for (size_t i = 0; i < sp.size(); ++i) if (!r.chance(1, 4)) sp[i] = Tok<T>::make(r);
        });
    });
}
inline std::string prop_name(vh::Rng& r, int pe, int c, int variant) {
    std::string base = std::string("p") + std::to_string(pe) + "_" + codec_name(c);
    switch (variant % 6) {
    case 1: return base + " with space";
    case 2: return base + "\xc3\xbc\xe2\x88\x91";
    case 3: return base + std::string(260, 'n');
    case 4: return "same";                     // same name for several types / entities
    case 5: return base + std::string("\0z", 2) + (char)(1 + r.below(254));
    default: return base; }
}

struct Recipe {
    std::string desc;
    int nv_pad = 0;        // pad with isolated vertices up to this count
    int ne_pad = 0;        // pad with dangling edges up to this count
    int nf_pad = 0;        // pad with (repeated) faces up to this count
    int nc_pad = 0;        // pad with (repeated) cells up to this count
    int cells = 0;         // template cells glued through random shared vertices
    int big_valence = 0;   // (poly) one face of this valence
    int uniform_valence = 0; // (poly, no cells) every face has this valence
    int big_cell = 0;      // (poly) one cell with this many halffaces
    int props_all = 0;     // 1: all 30 codecs x 7 entities, else 30 codecs on rotating entities
    int degenerate = 0;    // (poly) 1-gons, 2-gons, self-loop edges, duplicate edges, unconnected faces, open cells
    bool floatpos = false;
    bool empty_strdef = false; // one s32 property whose default value is the empty string // all coordinates exactly representable as float
    int rot = 0;
};

template<class M> void build(M& m, char kind, const Recipe& rc, vh::Rng& r) {
    Builder<M> b(m, r);
    auto nv = [&](){ return rc.floatpos ? b.vert_f() : b.vert(); };
    for (int i = 0; i < rc.cells; ++i) {
        int shape = kind == 't' ? 0 : kind == 'h' ? 1 : (int)r.below(4);
        size_t k = shape == 0 ? 4 : shape == 1 ? 8 : shape == 2 ? 5 : 6;
        std::vector<VH> vs;
        if (rc.floatpos) { std::set<int> used; while (vs.size() < k) { if (m.n_vertices() < k || r.chance(1,2)) { VH v = b.vert_f(); used.insert(v.idx()); vs.push_back(v);} else { VH v((int)r.below(m.n_vertices())); if (used.insert(v.idx()).second) vs.push_back(v);} } }
        else vs = b.pick_distinct(k, 45);
        if (shape == 0) b.tet(vs[0], vs[1], vs[2], vs[3]);
        else if (shape == 1) b.hex(vs.data());
        else if (shape == 2) b.pyramid(vs[0], vs[1], vs[2], vs[3], vs[4]);
        else b.prism(vs[0], vs[1], vs[2], vs[3], vs[4], vs[5]);
    }
    size_t fv = kind == 't' ? 3 : 4;     // face valence used for padding faces
    if (kind == 'p' && rc.uniform_valence) fv = (size_t)rc.uniform_valence;
    if (kind == 'p' && rc.big_valence) { std::vector<VH> vs; for (int i = 0; i < rc.big_valence; ++i) vs.push_back(nv()); b.face(vs); }
    if (kind == 'p' && rc.degenerate) {
        VH a = nv(), c = nv(), d = nv(), e = nv();
        m.add_edge(a, c, true); m.add_edge(a, c, true); m.add_edge(c, a, true);       // duplicates
        EH loop = m.add_edge(d, d, true);                                               // self loop
        m.add_face({m.halfedge_handle(loop, 0)}, false);                                // 1-gon
        HEH h1 = b.he(a, e), h2 = b.he(e, a);
        m.add_face({h1, h2}, false);                                                    // 2-gon
        m.add_face({b.he(a, c), b.he(d, e), b.he(a, e)}, false);                        // not connected
        HFH f1 = b.face({a, c, e}), f2 = b.face({c, d, e});
        m.add_cell({f1, f2}, false);                                                    // open "cell"
        m.add_cell({f1}, false);
        m.add_cell({f1, m.opposite_halfface_handle(f1)}, false);                        // closed 2-face cell
    }
    if ((int)m.n_faces() < rc.nf_pad || rc.uniform_valence) {
        std::vector<VH> vs; for (size_t i = 0; i < fv; ++i) vs.push_back(nv());
        int want = std::max(rc.nf_pad, rc.uniform_valence ? 3 : 0);
        while ((int)m.n_faces() < want) b.face(vs, false);
    }
    if (kind == 'p' && rc.big_cell && m.n_faces() > 0) {
        std::vector<HFH> hfs; for (int i = 0; i < rc.big_cell; ++i) hfs.push_back(HFH((int)r.below(2 * m.n_faces())));
        m.add_cell(hfs, false);
    }
    if ((int)m.n_cells() < rc.nc_pad) {
        std::vector<HFH> hfs;
        if (m.n_cells() > 0) hfs = m.cell(CH(0)).halffaces();
        else if (kind == 't') { auto vs = b.pick_distinct(4, 100); b.tet(vs[0],vs[1],vs[2],vs[3]); hfs = m.cell(CH(0)).halffaces(); }
        else { auto vs = b.pick_distinct(8, 100); b.hex(vs.data()); hfs = m.cell(CH(0)).halffaces(); }
        while ((int)m.n_cells() < rc.nc_pad) m.add_cell(hfs, false);
    }
    while ((int)m.n_edges() < rc.ne_pad) {
        if (m.n_vertices() < 2) { nv(); continue; }
        VH a((int)r.below(m.n_vertices())), c((int)r.below(m.n_vertices()));
        m.add_edge(a, c, true);
    }
    while ((int)m.n_vertices() < rc.nv_pad) nv();
    // properties
    if (rc.props_all == 1) {
        for (int pe = 0; pe < 7; ++pe) for (int c = 0; c < N_CODECS; ++c) attach_prop(m, r, pe, c, prop_name(r, pe, c, (pe * 31 + c) % 11));
    } else if (rc.props_all == 0) {
        for (int c = 0; c < N_CODECS; ++c) { int pe = (c + rc.rot) % 7; attach_prop(m, r, pe, c, prop_name(r, pe, c, (c + rc.rot) % 9)); }
    } else if (rc.props_all == 2) {   // few
        for (int j = 0; j < 7; ++j) { int c = (rc.rot * 7 + j * 5) % N_CODECS; attach_prop(m, r, j, c, prop_name(r, j, c, 0)); }
    }   // 3: none
    if (rc.empty_strdef) {
        vh::Rng r2(12345);
        for (;;) { std::string d = Tok<std::string>::make(r2); if (d.empty()) break; }
        auto p = m.template request_property<std::string, Entity::Vertex>("empty default", std::string());
        m.set_persistent(p);
        PropertyStoragePtr<std::string>& sp = p;
        for (size_t i = 0; i < sp.size(); ++i) if (i % 2) sp[i] = "v" + std::to_string(i);
    }
}

inline std::vector<Recipe> recipes(char kind, bool thorough, vh::Rng& r, int n_random) {
    std::vector<Recipe> v;
    auto add = [&](Recipe x) { x.rot = (int)v.size(); v.push_back(x); };
    { Recipe x; x.desc = "empty"; x.props_all = 0; add(x); }
    { Recipe x; x.desc = "empty-noprops"; x.props_all = 3; add(x); }
    { Recipe x; x.desc = "one-vertex"; x.nv_pad = 1; add(x); }
    { Recipe x; x.desc = "one-cell-allprops"; x.cells = 1; x.props_all = 1; add(x); }
    { Recipe x; x.desc = "one-cell-noprops"; x.cells = 1; x.props_all = 3; add(x); }
    { Recipe x; x.desc = "empty-string-default"; x.cells = 1; x.props_all = 3; x.empty_strdef = true; add(x); }
    { Recipe x; x.desc = "two-cells-float"; x.cells = 2; x.floatpos = true; x.props_all = 2; add(x); }
    for (int n : {255, 256, 257}) { Recipe x; x.desc = "nv" + std::to_string(n); x.cells = 2; x.nv_pad = n; x.props_all = 2; add(x); }
    for (int n : {1, 127, 128, 129, 255, 256, 257}) { Recipe x; x.desc = "ne" + std::to_string(n); x.cells = n > 100 ? 2 : 0; x.ne_pad = n; x.props_all = 2; add(x); }
    for (int n : {127, 128, 129, 256}) { Recipe x; x.desc = "nf" + std::to_string(n); x.cells = 1; x.nf_pad = n; x.props_all = 2; add(x); }
    { Recipe x; x.desc = "nc257"; x.cells = 1; x.nc_pad = 257; x.props_all = 2; add(x); }
    { Recipe x; x.desc = "faces-only"; x.nf_pad = 3; x.props_all = 0; add(x); }
    if (kind == 'p') {
        for (int n : {255, 256}) { Recipe x; x.desc = "valence" + std::to_string(n); x.cells = 1; x.big_valence = n; x.props_all = 2; add(x); }
        { Recipe x; x.desc = "uniform-valence-5"; x.uniform_valence = 5; x.props_all = 2; add(x); }
        { Recipe x; x.desc = "uniform-valence-300"; x.uniform_valence = 300; x.props_all = 3; add(x); }
        { Recipe x; x.desc = "bigcell300"; x.cells = 2; x.big_cell = 300; x.props_all = 2; add(x); }
        { Recipe x; x.desc = "degenerate"; x.cells = 1; x.degenerate = 1; x.props_all = 0; add(x); }
        { Recipe x; x.desc = "degenerate-allprops"; x.degenerate = 1; x.props_all = 1; add(x); }
    }
    if (thorough) {
        for (int n : {65535, 65536, 65537}) { Recipe x; x.desc = "nv" + std::to_string(n); x.cells = 2; x.nv_pad = n; x.props_all = 2; add(x); }
        for (int n : {32767, 32768, 32769, 65535, 65536, 65537}) { Recipe x; x.desc = "ne" + std::to_string(n); x.cells = 2; x.ne_pad = n; x.props_all = 3; add(x); }
        for (int n : {32767, 32768, 32769}) { Recipe x; x.desc = "nf" + std::to_string(n); x.cells = 1; x.nf_pad = n; x.props_all = 3; add(x); }
    }
    for (int i = 0; i < n_random; ++i) {
        Recipe x; x.desc = "random" + std::to_string(i); x.cells = 1 + (int)r.below(thorough ? 40 : 12);
        x.nv_pad = (int)r.below(30); x.ne_pad = (int)r.below(40); x.nf_pad = (int)r.below(30);
        x.props_all = r.chance(1, 12) ? 1 : r.chance(1, 3) ? 2 : 0;
        x.floatpos = r.chance(1, 5);
        if (kind == 'p' && r.chance(1, 3)) x.degenerate = 1;
        if (kind == 'p' && r.chance(1, 4)) x.big_valence = 5 + (int)r.below(20);
        add(x);
    }
    return v;
}

} // namespace io

// io_mut.hh -- included by io_drv.cc: file-structure parser, mutators, modes `mutate` and `faults`.
// A mutant is described as an edit script against its parent file:  off:dellen:inserthex[,...]  (offsets refer
// to the parent, edits sorted by offset and non-overlapping), so records stay small and the judge re-derives the bytes.

struct Edit { size_t off; size_t del; Bytes ins; };
static Bytes apply_edits(const Bytes& p, const std::vector<Edit>& es) {
    Bytes o; size_t pos = 0;
    for (auto& e : es) { size_t off = std::min(e.off, p.size()); if (off < pos) off = pos;
        o.insert(o.end(), p.begin() + pos, p.begin() + off); o.insert(o.end(), e.ins.begin(), e.ins.end());
        pos = std::min(p.size(), off + e.del); }
    o.insert(o.end(), p.begin() + pos, p.end());
    return o;
}
static std::string edits_str(const std::vector<Edit>& es) {
    if (es.empty()) return "-";
    std::string s; for (size_t i = 0; i < es.size(); ++i) { if (i) s += ','; s += std::to_string(es[i].off) + ":" + std::to_string(es[i].del) + ":" + hex(es[i].ins); }
    return s;
}

struct Field { size_t off; int width; const char* name; };
struct ChunkInfo { size_t off; size_t len; uint32_t type; };     // whole chunk incl. header and padding
struct Layout { std::vector<Field> fields; std::vector<ChunkInfo> chunks; std::vector<std::pair<size_t,size_t>> hdr_regions; };

static uint32_t fourcc(const char* s) { return (uint32_t)(uint8_t)s[0] | ((uint32_t)(uint8_t)s[1] << 8) | ((uint32_t)(uint8_t)s[2] << 16) | ((uint32_t)(uint8_t)s[3] << 24); }

// Parses a *valid* file as far as it can (used only to find interesting offsets; never trusted).
static Layout parse_layout(const Bytes& b) {
    Layout L;
    auto F = [&](size_t off, int w, const char* n) { if (off + (size_t)w <= b.size()) L.fields.push_back({off, w, n}); };
    if (b.size() < 48) return L;
    for (int i = 0; i < 8; ++i) F((size_t)i, 1, "magic");
    F(8, 1, "file_version"); F(9, 1, "header_version"); F(10, 1, "vertex_dim"); F(11, 1, "topo_type");
    for (int i = 0; i < 4; ++i) F(12 + (size_t)i, 1, "hdr_reserved");
    F(16, 8, "n_verts"); F(24, 8, "n_edges"); F(32, 8, "n_faces"); F(40, 8, "n_cells");
    L.hdr_regions.push_back({0, 48});
    size_t pos = 48;
    while (pos + 16 <= b.size()) {
        uint32_t type = (uint32_t)get_le(b, pos, 4); uint8_t pad = b[pos + 5]; uint64_t flen = get_le(b, pos + 8, 8);
        for (int i = 0; i < 4; ++i) F(pos + (size_t)i, 1, "chunk_type");
        F(pos + 4, 1, "chunk_version"); F(pos + 5, 1, "chunk_padding"); F(pos + 6, 1, "chunk_compression"); F(pos + 7, 1, "chunk_flags");
        F(pos + 8, 8, "chunk_length");
        if (flen > b.size() - pos - 16) break;
        size_t pl = pos + 16; size_t plen = (size_t)flen - std::min<size_t>(pad, (size_t)flen);
        size_t sub = 0;
        if (type == fourcc("VERT")) { F(pl, 8, "vert_first"); F(pl + 8, 4, "vert_count"); F(pl + 12, 1, "vert_enc"); for (int i = 0; i < 3; ++i) F(pl + 13 + (size_t)i, 1, "vert_reserved"); sub = 16;
            if (plen > 16) { F(pl + 16, 8, "vert_coord"); F(pl + plen - 8, 8, "vert_coord"); } }
        else if (type == fourcc("TOPO")) { F(pl, 8, "topo_first"); F(pl + 8, 4, "topo_count"); F(pl + 12, 1, "topo_entity"); F(pl + 13, 1, "topo_valence");
            F(pl + 14, 1, "topo_valence_enc"); F(pl + 15, 1, "topo_handle_enc"); F(pl + 16, 8, "topo_handle_offset"); sub = 24;
            int henc = pl + 15 < b.size() ? b[pl + 15] : 1; int venc = pl + 14 < b.size() ? b[pl + 14] : 0; uint32_t cnt = (uint32_t)get_le(b, pl + 8, 4);
            size_t p = pl + 24;
            if (venc == 1 || venc == 2 || venc == 4) { for (uint32_t i = 0; i < cnt && i < 6; ++i) F(p + (size_t)i * venc, venc, "topo_valence_item");
                if (cnt) F(p + (size_t)(cnt - 1) * venc, venc, "topo_valence_item"); p += (size_t)cnt * venc; }
            if (henc == 1 || henc == 2 || henc == 4) { size_t nh = p < pl + plen ? (pl + plen - p) / henc : 0;
                for (size_t i = 0; i < nh && i < 8; ++i) F(p + i * henc, henc, "topo_handle");
                for (size_t i = 0; i < 4 && nh > 8; ++i) F(p + ((nh - 1 - i * (nh / 5))) * henc, henc, "topo_handle"); } }
        else if (type == fourcc("PROP")) { F(pl, 8, "prop_first"); F(pl + 8, 4, "prop_count"); F(pl + 12, 4, "prop_idx"); sub = 16;
            if (plen > 16) { F(pl + 16, 1, "prop_data"); F(pl + 16, 4, "prop_data_len"); F(pl + plen - 1, 1, "prop_data"); } }
        else if (type == fourcc("DIRP")) { size_t p = pl; int k = 0;
            while (p + 13 <= pl + plen && k < 400) { F(p, 1, "dirp_entity"); F(p + 1, 4, "dirp_name_len"); size_t nl = (size_t)get_le(b, p + 1, 4); size_t q = p + 5 + nl;
                if (q + 4 > pl + plen) break; if (nl) F(p + 5, 1, "dirp_name_char"); F(q, 4, "dirp_type_len"); size_t tl = (size_t)get_le(b, q, 4); if (tl) F(q + 4, 1, "dirp_type_char"); q += 4 + tl;
                if (q + 4 > pl + plen) break; F(q, 4, "dirp_default_len"); size_t dl = (size_t)get_le(b, q, 4); if (dl) F(q + 4, 1, "dirp_default"); p = q + 4 + dl; ++k; } }
        L.hdr_regions.push_back({pos, 16 + std::min(sub, plen)});
        if (pad) F(pl + plen, 1, "padding_byte");
        L.chunks.push_back({pos, 16 + (size_t)flen, type});
        pos += 16 + (size_t)flen;
    }
    return L;
}

static uint64_t boundary_value(vh::Rng& r, uint64_t orig, int width, const Bytes& parent) {
    static const uint64_t t[] = {0, 1, 2, 3, 4, 6, 7, 8, 0x7f, 0x80, 0xff, 0x100, 0x101, 0x7fff, 0x8000, 0xffff, 0x10000, 0x10001,
        0x7fffffffull, 0x80000000ull, 0xffffffffull, 0x100000000ull, 0x7fffffffffffffffull, 0x8000000000000000ull, 0xffffffffffffffffull};
    uint64_t v;
    switch (r.below(8)) {
    case 0: v = orig + 1; break; case 1: v = orig - 1; break; case 2: v = orig * 2; break; case 3: v = orig + 8; break;
    case 4: v = get_le(parent, 16 + 8 * r.below(4), 8); break;        // one of the header counts
    case 5: v = orig ^ (1ull << r.below((uint64_t)width * 8)); break;
    default: v = t[r.below(sizeof t / sizeof t[0])]; }
    if (width < 8) v &= (1ull << (8 * width)) - 1;
    return v;
}

// one random mutant of `p` (other = a different valid file for splicing)
static std::vector<Edit> random_mutation(vh::Rng& r, const Bytes& p, const Layout& L, const Bytes& other, std::string& kind) {
    std::vector<Edit> es; size_t n = p.size();
    auto rnd_bytes = [&](size_t k) { Bytes b(k); for (auto& x : b) x = (uint8_t)r.next(); return b; };
    int pick = (int)r.below(100);
    if (pick < 45 && !L.fields.empty()) {                 // field-aware boundary value
        const Field& f = L.fields[r.below(L.fields.size())]; kind = std::string("field:") + f.name;
        uint64_t orig = get_le(p, f.off, f.width); uint64_t v = boundary_value(r, orig, f.width, p);
        Bytes ins; put_le(ins, v, f.width); es.push_back({f.off, (size_t)f.width, ins});
        if (r.chance(1, 6) && L.fields.size() > 1) {      // a second, consistent-looking field edit
            const Field& g = L.fields[r.below(L.fields.size())];
            if (g.off >= f.off + (size_t)f.width) { Bytes i2; put_le(i2, boundary_value(r, get_le(p, g.off, g.width), g.width, p), g.width); es.push_back({g.off, (size_t)g.width, i2}); kind += std::string("+") + g.name; }
        }
    } else if (pick < 52 && L.chunks.size() > 2) {
        // structure-aware pair: a chunk moved in front of an earlier one AND one of its sub-header fields / handles set to a
        // small or boundary value (a reader whose range checks lean on "what has been read so far" is only exposed when
        // the entities a chunk refers to arrive later)
        size_t i = 1 + r.below(L.chunks.size() - 1); const ChunkInfo& c = L.chunks[i];
        size_t j = r.below(i); const ChunkInfo& d = L.chunks[j];
        Bytes cb(p.begin() + c.off, p.begin() + c.off + c.len);
        std::vector<const Field*> in; for (auto& f : L.fields) if (f.off >= c.off + 16 && f.off + (size_t)f.width <= c.off + c.len) in.push_back(&f);
        kind = "chunk-move";
        if (!in.empty()) {
            const Field& f = *in[r.below(in.size())];
            uint64_t lim = 2 * std::max<uint64_t>(get_le(p, 16 + 8 * r.below(4), 8), 2) + 2;
            uint64_t v = r.chance(2, 3) ? r.below(lim) : boundary_value(r, get_le(p, f.off, f.width), f.width, p);
            Bytes ins; put_le(ins, v, f.width); std::copy(ins.begin(), ins.end(), cb.begin() + (f.off - c.off));
            kind += std::string("+") + f.name;
        }
        es.push_back({d.off, 0, cb}); es.push_back({c.off, c.len, Bytes()});
    } else if (pick < 55 && n) { kind = "flip"; size_t o = r.below(n); es.push_back({o, 1, Bytes{(uint8_t)(p[o] ^ (1u << r.below(8)))}}); }
    else if (pick < 62 && n) { kind = "setbyte"; size_t o = r.below(n); es.push_back({o, 1, Bytes{(uint8_t)r.next()}}); }
    else if (pick < 69) { kind = "insert"; es.push_back({r.below(n + 1), 0, rnd_bytes(1 + r.below(r.chance(1,2) ? 4 : 24))}); }
    else if (pick < 76 && n) { kind = "delete"; size_t o = r.below(n); es.push_back({o, 1 + r.below(std::min<size_t>(n - o, r.chance(1,2) ? 4 : 40)), Bytes()}); }
    else if (pick < 82 && n) { kind = "duplicate"; size_t o = r.below(n); size_t l = 1 + r.below(std::min<size_t>(n - o, 64)); es.push_back({o + l, 0, Bytes(p.begin() + o, p.begin() + o + l)}); }
    else if (pick < 88 && !other.empty() && n) { kind = "splice"; size_t o = r.below(n); size_t l = 1 + r.below(std::min<size_t>(n - o, 128));
        size_t so = r.below(other.size()); size_t sl = std::min<size_t>(other.size() - so, r.chance(1,2) ? l : 1 + r.below(128));
        es.push_back({o, l, Bytes(other.begin() + so, other.begin() + so + sl)}); }
    else if (pick < 94 && L.chunks.size() > 1) {          // chunk-level
        size_t i = r.below(L.chunks.size()); const ChunkInfo& c = L.chunks[i];
        switch (r.below(3)) {
        case 0: kind = "chunk-drop"; es.push_back({c.off, c.len, Bytes()}); break;
        case 1: kind = "chunk-dup"; es.push_back({c.off + c.len, 0, Bytes(p.begin() + c.off, p.begin() + c.off + c.len)}); break;
        default: { size_t j = r.below(L.chunks.size()); if (j == i) j = (i + 1) % L.chunks.size(); const ChunkInfo& d = L.chunks[j]; kind = "chunk-move";
            Bytes cb(p.begin() + c.off, p.begin() + c.off + c.len);
            if (d.off < c.off) { es.push_back({d.off, 0, cb}); es.push_back({c.off, c.len, Bytes()}); }
            else { es.push_back({c.off, c.len, Bytes()}); es.push_back({d.off + d.len, 0, cb}); } } }
    } else if (pick < 97 && n > 48) { kind = "random-behind-header"; es.push_back({48, n - 48, rnd_bytes(r.below(200))}); }
    else { kind = "random-behind-magic"; es.push_back({8, n > 8 ? n - 8 : 0, rnd_bytes(r.below(120))}); }
    return es;
}

static void emit_x(std::ostream& os, const std::string& id, const std::string& src, const ReadCfg& c, const std::string& kind, const std::vector<Edit>& es) {
    os << "X " << id << ' ' << src << ' ' << c.mk << ' ' << (c.tc ? 1 : 0) << ' ' << (c.bu ? 1 : 0) << ' ' << c.fail_at << ' ' << c.style << ' ' << kind << ' ' << edits_str(es) << '\n';
}
static std::string x_line(const std::string& id, const std::string& src, const ReadCfg& c, const std::string& kind, const std::vector<Edit>& es) {
    std::ostringstream os; emit_x(os, id, src, c, kind, es); return os.str();
}
static char compatible_kind(const Case& c, vh::Rng& r) {
    // the file's topo type decides which mesh types can read it; choose mostly compatible ones
    char tt = c.bytes.size() > 11 ? (c.bytes[11] == 1 ? 't' : c.bytes[11] == 2 ? 'h' : 'p') : 'p';
    if (r.chance(1, 10)) return "pth"[r.below(3)];
    if (tt == 'p') return 'p';
    return r.chance(1, 2) ? tt : 'p';
}

static int mode_mutate(const char* path, int n_per_file, int shard, int nshards, uint64_t seed) {
    auto cases = load_cases(path);
    std::vector<Case*> valid; for (auto& c : cases) if (!c.gc && c.wres == "Ok") valid.push_back(&c);
    std::vector<Job> jobs; std::vector<std::string> dumps(valid.size());
    for (size_t ci = 0; ci < valid.size(); ++ci) {
        if ((int)(ci % (size_t)nshards) != shard) continue;
        Case& c = *valid[ci]; Layout L = parse_layout(c.bytes);
        vh::Rng r(vh::mix(vh::mix(seed, 0xabcdef), std::hash<std::string>()(c.id) ^ 0x5151));
        int n = c.bytes.size() > 200000 ? std::max(10, n_per_file / 20) : n_per_file;
        for (int k = 0; k < n; ++k) {
            const Bytes& other = valid[r.below(valid.size())]->bytes;
            std::string kind; auto es = random_mutation(r, c.bytes, L, other.size() > 100000 ? c.bytes : other, kind);
            std::sort(es.begin(), es.end(), [](const Edit& a, const Edit& b) { return a.off < b.off; });
            Job j; j.id = c.id + ".m" + std::to_string(k); j.cfg.mk = compatible_kind(c, r); j.cfg.tc = r.chance(1, 2); j.cfg.bu = r.chance(1, 2);
            j.bytes = apply_edits(c.bytes, es); j.pre = x_line(j.id, c.id, j.cfg, kind, es); j.same_as = &c.dump;
            jobs.push_back(std::move(j));
        }
        // directed pairs (not random): every TOPO chunk moved in front of the preceding TOPO chunk, with its handle offset
        // set to each of a few values around the counts of the file (the entities it refers to then arrive later)
        if (c.bytes.size() <= 200000) {
            std::vector<size_t> topo; for (size_t i = 0; i < L.chunks.size(); ++i) if (L.chunks[i].type == fourcc("TOPO")) topo.push_back(i);
            int dk = 0;
            for (size_t t = 1; t < topo.size(); ++t) {
                const ChunkInfo& ch = L.chunks[topo[t]]; const ChunkInfo& prev = L.chunks[topo[t - 1]];
                if (ch.len < 16 + 24) continue;
                uint64_t nE = get_le(c.bytes, 24, 8), nF = get_le(c.bytes, 32, 8);
                for (uint64_t off : {uint64_t(0), uint64_t(1), uint64_t(2), uint64_t(3), 2 * nE - 1, 2 * nE, 2 * nF - 1, 2 * nF, 2 * nF + 1}) {
                    Bytes cb(c.bytes.begin() + ch.off, c.bytes.begin() + ch.off + ch.len);
                    Bytes ins; put_le(ins, off, 8); std::copy(ins.begin(), ins.end(), cb.begin() + 16 + 16);   // topo_handle_offset
                    std::vector<Edit> es = {{prev.off, 0, cb}, {ch.off, ch.len, Bytes()}};
                    Job j; j.id = c.id + ".d" + std::to_string(dk++); j.cfg.mk = compatible_kind(c, r); j.cfg.tc = (dk % 2) == 0; j.cfg.bu = (dk % 4) < 2;
                    j.bytes = apply_edits(c.bytes, es); j.pre = x_line(j.id, c.id, j.cfg, "directed:chunk-move+topo_handle_offset", es); j.same_as = &c.dump;
                    jobs.push_back(std::move(j));
                }
            }
        }
    }
    run_jobs(jobs, std::cout);
    return 0;
}

static int mode_faults(const char* path, bool thorough, int shard, int nshards, uint64_t seed) {
    auto cases = load_cases(path);
    std::vector<Case*> valid; for (auto& c : cases) if (!c.gc && c.wres == "Ok") valid.push_back(&c);
    for (size_t ci = 0; ci < valid.size(); ++ci) {
        if ((int)(ci % (size_t)nshards) != shard) continue;
        Case& c = *valid[ci]; const Bytes& p = c.bytes; Layout L = parse_layout(p);
        vh::Rng r(vh::mix(vh::mix(seed, 0xfa17), std::hash<std::string>()(c.id)));
        bool big = p.size() > (thorough ? 40000u : 1600u);
        const size_t CS = thorough ? 40 : 10, RS = thorough ? 24 : 8, STRIDE = thorough ? 300 : 60;
        std::vector<Job> jobs;
        char tt = p[11] == 1 ? 't' : p[11] == 2 ? 'h' : 'p';
        auto add = [&](const std::string& sub, const std::string& kind, std::vector<Edit> es, long fa = -1, int style = 0) {
            Job j; j.id = c.id + "." + sub; j.cfg.mk = tt; j.cfg.tc = false; j.cfg.bu = (jobs.size() % 2) == 0; j.cfg.fail_at = fa; j.cfg.style = style;
            if (jobs.size() % 3 == 1) j.cfg.mk = 'p';
            j.bytes = apply_edits(p, es); j.pre = x_line(j.id, c.id, j.cfg, kind, es); j.same_as = &c.dump; jobs.push_back(std::move(j)); };
        // every truncation length (big files: every length in all header regions +-2, plus a stride)
        std::set<size_t> lens;
        if (!big) for (size_t k = 0; k < p.size(); ++k) lens.insert(k);
        else { size_t nc = L.chunks.size(); size_t cstep = nc > CS ? nc / CS : 1;
               for (size_t ci2 = 0; ci2 < nc; ++ci2) { auto& ch = L.chunks[ci2]; bool fullc = ci2 < 6 || ci2 + 3 >= nc || ci2 % cstep == 0;
                   for (long d = fullc ? -3 : 0; d <= (fullc ? 20 : 0); ++d) { long k = (long)ch.off + d; if (k >= 0 && (size_t)k < p.size()) lens.insert((size_t)k); } }
               for (size_t k = 0; k < 64; ++k) lens.insert(k); for (size_t k = 0; k < p.size(); k += p.size() / STRIDE + 1) lens.insert(k); for (size_t k = p.size() > 40 ? p.size() - 40 : 0; k < p.size(); ++k) lens.insert(k); }
        std::cout << "FILE " << c.id << ' ' << p.size() << ' ' << (big ? "sampled" : "exhaustive") << ' ' << lens.size() << '\n';
        for (size_t k : lens) add("t" + std::to_string(k), "trunc", {{k, p.size() - k, Bytes()}});
        // every byte of file header / chunk headers / sub-headers x boundary values
        size_t nreg = L.hdr_regions.size(); size_t rstep = big && nreg > RS ? nreg / RS : 1;
        for (size_t ri = 0; ri < nreg; ++ri) { auto& reg = L.hdr_regions[ri];
          if (big && !(ri < 6 || ri + 2 >= nreg || ri % rstep == 0)) continue;
          for (size_t o = reg.first; o < reg.first + reg.second && o < p.size(); ++o) {
            uint8_t orig = p[o]; std::set<uint8_t> vals = {0, 1, 0x7f, 0x80, 0xff, (uint8_t)(orig + 1), (uint8_t)(orig - 1)};
            for (uint8_t v : vals) if (v != orig) add("s" + std::to_string(o) + "_" + std::to_string(v), "subst", {{o, 1, Bytes{v}}});
          } }
        // chunk drop / duplicate / adjacent swap
        for (size_t i = 0; i < L.chunks.size(); ++i) {
            auto& ch = L.chunks[i]; Bytes cb(p.begin() + ch.off, p.begin() + ch.off + ch.len);
            if (big && ch.len > 20000) continue;
            if (big && L.chunks.size() > 40 && !(i < 8 || i + 3 >= L.chunks.size() || i % (L.chunks.size() / 30) == 0)) continue;
            add("cd" + std::to_string(i), "chunk-drop", {{ch.off, ch.len, Bytes()}});
            add("cu" + std::to_string(i), "chunk-dup", {{ch.off + ch.len, 0, cb}});
            if (i + 1 < L.chunks.size()) { auto& nx = L.chunks[i + 1]; add("cs" + std::to_string(i), "chunk-swap", {{ch.off, ch.len, Bytes()}, {nx.off + nx.len, 0, cb}}); }
            if (i + 1 < L.chunks.size()) add("ce" + std::to_string(i), "chunk-to-end", {{ch.off, ch.len, Bytes()}, {p.size(), 0, cb}});
        }
        // read faults: the source starts failing at position q
        std::set<size_t> fps;
        if (!big) for (size_t q = 0; q < p.size(); ++q) fps.insert(q); else fps = lens;
        for (size_t q : fps) { add("r" + std::to_string(q), "readfault", {}, (long)q, 0); if (q % 5 == 0) add("rx" + std::to_string(q), "readfault-exc", {}, (long)q, 1); }
        run_jobs(jobs, std::cout);
        (void)r;
    }
    return 0;
}

// status_drv: StatusAttrib::garbage_collection (both overloads) on generated meshes, for C04.
// Public OpenVolumeMesh API only.  Every mutation of the mesh goes through `exec(Op)`, which
// writes the operation as a `G` line (replayable with --replay); the call under test is an `O`
// line, surrounded by canonical dumps of the whole observable state (format of kernel_drv,
// DESIGN.md Appendix A, plus the seven status properties as ordinary columns):
//
//   T status_drv seed=<s> kind=<poly|tet> trace=<n> cfg=<c>
//   G <op> <args...>                                   growth / deletion / mode / mark operations
//   B                                                  state before the call ...
//   <state lines>
//   E
//   O status_gc <overload> <manifold> <nv> v.. <nhe> h.. <nhf> hf.. <nc> c..
//   R <nv> v'.. <nhe> h'.. <nhf> hf'.. <nc> c'..       the tracked handles afterwards
//   <state lines>                                      state after the call
//   E
//   X <reason>                                         only if the child died
//
// overload 0 = garbage_collection(bool); 1 = the template with std::vector<Handle*>;
// 2 = the template with std::list<Handle*> (vertices, cells) / std::deque (halfedges, halffaces).
// Status token of an entity: deleted + 2*tagged + 4*selected + 8*hidden.
//
//   status_drv --kind poly|tet --seed S --first F --traces N --rounds R --size Z --out FILE [--replay TRACE]
#include "common.hh"
#include <OpenVolumeMesh/Mesh/PolyhedralMesh.hh>
#include <OpenVolumeMesh/Mesh/TetrahedralMesh.hh>
#include <OpenVolumeMesh/Attribs/StatusAttrib.hh>
#include <sys/wait.h>
#include <unistd.h>
#include <signal.h>
#include <deque>
#include <functional>
#include <list>
#include <map>
#include <memory>
#include <set>

using namespace OpenVolumeMesh;
using Vec3d = Geometry::Vec3d;
typedef GeometricPolyhedralMeshV3d PolyMesh;
typedef GeometricTetrahedralMeshV3d TetMesh;

static FILE* OUT = stdout;

// ---------------------------------------------------------------------------------------------
// property columns (tokens), as in kernel_drv
struct PropBase {
    std::string key; int kind; std::string type; long dflt;
    virtual ~PropBase() {}
    virtual size_t size() const = 0;
    virtual long get(size_t i) const = 0;
    virtual void set(size_t i, long tok) = 0;
};
template <class T> struct Tok;
template <> struct Tok<int> { static int enc(long t) { return (int)t; } static long dec(int v) { return v; } static const char* name() { return "int"; } };
template <> struct Tok<bool> { static bool enc(long t) { return (t & 1) != 0; } static long dec(bool v) { return v ? 1 : 0; } static const char* name() { return "bool"; } };
template <> struct Tok<double> { static double enc(long t) { return (double)t; } static long dec(double v) { return (long)v; } static const char* name() { return "double"; } };
template <> struct Tok<std::string> { static std::string enc(long t) { return std::to_string(t); } static long dec(const std::string& v) { return v.empty() ? -777 : atol(v.c_str()); } static const char* name() { return "string"; } };
template <> struct Tok<Vec3d> { static Vec3d enc(long t) { return Vec3d((double)t, 0, 0); } static long dec(const Vec3d& v) { return (long)v[0]; } static const char* name() { return "vec3d"; } };

template <class T, class Tag> struct PropBox : PropBase {
    PropertyPtr<T, Tag> p;
    explicit PropBox(PropertyPtr<T, Tag> pp) : p(std::move(pp)) {}
    size_t size() const override { return p.size(); }
    long get(size_t i) const override { return Tok<T>::dec(T(p.data_vector()[i])); }
    void set(size_t i, long tok) override { p[HandleT<Tag>((int)i)] = Tok<T>::enc(tok); }
};

static const char* KIND_NAMES[7] = {"v", "e", "he", "f", "hf", "c", "m"};

struct Op { std::string name; std::vector<long> a; };

static long status_tok(const OpenVolumeMeshStatus& s) { return (s.deleted() ? 1 : 0) + (s.tagged() ? 2 : 0) + (s.selected() ? 4 : 0) + (s.hidden() ? 8 : 0); }
static void status_set(OpenVolumeMeshStatus& s, long t) { s.set_deleted(t & 1); s.set_tagged((t & 2) != 0); s.set_selected((t & 4) != 0); s.set_hidden((t & 8) != 0); }

// ---------------------------------------------------------------------------------------------
struct Driver {
    TopologyKernel& m;
    std::string kind;       // poly | tet
    vh::Rng rng;
    std::unique_ptr<StatusAttrib> st;
    std::vector<std::unique_ptr<PropBase>> props;
    long next_tok = 100;
    int prop_counter = 0;

    Driver(TopologyKernel& mm, std::string k, uint64_t seed) : m(mm), kind(std::move(k)), rng(seed) {}

    int nV() const { return (int)m.n_vertices(); }
    int nE() const { return (int)m.n_edges(); }
    int nF() const { return (int)m.n_faces(); }
    int nC() const { return (int)m.n_cells(); }
    int nOf(int k4) const { return k4 == 0 ? nV() : k4 == 1 ? nE() : k4 == 2 ? nF() : nC(); }
    bool liveV(int v) const { return v >= 0 && v < nV() && !m.is_deleted(VertexHandle(v)); }
    bool liveE(int e) const { return e >= 0 && e < nE() && !m.is_deleted(EdgeHandle(e)); }
    bool liveF(int f) const { return f >= 0 && f < nF() && !m.is_deleted(FaceHandle(f)); }
    bool liveC(int c) const { return c >= 0 && c < nC() && !m.is_deleted(CellHandle(c)); }
    bool liveHF(int h) const { return h >= 0 && liveF(h / 2); }
    std::vector<int> live(int k4) const {
        std::vector<int> r;
        for (int i = 0; i < nOf(k4); ++i) {
            bool l = k4 == 0 ? liveV(i) : k4 == 1 ? liveE(i) : k4 == 2 ? liveF(i) : liveC(i);
            if (l) r.push_back(i);
        }
        return r;
    }
    int from(int he) const { return m.halfedge(HalfEdgeHandle(he)).from_vertex().idx(); }
    std::vector<int> hf_hes(int hf) const { std::vector<int> r; for (auto h : m.halfface(HalfFaceHandle(hf)).halfedges()) r.push_back(h.idx()); return r; }
    std::vector<int> hf_verts(int hf) const { std::vector<int> r; for (int h : hf_hes(hf)) r.push_back(from(h)); return r; }
    bool hf_in_live_cell(int hf) const {
        for (int c = 0; c < nC(); ++c) {
            if (!liveC(c)) continue;
            for (auto h : m.cell(CellHandle(c)).halffaces()) if (h.idx() == hf) return true;
        }
        return false;
    }
    int find_hf_by_verts(const std::vector<int>& vs) const {
        size_t n = vs.size();
        for (int hf = 0; hf < 2 * nF(); ++hf) {
            if (!liveHF(hf)) continue;
            std::vector<int> w = hf_verts(hf);
            if (w.size() != n) continue;
            for (size_t r = 0; r < n; ++r) {
                bool ok = true;
                for (size_t i = 0; i < n && ok; ++i) ok = w[(i + r) % n] == vs[i];
                if (ok) return hf;
            }
        }
        return -1;
    }

    // ---------------- output
    void dump_status_col(const char* kname, const char* key, size_t n, const std::function<long(int)>& get) {
        fprintf(OUT, "p %s %s status 0 %zu", kname, key, n);
        for (size_t i = 0; i < n; ++i) fprintf(OUT, " %ld", get((int)i));
        fputc('\n', OUT);
    }
    void dump() {
        const TopologyKernel& k = m;
        fprintf(OUT, "n %zu %zu %zu %zu l %zu %zu %zu %zu gc %d genus %d\n", k.n_vertices(), k.n_edges(), k.n_faces(), k.n_cells(),
                k.n_logical_vertices(), k.n_logical_edges(), k.n_logical_faces(), k.n_logical_cells(), k.needs_garbage_collection() ? 1 : 0, k.genus());
        fprintf(OUT, "m %d %d %d %d %d\n", k.deferred_deletion_enabled(), k.fast_deletion_enabled(),
                k.has_vertex_bottom_up_incidences(), k.has_edge_bottom_up_incidences(), k.has_face_bottom_up_incidences());
        fprintf(OUT, "vd %zu", k.n_vertices());
        for (size_t v = 0; v < k.n_vertices(); ++v) fprintf(OUT, " %d", k.is_deleted(VertexHandle((int)v)) ? 1 : 0);
        fputc('\n', OUT);
        for (size_t e = 0; e < k.n_edges(); ++e) {
            auto ed = k.edge(EdgeHandle((int)e));
            fprintf(OUT, "e %zu %d %d %d\n", e, ed.from_vertex().idx(), ed.to_vertex().idx(), k.is_deleted(EdgeHandle((int)e)) ? 1 : 0);
        }
        for (size_t f = 0; f < k.n_faces(); ++f) {
            const auto& hes = k.face(FaceHandle((int)f)).halfedges();
            fprintf(OUT, "f %zu %d %zu", f, k.is_deleted(FaceHandle((int)f)) ? 1 : 0, hes.size());
            for (auto h : hes) fprintf(OUT, " %d", h.idx());
            fputc('\n', OUT);
        }
        for (size_t c = 0; c < k.n_cells(); ++c) {
            const auto& hfs = k.cell(CellHandle((int)c)).halffaces();
            fprintf(OUT, "c %zu %d %zu", c, k.is_deleted(CellHandle((int)c)) ? 1 : 0, hfs.size());
            for (auto h : hfs) fprintf(OUT, " %d", h.idx());
            fputc('\n', OUT);
        }
        if (k.has_vertex_bottom_up_incidences())
            for (size_t v = 0; v < k.n_vertices(); ++v) {
                std::vector<int> l;
                for (auto it = k.voh_iter(VertexHandle((int)v)); it.valid(); ++it) l.push_back(it->idx());
                fprintf(OUT, "ov %zu %zu", v, l.size());
                for (int x : l) fprintf(OUT, " %d", x);
                fputc('\n', OUT);
            }
        if (k.has_edge_bottom_up_incidences())
            for (size_t h = 0; h < k.n_halfedges(); ++h) {
                std::vector<int> l;
                for (auto it = k.hehf_iter(HalfEdgeHandle((int)h)); it.valid(); ++it) l.push_back(it->idx());
                fprintf(OUT, "ih %zu %zu", h, l.size());
                for (int x : l) fprintf(OUT, " %d", x);
                fputc('\n', OUT);
            }
        if (k.has_face_bottom_up_incidences())
            for (size_t h = 0; h < k.n_halffaces(); ++h)
                fprintf(OUT, "ic %zu %d\n", h, k.incident_cell(HalfFaceHandle((int)h)).idx());
        for (const auto& p : props) {
            fprintf(OUT, "p %s %s %s %ld %zu", KIND_NAMES[p->kind], p->key.c_str(), p->type.c_str(), p->dflt, p->size());
            for (size_t i = 0; i < p->size(); ++i) fprintf(OUT, " %ld", p->get(i));
            fputc('\n', OUT);
        }
        if (st) {
            const StatusAttrib& s = *st;
            dump_status_col("v", "vertex_status", k.n_vertices(), [&](int i) { return status_tok(s[VertexHandle(i)]); });
            dump_status_col("e", "edge_status", k.n_edges(), [&](int i) { return status_tok(s[EdgeHandle(i)]); });
            dump_status_col("he", "halfedge_status", k.n_halfedges(), [&](int i) { return status_tok(s[HalfEdgeHandle(i)]); });
            dump_status_col("f", "face_status", k.n_faces(), [&](int i) { return status_tok(s[FaceHandle(i)]); });
            dump_status_col("hf", "halfface_status", k.n_halffaces(), [&](int i) { return status_tok(s[HalfFaceHandle(i)]); });
            dump_status_col("c", "cell_status", k.n_cells(), [&](int i) { return status_tok(s[CellHandle(i)]); });
            dump_status_col("m", "mesh_status", 1, [&](int) { return status_tok(s.mesh_status()); });
        }
    }

    // ---------------- properties
    template <class T, class Tag> void mk_prop_on(int kindIdx, const std::string& key, long dflt) {
        std::unique_ptr<PropBox<T, Tag>> b(new PropBox<T, Tag>(m.template create_private_property<T, Tag>(key, Tok<T>::enc(dflt))));
        b->key = key; b->kind = kindIdx; b->type = Tok<T>::name(); b->dflt = Tok<T>::dec(Tok<T>::enc(dflt));
        props.push_back(std::move(b));
    }
    template <class T> void mk_prop_kind(int kindIdx, const std::string& key, long dflt) {
        switch (kindIdx) {
        case 0: mk_prop_on<T, Entity::Vertex>(kindIdx, key, dflt); break;
        case 1: mk_prop_on<T, Entity::Edge>(kindIdx, key, dflt); break;
        case 2: mk_prop_on<T, Entity::HalfEdge>(kindIdx, key, dflt); break;
        case 3: mk_prop_on<T, Entity::Face>(kindIdx, key, dflt); break;
        case 4: mk_prop_on<T, Entity::HalfFace>(kindIdx, key, dflt); break;
        case 5: mk_prop_on<T, Entity::Cell>(kindIdx, key, dflt); break;
        default: mk_prop_on<T, Entity::Mesh>(kindIdx, key, dflt); break;
        }
    }
    void mk_prop(int kindIdx, int typeIdx, const std::string& key, long dflt) {
        switch (typeIdx) {
        case 0: mk_prop_kind<int>(kindIdx, key, dflt); break;
        case 1: mk_prop_kind<bool>(kindIdx, key, dflt); break;
        case 2: mk_prop_kind<double>(kindIdx, key, dflt); break;
        case 3: mk_prop_kind<std::string>(kindIdx, key, dflt); break;
        default: mk_prop_kind<Vec3d>(kindIdx, key, dflt); break;
        }
    }
    void make_id_columns() {
        static const int kinds[4] = {0, 1, 3, 5};
        static const char* keys[4] = {"idv", "ide", "idf", "idc"};
        for (int i = 0; i < 4; ++i) mk_prop(kinds[i], 0, keys[i], 0);
    }
    // every slot that still holds the default gets a fresh token (bool columns store its parity)
    void retoken() {
        for (auto& p : props) for (size_t i = 0; i < p->size(); ++i) if (p->get(i) == p->dflt) { p->set(i, next_tok); next_tok += 1; }
    }

    // ---------------- the call under test
    struct Tracked { std::vector<VertexHandle> v; std::vector<HalfEdgeHandle> he; std::vector<HalfFaceHandle> hf; std::vector<CellHandle> c; };
    void print_tracked(const char* tag, const Tracked& t) {
        fprintf(OUT, "%s %zu", tag, t.v.size()); for (auto h : t.v) fprintf(OUT, " %d", h.idx());
        fprintf(OUT, " %zu", t.he.size()); for (auto h : t.he) fprintf(OUT, " %d", h.idx());
        fprintf(OUT, " %zu", t.hf.size()); for (auto h : t.hf) fprintf(OUT, " %d", h.idx());
        fprintf(OUT, " %zu", t.c.size()); for (auto h : t.c) fprintf(OUT, " %d", h.idx());
        fputc('\n', OUT);
    }
    void status_gc(const Op& op) {
        const auto& a = op.a;
        size_t i = 0;
        long overload = a[i++], manifold = a[i++];
        Tracked t;
        long n = a[i++]; for (long j = 0; j < n; ++j) t.v.push_back(VertexHandle((int)a[i++]));
        n = a[i++]; for (long j = 0; j < n; ++j) t.he.push_back(HalfEdgeHandle((int)a[i++]));
        n = a[i++]; for (long j = 0; j < n; ++j) t.hf.push_back(HalfFaceHandle((int)a[i++]));
        n = a[i++]; for (long j = 0; j < n; ++j) t.c.push_back(CellHandle((int)a[i++]));
        fputs("B\n", OUT); dump(); fputs("E\n", OUT);
        fprintf(OUT, "O status_gc"); for (long x : a) fprintf(OUT, " %ld", x); fputc('\n', OUT);
        fflush(OUT);
        if (overload == 0) {
            st->garbage_collection(manifold != 0);
        } else if (overload == 1) {
            std::vector<VertexHandle*> pv; std::vector<HalfEdgeHandle*> phe; std::vector<HalfFaceHandle*> phf; std::vector<CellHandle*> pc;
            for (auto& h : t.v) pv.push_back(&h); for (auto& h : t.he) phe.push_back(&h);
            for (auto& h : t.hf) phf.push_back(&h); for (auto& h : t.c) pc.push_back(&h);
            st->garbage_collection(pv, phe, phf, pc, manifold != 0);
        } else {
            std::list<VertexHandle*> pv; std::deque<HalfEdgeHandle*> phe; std::deque<HalfFaceHandle*> phf; std::list<CellHandle*> pc;
            for (auto& h : t.v) pv.push_back(&h); for (auto& h : t.he) phe.push_back(&h);
            for (auto& h : t.hf) phf.push_back(&h); for (auto& h : t.c) pc.push_back(&h);
            st->garbage_collection(pv, phe, phf, pc, manifold != 0);
        }
        print_tracked("R", t);
        dump();
        fputs("E\n", OUT);
        fflush(OUT);
    }

    // ---------------- operation execution (generation and replay both go through exec)
    void exec(const Op& op) {
        const auto& a = op.a;
        const std::string& n = op.name;
        if (n == "status_gc") { status_gc(op); return; }
        fprintf(OUT, "G %s", n.c_str()); for (long x : a) fprintf(OUT, " %ld", x); fputc('\n', OUT);
        fflush(OUT);
        TopologyKernel& k = m;
        if (n == "add_vertex") k.add_vertex();
        else if (n == "add_edge") k.add_edge(VertexHandle((int)a[0]), VertexHandle((int)a[1]), a[2] != 0);
        else if (n == "add_face_v") { std::vector<VertexHandle> vs; for (size_t i = 1; i < a.size(); ++i) vs.push_back(VertexHandle((int)a[i])); k.add_face(vs); }
        else if (n == "add_cell") { std::vector<HalfFaceHandle> hs; for (size_t i = 2; i < a.size(); ++i) hs.push_back(HalfFaceHandle((int)a[i])); k.add_cell(hs, a[0] != 0); }
        else if (n == "delete_vertex") k.delete_vertex(VertexHandle((int)a[0]));
        else if (n == "delete_edge") k.delete_edge(EdgeHandle((int)a[0]));
        else if (n == "delete_face") k.delete_face(FaceHandle((int)a[0]));
        else if (n == "delete_cell") k.delete_cell(CellHandle((int)a[0]));
        else if (n == "swap_vertex") k.swap_vertex_indices(VertexHandle((int)a[0]), VertexHandle((int)a[1]));
        else if (n == "swap_edge") k.swap_edge_indices(EdgeHandle((int)a[0]), EdgeHandle((int)a[1]));
        else if (n == "swap_face") k.swap_face_indices(FaceHandle((int)a[0]), FaceHandle((int)a[1]));
        else if (n == "swap_cell") k.swap_cell_indices(CellHandle((int)a[0]), CellHandle((int)a[1]));
        else if (n == "collect_garbage") k.collect_garbage();
        else if (n == "enable_deferred") k.enable_deferred_deletion(a[0] != 0);
        else if (n == "enable_fast") k.enable_fast_deletion(a[0] != 0);
        else if (n == "enable_bu") {
            if (a[0] == 0) k.enable_vertex_bottom_up_incidences(a[1] != 0);
            else if (a[0] == 1) k.enable_edge_bottom_up_incidences(a[1] != 0);
            else k.enable_face_bottom_up_incidences(a[1] != 0);
        }
        else if (n == "prop_new") { std::string key = "p" + std::to_string(prop_counter++) + "_" + KIND_NAMES[a[0]]; mk_prop((int)a[0], (int)a[1], key, a[2]); }
        else if (n == "retoken") retoken();
        else if (n == "status_new") st.reset(new StatusAttrib(m));
        else if (n == "status_drop") st.reset();
        else if (n == "mark") {        // kind(0..6) index token
            StatusAttrib& s = *st;
            int i = (int)a[1];
            switch (a[0]) {
            case 0: status_set(s[VertexHandle(i)], a[2]); break;
            case 1: status_set(s[EdgeHandle(i)], a[2]); break;
            case 2: status_set(s[HalfEdgeHandle(i)], a[2]); break;
            case 3: status_set(s[FaceHandle(i)], a[2]); break;
            case 4: status_set(s[HalfFaceHandle(i)], a[2]); break;
            case 5: status_set(s[CellHandle(i)], a[2]); break;
            default: status_set(s.mesh_status(), a[2]); break;
            }
        }
        else { fprintf(stderr, "unknown op %s\n", n.c_str()); exit(4); }
    }
    Op mk(const std::string& n, std::initializer_list<long> a) { return Op{n, std::vector<long>(a)}; }

    // ---------------- generation (growth as in kernel_drv: glued tets, hexes, prisms, pyramids, dangling things)
    int fresh_vertex() { exec(mk("add_vertex", {})); return nV() - 1; }
    int ensure_hf(const std::vector<int>& vs) {
        int hf = find_hf_by_verts(vs);
        if (hf >= 0) return hf_in_live_cell(hf) ? -1 : hf;
        std::vector<int> rv(vs.rbegin(), vs.rend());
        int ohf = find_hf_by_verts(rv);
        if (ohf >= 0) return hf_in_live_cell(ohf ^ 1) ? -1 : (ohf ^ 1);
        std::set<int> uniq(vs.begin(), vs.end());
        if (uniq.size() != vs.size()) return -1;
        for (int v : vs) if (!liveV(v)) return -1;
        Op op; op.name = "add_face_v"; op.a.push_back((long)vs.size()); for (int v : vs) op.a.push_back(v);
        int before = nF();
        exec(op);
        if (nF() != before + 1) return -1;
        return find_hf_by_verts(vs);
    }
    bool add_polyhedron(const std::vector<std::vector<int>>& faces) {
        std::vector<long> hfs;
        for (const auto& f : faces) { int hf = ensure_hf(f); if (hf < 0) return false; hfs.push_back(hf); }
        std::set<long> uniq(hfs.begin(), hfs.end());
        if (uniq.size() != hfs.size()) return false;
        if (rng.chance(1, 3)) rng.shuffle(hfs);
        Op op; op.name = "add_cell"; op.a.push_back(rng.chance(1, 2) ? 1 : 0); op.a.push_back((long)hfs.size()); for (long h : hfs) op.a.push_back(h);
        exec(op);
        return true;
    }
    std::vector<std::vector<int>> tet_faces(int a, int b, int c, int d) { return {{a, b, c}, {a, d, b}, {b, d, c}, {a, c, d}}; }
    std::vector<std::vector<int>> hex_faces(const std::vector<int>& v) {
        return {{v[0], v[1], v[2], v[3]}, {v[7], v[6], v[5], v[4]}, {v[0], v[4], v[5], v[1]}, {v[1], v[5], v[6], v[2]}, {v[2], v[6], v[7], v[3]}, {v[3], v[7], v[4], v[0]}};
    }
    std::vector<std::vector<int>> prism_faces(const std::vector<int>& v) {
        return {{v[0], v[1], v[2]}, {v[5], v[4], v[3]}, {v[0], v[3], v[4], v[1]}, {v[1], v[4], v[5], v[2]}, {v[2], v[5], v[3], v[0]}};
    }
    std::vector<std::vector<int>> pyramid_faces(const std::vector<int>& v) {
        return {{v[0], v[1], v[2], v[3]}, {v[1], v[0], v[4]}, {v[2], v[1], v[4]}, {v[3], v[2], v[4]}, {v[0], v[3], v[4]}};
    }
    std::vector<int> free_hfs() { std::vector<int> r; for (int h = 0; h < 2 * nF(); ++h) if (liveHF(h) && !hf_in_live_cell(h)) r.push_back(h); return r; }

    void grow() {
        std::vector<int> lv = live(0);
        int mode = (int)rng.below(12);
        if (mode < 6) {
            std::vector<int> fr = free_hfs();
            std::vector<int> tri; for (int h : fr) if (hf_hes(h).size() == 3) tri.push_back(h);
            if (!tri.empty() && rng.chance(4, 5)) {
                int hf = rng.pick(tri);
                std::vector<int> w = hf_verts(hf);
                int apex;
                if (!lv.empty() && rng.chance(1, 3)) { apex = rng.pick(lv); if (apex == w[0] || apex == w[1] || apex == w[2]) apex = fresh_vertex(); }
                else apex = fresh_vertex();
                add_polyhedron(tet_faces(w[0], w[1], w[2], apex));
                return;
            }
            int a = fresh_vertex(), b = fresh_vertex(), c = fresh_vertex(), d = fresh_vertex();
            add_polyhedron(tet_faces(a, b, c, d));
            return;
        }
        if (mode < 9) {
            if (kind == "tet") { int a = fresh_vertex(), b = fresh_vertex(), c = fresh_vertex(), d = fresh_vertex(); add_polyhedron(tet_faces(a, b, c, d)); return; }
            if (mode == 6) { std::vector<int> v; for (int i = 0; i < 8; ++i) v.push_back(fresh_vertex()); add_polyhedron(hex_faces(v)); return; }
            if (mode == 7) { std::vector<int> v; for (int i = 0; i < 6; ++i) v.push_back(fresh_vertex()); add_polyhedron(prism_faces(v)); return; }
            std::vector<int> fr = free_hfs(); std::vector<int> quad; for (int h : fr) if (hf_hes(h).size() == 4) quad.push_back(h);
            std::vector<int> v;
            if (!quad.empty()) { v = hf_verts(rng.pick(quad)); } else { for (int i = 0; i < 4; ++i) v.push_back(fresh_vertex()); }
            v.push_back(fresh_vertex());
            add_polyhedron(pyramid_faces(v));
            return;
        }
        // things that bound no cell: isolated vertex, dangling edge (also to a new vertex), duplicate edge, dangling face
        int what = (int)rng.below(5);
        if (what == 0) { fresh_vertex(); return; }
        if (what == 1 && !lv.empty()) { int a = rng.pick(lv); int b = fresh_vertex(); exec(mk("add_edge", {a, b, 0})); return; }
        if (lv.size() >= 2 && what <= 3) {
            int a = rng.pick(lv), b = rng.pick(lv);
            if (a == b) return;
            exec(mk("add_edge", {a, b, what == 3 ? 1 : 0}));
            return;
        }
        if (lv.size() >= 3) {
            std::vector<int> vs = lv; rng.shuffle(vs); vs.resize(std::min<size_t>(vs.size(), kind == "tet" ? 3 : 3 + rng.below(3)));
            Op op; op.name = "add_face_v"; op.a.push_back((long)vs.size()); for (int v : vs) op.a.push_back(v);
            exec(op);
        }
    }
    void gen_delete() {
        int k = (int)rng.below(10);
        int k4 = k < 2 ? 0 : k < 4 ? 1 : k < 7 ? 2 : 3;
        std::vector<int> l = live(k4);
        if (l.empty()) return;
        int pos = (int)rng.below(4);
        int x = pos == 0 ? l.front() : pos == 1 ? l.back() : rng.pick(l);
        static const char* names[4] = {"delete_vertex", "delete_edge", "delete_face", "delete_cell"};
        exec(mk(names[k4], {x}));
    }
    void gen_swap() {
        int k4 = (int)rng.below(4);
        int n = nOf(k4);
        if (n < 1) return;
        int a = (int)rng.below((uint64_t)n), b = (int)rng.below((uint64_t)n);
        if (rng.chance(1, 4)) b = n - 1;
        static const char* names[4] = {"swap_vertex", "swap_edge", "swap_face", "swap_cell"};
        exec(mk(names[k4], {a, b}));
    }
    // marks: an intensity per round (nothing / a single entity / sparse / medium / one kind wholesale), spread over the
    // four kinds; also on entities that are already deleted; other status bits are set independently
    void gen_marks() {
        static const int kinds6[4] = {0, 1, 3, 5};
        int intensity = (int)rng.below(12);    // 0 nothing, 1-3 single, 4-7 sparse, 8-9 medium, 10 one kind wholesale, 11 dense
        int whole = (int)rng.below(4);
        for (int k4 = 0; k4 < 4; ++k4) {
            int n = nOf(k4);
            if (n == 0) continue;
            // a vertex / edge drags its whole upward closure along: mark those more sparingly
            int den = k4 == 0 ? 14 : k4 == 1 ? 18 : k4 == 2 ? 10 : 5;
            for (int i = 0; i < n; ++i) {
                bool d = false;
                if (intensity >= 4 && intensity <= 7) d = rng.chance(1, den);
                else if (intensity == 8 || intensity == 9) d = rng.chance(2, den);
                else if (intensity == 10) d = (k4 == whole);
                else if (intensity == 11) d = rng.chance(1, 2);
                long other = rng.chance(1, 5) ? (long)rng.below(8) * 2 : 0;   // tagged / selected / hidden bits
                if (d || other) exec(mk("mark", {kinds6[k4], i, (d ? 1 : 0) + other}));
            }
        }
        if (intensity >= 1 && intensity <= 3) {
            int k4 = (int)rng.below(4);
            if (k4 < 2 && rng.chance(1, 2)) k4 += 2;
            if (nOf(k4) > 0) exec(mk("mark", {kinds6[k4], (long)rng.below((uint64_t)nOf(k4)), 1}));
        }
        // halfedge / halfface / mesh status (not consulted by garbage_collection; values must be carried)
        if (rng.chance(1, 3)) {
            for (int i = 0; i < 2 * nE(); ++i) if (rng.chance(1, 6)) exec(mk("mark", {2, i, (long)rng.below(16)}));
            for (int i = 0; i < 2 * nF(); ++i) if (rng.chance(1, 6)) exec(mk("mark", {4, i, (long)rng.below(16)}));
            if (rng.chance(1, 2)) exec(mk("mark", {6, 0, (long)rng.below(16)}));
        }
    }
    void gen_tracked(Op& op) {
        // per kind: empty, or 1..8 handles drawn from [-1, n) (live, pending-deleted, to-be-removed, invalid, duplicates)
        int ns[4] = {nV(), 2 * nE(), 2 * nF(), nC()};
        bool any = !rng.chance(1, 6);
        for (int k = 0; k < 4; ++k) {
            std::vector<long> l;
            if (any && rng.chance(2, 3)) {
                int cnt = 1 + (int)rng.below(8);
                if (rng.chance(1, 8)) cnt = ns[k] + 2;          // more handles than entities: every entity several times
                for (int j = 0; j < cnt; ++j) {
                    if (ns[k] == 0 || rng.chance(1, 8)) l.push_back(-1);
                    else if (rng.chance(1, 6) && !l.empty()) l.push_back(l[rng.below(l.size())]);
                    else l.push_back((long)rng.below((uint64_t)ns[k]));
                }
            }
            op.a.push_back((long)l.size());
            for (long x : l) op.a.push_back(x);
        }
    }
    void round(int size) {
        if (!st) exec(mk("status_new", {}));
        int g = 1 + (int)rng.below((uint64_t)size);
        for (int i = 0; i < g; ++i) grow();
        if (rng.chance(1, 4)) exec(mk("prop_new", {(long)rng.below(7), (long)rng.below(5), (long)rng.below(3)}));
        // mode changes before the deletions (so that pending deletions stay pending when deferred mode is on)
        if (rng.chance(1, 4)) exec(mk("enable_deferred", {(long)rng.below(2)}));
        if (rng.chance(1, 4)) exec(mk("enable_fast", {(long)rng.below(2)}));
        if (rng.chance(1, 3)) exec(mk("enable_bu", {(long)rng.below(3), (long)rng.below(2)}));
        int nd = (int)rng.below(4);
        for (int i = 0; i < nd; ++i) gen_delete();
        if (rng.chance(1, 5)) { int ns = 1 + (int)rng.below(3); for (int i = 0; i < ns; ++i) gen_swap(); }
        if (rng.chance(1, 6)) exec(mk("enable_bu", {(long)rng.below(3), (long)rng.below(2)}));
        if (rng.chance(1, 12)) { exec(mk("status_drop", {})); exec(mk("status_new", {})); }
        exec(mk("retoken", {}));
        gen_marks();
        Op op; op.name = "status_gc";
        long overload = (long)rng.below(5); overload = overload == 0 ? 0 : overload <= 3 ? 1 : 2;
        op.a.push_back(overload);
        op.a.push_back((long)rng.below(2));
        if (overload == 0) { for (int k = 0; k < 4; ++k) op.a.push_back(0); }
        else gen_tracked(op);
        exec(op);
    }
};

// ---------------------------------------------------------------------------------------------
static void init_mesh(Driver& d, uint64_t cfg) {
    d.m.enable_deferred_deletion((cfg & 1) != 0);
    d.m.enable_fast_deletion((cfg & 2) != 0);
    d.m.enable_vertex_bottom_up_incidences((cfg & 4) == 0);
    d.m.enable_edge_bottom_up_incidences((cfg & 8) == 0);
    d.m.enable_face_bottom_up_incidences((cfg & 16) == 0);
}

template <class Mesh> static void run_trace(const std::string& kind, uint64_t seed, int trace, int rounds, int size, const char* replay) {
    Mesh mesh;
    Driver d(mesh, kind, vh::mix(seed, (uint64_t)trace));
    if (replay) {
        FILE* f = fopen(replay, "r");
        if (!f) { perror("replay"); exit(3); }
        char* line = nullptr; size_t cap = 0;
        bool started = false;
        while (getline(&line, &cap, f) > 0) {
            std::istringstream is(line);
            std::string tag; is >> tag;
            if (tag == "T" && !started) {
                std::string w; uint64_t cfg = 0;
                while (is >> w) { if (w.rfind("cfg=", 0) == 0) cfg = strtoull(w.c_str() + 4, 0, 10); }
                fprintf(OUT, "T status_drv seed=%llu kind=%s trace=%d cfg=%llu\n", (unsigned long long)seed, kind.c_str(), trace, (unsigned long long)cfg);
                init_mesh(d, cfg); d.make_id_columns(); started = true; continue;
            }
            if (tag != "G" && tag != "O") continue;
            if (!started) { fprintf(OUT, "T status_drv seed=%llu kind=%s trace=%d cfg=0\n", (unsigned long long)seed, kind.c_str(), trace); init_mesh(d, 0); d.make_id_columns(); started = true; }
            Op op; is >> op.name; long x; while (is >> x) op.a.push_back(x);
            d.exec(op);
        }
        fclose(f);
        return;
    }
    uint64_t cfg = (uint64_t)trace % 32;
    fprintf(OUT, "T status_drv seed=%llu kind=%s trace=%d cfg=%llu\n", (unsigned long long)seed, kind.c_str(), trace, (unsigned long long)cfg);
    init_mesh(d, cfg);
    d.make_id_columns();
    if (d.rng.chance(1, 2)) d.exec(d.mk("status_new", {}));     // status properties created before / after the entities
    int np = (int)d.rng.below(3);
    for (int i = 0; i < np; ++i) d.exec(d.mk("prop_new", {(long)d.rng.below(7), (long)d.rng.below(5), (long)d.rng.below(3)}));
    for (int r = 0; r < rounds; ++r) d.round(r == 0 ? size : std::max(2, size / 2));
}

int main(int argc, char** argv) {
    std::string kind = "poly", out;
    uint64_t seed = vh::env_seed();
    int traces = 10, rounds = 3, size = 8, first = 0;
    const char* replay = nullptr;
    for (int i = 1; i < argc; ++i) {
        std::string a = argv[i];
        if (a == "--kind") kind = argv[++i]; else if (a == "--seed") seed = strtoull(argv[++i], 0, 10);
        else if (a == "--traces") traces = atoi(argv[++i]); else if (a == "--rounds") rounds = atoi(argv[++i]); else if (a == "--size") size = atoi(argv[++i]);
        else if (a == "--out") out = argv[++i]; else if (a == "--replay") replay = argv[++i]; else if (a == "--first") first = atoi(argv[++i]);
        else { fprintf(stderr, "unknown arg %s\n", a.c_str()); return 2; }
    }
    if (!out.empty()) { OUT = fopen(out.c_str(), "w"); if (!OUT) { perror("out"); return 2; } }
    if (replay) {
        traces = 1;
        // the mesh type is taken from the header of the trace that is replayed
        FILE* f = fopen(replay, "r");
        if (!f) { perror("replay"); return 3; }
        char* line = nullptr; size_t cap = 0;
        while (getline(&line, &cap, f) > 0) {
            if (line[0] != 'T') continue;
            if (strstr(line, "kind=tet")) kind = "tet"; else if (strstr(line, "kind=poly")) kind = "poly";
            const char* t = strstr(line, "trace="); if (t) first = atoi(t + 6);
            break;
        }
        free(line);
        fclose(f);
    }
    for (int t = first; t < first + traces; ++t) {
        fflush(OUT);
        pid_t pid = fork();
        if (pid == 0) {
            alarm(60);
            if (kind == "tet") run_trace<TetMesh>(kind, seed, t, rounds, size, replay);
            else run_trace<PolyMesh>(kind, seed, t, rounds, size, replay);
            fflush(OUT);
            _exit(0);
        }
        int stt = 0;
        waitpid(pid, &stt, 0);
        if (WIFSIGNALED(stt)) fprintf(OUT, "\nX signal %d\n", WTERMSIG(stt));
        else if (WIFEXITED(stt) && WEXITSTATUS(stt) != 0) fprintf(OUT, "\nX exit %d\n", WEXITSTATUS(stt));
        fflush(OUT);
    }
    if (OUT != stdout) fclose(OUT);
    return 0;
}

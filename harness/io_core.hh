// io_core.hh -- shared part of the OVMB drivers (io_drv.cc): codec table, canonical value
// serialisation (independent of OVM's Encoder), canonical mesh dump, in-memory streams with
// fault injection, reading/writing through the real public API.  Public OVM API only.
#pragma once
#include "common.hh"
#include <OpenVolumeMesh/IO/ovmb_read.hh>
#include <OpenVolumeMesh/IO/ovmb_write.hh>
#include <OpenVolumeMesh/Mesh/PolyhedralMesh.hh>
#include <OpenVolumeMesh/Mesh/TetrahedralMesh.hh>
#include <OpenVolumeMesh/Mesh/HexahedralMesh.hh>
#include <OpenVolumeMesh/Core/detail/internal_type_name.hh>
#include <map>
#include <set>
#include <functional>
#include <streambuf>
#include <type_traits>

namespace io {
using namespace OpenVolumeMesh;
using Bytes = std::vector<uint8_t>;
using PM = GeometricPolyhedralMeshV3d;
using TM = GeometricTetrahedralMeshV3d;
using HM = GeometricHexahedralMeshV3d;

inline std::string hex(const uint8_t* p, size_t n) {
    static const char* d = "0123456789abcdef";
    std::string s; s.resize(2 * n);
    for (size_t i = 0; i < n; ++i) { s[2*i] = d[p[i] >> 4]; s[2*i+1] = d[p[i] & 15]; }
    return s;
}
inline std::string hex(const Bytes& b) { return b.empty() ? std::string("-") : hex(b.data(), b.size()); }
inline int hv(char c) { return c <= '9' ? c - '0' : (c | 32) - 'a' + 10; }
inline Bytes unhex(const std::string& s) {
    Bytes b; if (s == "-") return b;
    b.reserve(s.size() / 2);
    for (size_t i = 0; i + 1 < s.size(); i += 2) b.push_back((uint8_t)(hv(s[i]) * 16 + hv(s[i+1])));
    return b;
}
inline void put_le(Bytes& b, uint64_t v, int n) { for (int i = 0; i < n; ++i) b.push_back((uint8_t)(v >> (8*i))); }
inline uint64_t get_le(const Bytes& b, size_t off, int n) {
    uint64_t v = 0; for (int i = 0; i < n; ++i) if (off + i < b.size()) v |= (uint64_t)b[off+i] << (8*i); return v;
}

// ------------------------------------------------------------------ canonical serialisation
template<class T, class = void> struct Ser;
template<> struct Ser<bool> { static void put(Bytes& b, bool v) { b.push_back(v ? 1 : 0); } };
template<class T> struct Ser<T, std::enable_if_t<std::is_integral_v<T> && !std::is_same_v<T,bool>>> {
    static void put(Bytes& b, T v) { put_le(b, (uint64_t)(std::make_unsigned_t<T>)v, sizeof(T)); } };
template<> struct Ser<float>  { static void put(Bytes& b, float v)  { uint32_t u; memcpy(&u,&v,4); put_le(b,u,4);} };
template<> struct Ser<double> { static void put(Bytes& b, double v) { uint64_t u; memcpy(&u,&v,8); put_le(b,u,8);} };
template<> struct Ser<std::string> { static void put(Bytes& b, const std::string& v) {
    put_le(b, v.size(), 4); b.insert(b.end(), v.begin(), v.end()); } };
template<class T> struct Ser<T, std::enable_if_t<is_handle_v<T>>> {
    static void put(Bytes& b, T v) { put_le(b, (uint32_t)v.idx(), 4); } };
template<class S, int N> struct Ser<VectorT<S,N>> {
    static void put(Bytes& b, const VectorT<S,N>& v) { for (int i = 0; i < N; ++i) Ser<S>::put(b, v[i]); } };

// ------------------------------------------------------------------ token values
inline float  f_bits(uint32_t u) { float f; memcpy(&f,&u,4); return f; }
inline double d_bits(uint64_t u) { double d; memcpy(&d,&u,8); return d; }
template<class T, class = void> struct Tok;
template<> struct Tok<bool> { static bool make(vh::Rng& r) { return r.chance(1,2); } };
template<class T> struct Tok<T, std::enable_if_t<std::is_integral_v<T> && !std::is_same_v<T,bool>>> {
    static T make(vh::Rng& r) {
        switch (r.below(7)) {
        case 0: return 0; case 1: return 1; case 2: return std::numeric_limits<T>::max();
        case 3: return std::numeric_limits<T>::min(); case 4: return (T)-1;
        default: return (T)r.next(); } } };
template<> struct Tok<float> { static float make(vh::Rng& r) {
    static const uint32_t t[] = {0u,0x80000000u,0x3f800000u,0xbfc00000u,0x7f800000u,0xff800000u,0x7fc00001u,0x7f800001u,1u,0x007fffffu,0x7f7fffffu};
    return r.chance(1,2) ? f_bits(t[r.below(11)]) : f_bits((uint32_t)r.next()); } };
template<> struct Tok<double> { static double make(vh::Rng& r) {
    static const uint64_t t[] = {0ull,0x8000000000000000ull,0x3ff0000000000000ull,0xbff8000000000000ull,0x7ff0000000000000ull,
        0xfff0000000000000ull,0x7ff8000000000001ull,0x7ff0000000000001ull,1ull,0x000fffffffffffffull,0x7fefffffffffffffull,
        0x3fb999999999999aull, 0x4059000000000000ull};
    return r.chance(1,2) ? d_bits(t[r.below(13)]) : d_bits(r.next()); } };
template<> struct Tok<std::string> { static std::string make(vh::Rng& r) {
    switch (r.below(6)) {
    case 0: return "";
    case 1: return "a";
    case 2: { std::string s(300, 'x'); for (auto& c : s) c = (char)('a' + r.below(26)); return s; }
    case 3: return std::string("nul\0in\xff\xfe side", 14);
    case 4: return "\xc3\xa4\xe2\x82\xac utf8 \n line";
    default: { std::string s(r.below(20), ' '); for (auto& c : s) c = (char)r.below(256); return s; } } } };
template<class T> struct Tok<T, std::enable_if_t<is_handle_v<T>>> { static T make(vh::Rng& r) {
    switch (r.below(5)) { case 0: return T(-1); case 1: return T(0); case 2: return T(std::numeric_limits<int>::max());
    default: return T((int)r.below(1000)); } } };
template<class S, int N> struct Tok<VectorT<S,N>> { static VectorT<S,N> make(vh::Rng& r) {
    VectorT<S,N> v; for (int i = 0; i < N; ++i) v[i] = Tok<S>::make(r); return v; } };

// ------------------------------------------------------------------ codec table
// (ovmb type name, C++ value type) -- the set this driver (and the Lean model) knows.  T4 compares it
// with the names registered in PropertyCodecs.cc and fails closed on any difference.
template<class S, int N> using V = VectorT<S,N>;
using V2d = V<double,2>; using V3d = V<double,3>; using V4d = V<double,4>;
using V2f = V<float,2>;  using V3f = V<float,3>;  using V4f = V<float,4>;
using V2u = V<uint32_t,2>; using V3u = V<uint32_t,3>; using V4u = V<uint32_t,4>;
using V2i = V<int32_t,2>;  using V3i = V<int32_t,3>;  using V4i = V<int32_t,4>;
#define IO_CODECS(X) \
  X("b", bool) X("u8", uint8_t) X("u16", uint16_t) X("u32", uint32_t) X("u64", uint64_t) \
  X("i8", int8_t) X("i16", int16_t) X("i32", int32_t) X("i64", int64_t) X("f", float) X("d", double) \
  X("s32", std::string) X("vh", VH) X("eh", EH) X("heh", HEH) X("fh", FH) X("hfh", HFH) X("ch", CH) \
  X("2d", io::V2d) X("3d", io::V3d) X("4d", io::V4d) X("2f", io::V2f) X("3f", io::V3f) X("4f", io::V4f) \
  X("2u32", io::V2u) X("3u32", io::V3u) X("4u32", io::V4u) X("2i32", io::V2i) X("3i32", io::V3i) X("4i32", io::V4i)
constexpr int N_CODECS = 30;

inline const char* codec_name(int c) {
    static const char* n[] = {
#define X(name, T) name,
        IO_CODECS(X)
#undef X
    };
    return n[c];
}
template<class F> void with_codec(int c, F&& f) {
    int i = 0;
#define X(name, T) if (i++ == c) { f(name, (T*)nullptr); return; }
    IO_CODECS(X)
#undef X
}
inline int codec_of_internal(const std::string& itn) {
    static std::map<std::string,int> m;
    if (m.empty()) { int i = 0;
#define X(name, T) m[OpenVolumeMesh::detail::internal_type_name<T>()] = i++;
        IO_CODECS(X)
#undef X
    }
    auto it = m.find(itn); return it == m.end() ? -1 : it->second;
}

// PropertyEntity codes of the file format (V,E,F,C,HE,HF,M)
inline int pe_code(EntityType t) {
    switch (t) { case EntityType::Vertex: return 0; case EntityType::Edge: return 1; case EntityType::Face: return 2;
    case EntityType::Cell: return 3; case EntityType::HalfEdge: return 4; case EntityType::HalfFace: return 5;
    case EntityType::Mesh: return 6; } return 7; }

template<class F> void with_entity(int pe, F&& f) {
    switch (pe) {
    case 0: f(Entity::Vertex()); break; case 1: f(Entity::Edge()); break; case 2: f(Entity::Face()); break;
    case 3: f(Entity::Cell()); break; case 4: f(Entity::HalfEdge()); break; case 5: f(Entity::HalfFace()); break;
    case 6: f(Entity::Mesh()); break; }
}

// ------------------------------------------------------------------ canonical dump
// M <kind> <nV> <nE> <nF> <nC>
// V <hex24> [*k]        (run-length: k consecutive identical vertices)
// E <from> <to> / F <n> h.. / C <n> hf..
// P <pe> <codec> <namehex> <defhex> <n> <valhex|*k>...     sorted by (pe,name,codec); *k repeats the previous value k more times
// P? <pe> <namehex> <internal type>                        persistent property of a type without OVMB codec
// ENDM
template<class M> void dump_mesh(std::ostream& os, const M& m, char kind) {
    os << "M " << kind << ' ' << m.n_vertices() << ' ' << m.n_edges() << ' ' << m.n_faces() << ' ' << m.n_cells() << '\n';
    {
        std::string prev; size_t run = 0;
        auto flush = [&]() { if (run) { os << "V " << prev; if (run > 1) os << " *" << run; os << '\n'; } };
        for (size_t i = 0; i < m.n_vertices(); ++i) {
            Bytes b; auto p = m.vertex(VH((int)i)); for (int d = 0; d < 3; ++d) Ser<double>::put(b, p[d]);
            std::string h = hex(b);
            if (run && h == prev) ++run; else { flush(); prev = h; run = 1; }
        }
        flush();
    }
    for (size_t i = 0; i < m.n_edges(); ++i) { auto e = m.edge(EH((int)i)); os << "E " << e.from_vertex().idx() << ' ' << e.to_vertex().idx() << '\n'; }
    for (size_t i = 0; i < m.n_faces(); ++i) { auto const& hs = m.face(FH((int)i)).halfedges(); os << "F " << hs.size(); for (auto h : hs) os << ' ' << h.idx(); os << '\n'; }
    for (size_t i = 0; i < m.n_cells(); ++i) { auto const& hs = m.cell(CH((int)i)).halffaces(); os << "C " << hs.size(); for (auto h : hs) os << ' ' << h.idx(); os << '\n'; }
    std::vector<std::pair<std::string,std::string>> lines;   // (sort key, text)
    for_each_entity([&](auto tag) {
        using Tag = decltype(tag);
        for (auto it = m.template persistent_props_begin<Tag>(); it != m.template persistent_props_end<Tag>(); ++it) {
            const PropertyStorageBase* p = *it;
            int pe = pe_code(p->entity_type());
            Bytes nb(p->name().begin(), p->name().end());
            int c = codec_of_internal(p->internal_type_name());
            std::ostringstream l;
            if (c < 0) { l << "P? " << pe << ' ' << hex(nb) << ' ' << p->internal_type_name(); lines.push_back({std::string(1,(char)('0'+pe)) + p->name() + "\1?", l.str()}); continue; }
            with_codec(c, [&](const char* cname, auto* tp) {
                using T = std::remove_pointer_t<decltype(tp)>;
                auto* st = p->template cast_to_StorageT<T>();
                Bytes db; Ser<T>::put(db, st->def());
                l << "P " << pe << ' ' << cname << ' ' << hex(nb) << ' ' << hex(db) << ' ' << st->size();
                std::string prev; size_t run = 0;
                auto flush = [&]() { if (run) { l << ' ' << prev; if (run > 1) l << " *" << (run - 1); } };
                auto const& dv = st->data_vector();
                for (size_t i = 0; i < dv.size(); ++i) {
                    Bytes vb; T val = dv[i]; Ser<T>::put(vb, val); std::string h = hex(vb);
                    if (run && h == prev) ++run; else { flush(); prev = h; run = 1; }
                }
                flush();
                lines.push_back({std::string(1,(char)('0'+pe)) + p->name() + "\1" + cname, l.str()});
            });
        }
    });
    std::sort(lines.begin(), lines.end());
    for (auto& l : lines) os << l.second << '\n';
    os << "ENDM\n";
}

// ------------------------------------------------------------------ streams with fault injection
// Source: serves bytes [0,n); seek/tell always report the full size; from position fail_at on, reads fail
// (style 0: short read -> eofbit|failbit; style 1: exception from the buffer -> badbit).
struct SrcBuf : std::streambuf {
    const char* b; size_t n; size_t pos = 0; long fail_at; int style;
    SrcBuf(const Bytes& v, long fa = -1, int st = 0) : b((const char*)v.data()), n(v.size()), fail_at(fa), style(st) {}
    size_t limit() const { return fail_at >= 0 && (size_t)fail_at < n ? (size_t)fail_at : n; }
    void fault() { if (style == 1) throw std::ios_base::failure("injected read fault"); }
    int_type underflow() override { if (pos >= limit()) { if (pos < n) fault(); return traits_type::eof(); } return traits_type::to_int_type(b[pos]); }
    int_type uflow() override { if (pos >= limit()) { if (pos < n) fault(); return traits_type::eof(); } return traits_type::to_int_type(b[pos++]); }
    std::streamsize xsgetn(char* s, std::streamsize c) override {
        size_t lim = limit(); size_t a = pos < lim ? std::min<size_t>((size_t)c, lim - pos) : 0;
        if (a) memcpy(s, b + pos, a); pos += a;
        if ((std::streamsize)a < c && pos < n) fault();
        return (std::streamsize)a; }
    pos_type seekoff(off_type off, std::ios_base::seekdir dir, std::ios_base::openmode) override {
        long base = dir == std::ios_base::beg ? 0 : dir == std::ios_base::cur ? (long)pos : (long)n;
        long np = base + (long)off; if (np < 0 || (size_t)np > n) return pos_type(off_type(-1));
        pos = (size_t)np; return pos_type((off_type)pos); }
    pos_type seekpos(pos_type p, std::ios_base::openmode m) override { return seekoff(off_type(p), std::ios_base::beg, m); }
};
// Sink: accepts bytes until `fail_at` bytes were taken, then every write fails.
struct SinkBuf : std::streambuf {
    Bytes out; long fail_at; int style;
    explicit SinkBuf(long fa = -1, int st = 0) : fail_at(fa), style(st) {}
    int_type overflow(int_type ch) override {
        if (traits_type::eq_int_type(ch, traits_type::eof())) return traits_type::not_eof(ch);
        if (fail_at >= 0 && out.size() >= (size_t)fail_at) { if (style == 1) throw std::ios_base::failure("injected write fault"); return traits_type::eof(); }
        out.push_back((uint8_t)ch); return ch; }
    std::streamsize xsputn(const char* s, std::streamsize c) override {
        size_t room = fail_at >= 0 ? ((size_t)fail_at > out.size() ? (size_t)fail_at - out.size() : 0) : (size_t)c;
        size_t a = std::min<size_t>((size_t)c, room);
        out.insert(out.end(), (const uint8_t*)s, (const uint8_t*)s + a);
        if ((std::streamsize)a < c && style == 1) throw std::ios_base::failure("injected write fault");
        return (std::streamsize)a; }
};

struct ReadCfg { char mk = 'p'; bool tc = true; bool bu = true; long fail_at = -1; int style = 0; };

// Reads `bytes` with the real reader into a fresh mesh of the requested type; on Ok appends the canonical dump.
template<class M> std::string read_into(const Bytes& bytes, const ReadCfg& c, std::ostream& dump) {
    M mesh;
    SrcBuf sb(bytes, c.fail_at, c.style);
    std::istream is(&sb);
    IO::ReadOptions opt; opt.topology_check = c.tc; opt.bottom_up_incidences = c.bu;
    auto r = IO::ovmb_read(is, mesh, opt);
    const char* rs = IO::to_string(r);
    if (r == IO::ReadResult::Ok && mesh.n_vertices() > (1u << 20)) {
        dump << "MHUGE " << mesh.n_vertices() << "\n";     // declared size beyond what the judge models; not dumped
    } else if (r == IO::ReadResult::Ok) {
        dump_mesh(dump, mesh, c.mk);
        // touch the result the way a user would: when bottom-up incidences were requested, walk them
        if (c.bu) {
            size_t acc = 0;
            for (auto v : mesh.vertices()) for (auto he : mesh.outgoing_halfedges(v)) acc += he.uidx();
            for (auto he : mesh.halfedges()) for (auto hf : mesh.halfedge_halffaces(he)) acc += hf.uidx();
            for (auto hf : mesh.halffaces()) acc += (size_t)mesh.incident_cell(hf).idx();
            if (acc == (size_t)-7) dump << "";
        }
    }
    return rs ? rs : "null";
}
inline std::string read_any(const Bytes& bytes, const ReadCfg& c, std::ostream& dump) {
    switch (c.mk) { case 't': return read_into<TM>(bytes, c, dump); case 'h': return read_into<HM>(bytes, c, dump); default: return read_into<PM>(bytes, c, dump); }
}

template<class M> std::string write_mesh(const M& m, Bytes& out, long fail_at = -1, int style = 0,
                                          IO::WriteOptions wo = IO::WriteOptions()) {
    SinkBuf sk(fail_at, style);
    std::ostream os(&sk);
    auto r = IO::ovmb_write(os, m, wo);
    out = sk.out;
    const char* rs = IO::to_string(r);
    return rs ? rs : "null";
}

} // namespace io

// ascii_drv: OVM-ASCII half of C06 (round trip) and C07 (reader robustness).  Public OVM API only.
//
//   ascii_drv --mode rt      --seed S --n N [--valence0 B]          --out FILE --tmp DIR
//   ascii_drv --mode mut     --seed S --n N --mutants M             --out FILE --tmp DIR
//   ascii_drv --mode pending --seed S --n N                         --out FILE --tmp DIR
//   ascii_drv --mode read    --in FILE --kind poly|tet|hex --chk 0|1 --bu 0|1 --out FILE --tmp DIR
//   ascii_drv --mode readall --in FILE                              (all 12 reader configurations)
//   (--first I: cases I .. I+N-1, so that a run can be split over several processes)
//   (--nofork 1: reads run in-process, for looking at a sanitizer report by hand)
//   ascii_drv --mode types                                 (prints the ASCII typeName list it covers)
//
// Every read of text runs in a forked child with a wall-clock watchdog (--timeout ms); a hang,
// a sanitizer abort or a signal is recorded as the result `X <reason>` of that read.
//
// Trace format (one record per line; texts as lowercase hex so that any byte survives):
//   T ascii_drv mode=<m> seed=<S>
//   CASE <i> kind=<k> shape=<name>          one generated source mesh
//   SRC                                      dump of the source mesh   (dump lines, see dump_mesh)
//   ENDSRC
//   TEXT <hex>                               what FileManager::writeStream produced for it
//   DETECT tet=<b> hex=<b>                   FileManager::isTetrahedralMesh / isHexahedralMesh on that file
//   MUT <j> <mutation-kind> <hex>            a mutated text (mode mut); following READs refer to it
//   READ kind=<k> chk=<b> bu=<b>             one readStream call on the latest TEXT/MUT
//   R ok | R false | R exc <class> | X <reason>
//   ... dump lines of the mesh read (only after R ok) ...
//   W <hex>                                  writeStream of the mesh just read (only after R ok)
//   ENDREAD
//   ENDCASE
#include "common.hh"
#include <OpenVolumeMesh/Mesh/PolyhedralMesh.hh>
#include <OpenVolumeMesh/Mesh/TetrahedralMesh.hh>
#include <OpenVolumeMesh/Mesh/HexahedralMesh.hh>
#include <OpenVolumeMesh/FileManager/FileManager.hh>
#include <sys/wait.h>
#include <sys/time.h>
#include <unistd.h>
#include <signal.h>
#include <poll.h>
#include <fcntl.h>
#include <functional>
#include <fstream>
#include <map>
#include <set>
#include <climits>
#include <new>

using namespace OpenVolumeMesh;
using namespace OpenVolumeMesh::Geometry;
typedef GeometricPolyhedralMeshV3d PolyMesh;
typedef GeometricTetrahedralMeshV3d TetMesh;
typedef GeometricHexahedralMeshV3d HexMesh;
typedef std::map<HalfEdgeHandle, int> MapHI;
typedef std::vector<std::vector<HalfFaceHandle>> VVHF;
typedef unsigned int uint_t; typedef unsigned long ulong_t; typedef unsigned char uchar_t;

static FILE* OUT = stdout;
static std::string TMPDIR = ".";
static int TIMEOUT_MS = 5000;
static bool NOFORK = false;   // --nofork 1: run reads in-process (to see the sanitizer report on stderr)

// ---------------------------------------------------------------------------------------------
// the ASCII value types (TypeNames.cc); io_ascii.py cross-checks this list against the source
#define ASCII_TYPES(X) \
    X(int, "int") X(uint_t, "uint") X(short, "short") X(long, "long") X(ulong_t, "ulong") \
    X(char, "char") X(uchar_t, "uchar") X(bool, "bool") X(float, "float") X(double, "double") \
    X(std::string, "string") X(MapHI, "map_heh_int") X(std::vector<double>, "vector_double") \
    X(std::vector<VertexHandle>, "vector_vh") X(std::vector<HalfFaceHandle>, "vector_hfh") \
    X(VVHF, "vector_vector_hfh") \
    X(Vec2f, "vec2f") X(Vec2d, "vec2d") X(Vec2i, "vec2i") X(Vec2ui, "vec2ui") \
    X(Vec3f, "vec3f") X(Vec3d, "vec3d") X(Vec3i, "vec3i") X(Vec3ui, "vec3ui") \
    X(Vec4f, "vec4f") X(Vec4d, "vec4d") X(Vec4i, "vec4i") X(Vec4ui, "vec4ui")

static const char* TYPE_NAMES[] = {
#define X(T, N) N,
    ASCII_TYPES(X)
#undef X
};
static const int N_TYPES = sizeof(TYPE_NAMES) / sizeof(TYPE_NAMES[0]);
static const char* ENT_NAMES[7] = {"VProp", "EProp", "HEProp", "FProp", "HFProp", "CProp", "MProp"};

static std::string hex(const std::string& s) {
    static const char* d = "0123456789abcdef";
    std::string r;
    r.reserve(2 * s.size());
    for (unsigned char c : s) { r.push_back(d[c >> 4]); r.push_back(d[c & 15]); }
    return r;
}

// number formatting exactly as an ostream in the classic locale with default flags does it
template <class T> static std::string fmt(const T& v) {
    std::ostringstream os;
    os.imbue(std::locale::classic());
    os << v;
    return os.str();
}

// ---------------------------------------------------------------------------------------------
// token -> value of each type, value -> dump tokens
static const double FRACS[] = {0.0, 0.5, 0.25, 0.125, 1.0 / 3.0, 2.0 / 3.0, 1e-7, 0.1};
static double tok_double(long t) {
    // t encodes integer part (t / 8) and a fraction selector (t % 8); sometimes large magnitudes
    long q = t / 8; int f = (int)(((t % 8) + 8) % 8);
    double v = (double)q + FRACS[f];
    if (t % 97 == 13) v = 123456789.0 + (double)q;      // printed in exponent form, lossy
    if (t % 101 == 7) v = -(double)q * 1e-9;            // tiny
    return v;
}
static char tok_char(long t) {          // never a whitespace byte: `>> char` skips those (see report)
    static const char pool[] = "AZaz09#\"':;!~@_-+./\\%&*()[]{}<>=?^|,$`";
    long k = ((t % 64) + 64) % 64;
    if (k == 63) return '\0';
    if (k >= 56) return (char)(0x80 + (k - 56) * 17);   // high bytes
    return pool[k % (sizeof(pool) - 1)];
}
static std::string tok_string(long t) {
    switch (((t % 11) + 11) % 11) {
        case 0: return "";
        case 1: return "a b";
        case 2: return "line1\nline2";
        case 3: return "\"q\"";
        case 4: return "#c";
        case 5: return " lead";
        case 6: return "trail ";
        case 7: return std::string("nul\0x", 5);
        case 8: return "VProp int \"x\"";
        default: return std::to_string(t);
    }
}
template <class T> struct Enc;
#define ENC_INT(T, EXPR) template <> struct Enc<T> { static T enc(long t) { return (T)(EXPR); } };
ENC_INT(int, t % 13 == 5 ? INT_MIN : t % 13 == 6 ? INT_MAX : t)
ENC_INT(unsigned int, t % 13 == 5 ? UINT_MAX : (t < 0 ? -t : t))
ENC_INT(short, t % 13 == 5 ? SHRT_MIN : t % 13 == 6 ? SHRT_MAX : (t % 30000))
ENC_INT(long, t % 13 == 5 ? LONG_MIN : t % 13 == 6 ? LONG_MAX : t * 1000003L)
ENC_INT(unsigned long, t % 13 == 5 ? ULONG_MAX : (unsigned long)(t < 0 ? -t : t) * 1000003UL)
template <> struct Enc<char> { static char enc(long t) { return tok_char(t); } };
template <> struct Enc<unsigned char> { static unsigned char enc(long t) { return (unsigned char)tok_char(t + 3); } };
template <> struct Enc<bool> { static bool enc(long t) { return (t & 1) != 0; } };
template <> struct Enc<float> { static float enc(long t) { return (float)tok_double(t % 4000); } };
template <> struct Enc<double> { static double enc(long t) { return tok_double(t); } };
template <> struct Enc<std::string> { static std::string enc(long t) { return tok_string(t); } };
template <> struct Enc<MapHI> { static MapHI enc(long t) {
    MapHI m; int n = (int)(((t % 3) + 3) % 3);
    for (int i = 0; i < n; ++i) m[HalfEdgeHandle((int)(t % 7) + 2 * i - 1)] = (int)(t + i);
    return m; } };
template <> struct Enc<std::vector<double>> { static std::vector<double> enc(long t) {
    std::vector<double> v; int n = (int)(((t % 4) + 4) % 4);
    for (int i = 0; i < n; ++i) v.push_back(tok_double(t + i));
    return v; } };
template <> struct Enc<std::vector<VertexHandle>> { static std::vector<VertexHandle> enc(long t) {
    std::vector<VertexHandle> v; int n = (int)(((t % 4) + 4) % 4);
    for (int i = 0; i < n; ++i) v.emplace_back((int)(t % 5) + i - 1);
    return v; } };
template <> struct Enc<std::vector<HalfFaceHandle>> { static std::vector<HalfFaceHandle> enc(long t) {
    std::vector<HalfFaceHandle> v; int n = (int)(((t % 3) + 3) % 3);
    for (int i = 0; i < n; ++i) v.emplace_back((int)(t % 9) + i);
    return v; } };
template <> struct Enc<VVHF> { static VVHF enc(long t) {
    VVHF v; int n = (int)(((t % 3) + 3) % 3);
    for (int i = 0; i < n; ++i) v.push_back(Enc<std::vector<HalfFaceHandle>>::enc(t + i));
    return v; } };
template <class S, int D> struct Enc<VectorT<S, D>> { static VectorT<S, D> enc(long t) {
    VectorT<S, D> v;
    for (int i = 0; i < D; ++i) v[i] = Enc<S>::enc(t + 3 * i);
    return v; } };

// dump tokens of one value (space separated, appended to `o`)
static void dv(std::string& o, int v) { o += fmt(v); o += ' '; }
static void dv(std::string& o, unsigned int v) { o += fmt(v); o += ' '; }
static void dv(std::string& o, short v) { o += fmt(v); o += ' '; }
static void dv(std::string& o, long v) { o += fmt(v); o += ' '; }
static void dv(std::string& o, unsigned long v) { o += fmt(v); o += ' '; }
static void dv(std::string& o, char v) { o += 'c'; o += fmt((int)(unsigned char)v); o += ' '; }
static void dv(std::string& o, unsigned char v) { o += 'c'; o += fmt((int)v); o += ' '; }
static void dv(std::string& o, bool v) { o += v ? "1 " : "0 "; }
static void dv(std::string& o, float v) { o += fmt(v); o += ' '; }
static void dv(std::string& o, double v) { o += fmt(v); o += ' '; }
static void dv(std::string& o, const std::string& v) { o += 's'; o += hex(v); o += ' '; }
static void dv(std::string& o, VertexHandle v) { o += fmt(v.idx()); o += ' '; }
static void dv(std::string& o, HalfEdgeHandle v) { o += fmt(v.idx()); o += ' '; }
static void dv(std::string& o, HalfFaceHandle v) { o += fmt(v.idx()); o += ' '; }
template <class S, int D> static void dv(std::string& o, const VectorT<S, D>& v) {
    o += "( ";
    for (int i = 0; i < D; ++i) dv(o, v[i]);
    o += ") ";
}
template <class E> static void dv(std::string& o, const std::vector<E>& v) {
    o += "[ "; o += fmt(v.size()); o += ' ';
    for (const auto& e : v) dv(o, e);
    o += "] ";
}
static void dv(std::string& o, const MapHI& m) {
    o += "{ "; o += fmt(m.size()); o += ' ';
    for (const auto& kv : m) { dv(o, kv.first); dv(o, kv.second); }
    o += "} ";
}

// ---------------------------------------------------------------------------------------------
// dump of a mesh: stored integers only, nothing is dereferenced through a stored handle
template <class Tag, class MeshT> static void dump_props(FILE* f, const MeshT& m, const char* ent) {
    // collect lines, sort them: std::set<shared_ptr> order is address dependent
    std::vector<std::string> lines;
    for (auto it = m.template persistent_props_begin<Tag>(); it != m.template persistent_props_end<Tag>(); ++it) {
        auto prop = *it;
        std::string tn;
        try { tn = prop->typeNameWrapper(); } catch (std::runtime_error&) { tn = "?"; }
        std::string o = std::string("p ") + ent + " " + tn + " " + hex(prop->name()) + " " + fmt(prop->size()) + " : ";
        bool done = false;
#define X(T, N) \
        if (!done && tn == N) { \
            const PropertyStorageT<T>* st = prop->template cast_to_StorageT<T>(); \
            for (size_t i = 0; i < st->size(); ++i) { { T tmp_v = (*st)[i]; dv(o, tmp_v); }; o += "| "; } \
            done = true; \
        }
        ASCII_TYPES(X)
#undef X
        lines.push_back(o);
    }
    std::sort(lines.begin(), lines.end());
    for (auto& l : lines) fprintf(f, "%s\n", l.c_str());
}

template <class MeshT> static void dump_mesh(FILE* f, const MeshT& m) {
    fprintf(f, "n %zu %zu %zu %zu gc %d\n", m.n_vertices(), m.n_edges(), m.n_faces(), m.n_cells(),
            m.needs_garbage_collection() ? 1 : 0);
    for (size_t i = 0; i < m.n_vertices(); ++i) {
        const auto& p = m.vertex(VertexHandle((int)i));
        fprintf(f, "v %s %s %s\n", fmt(p[0]).c_str(), fmt(p[1]).c_str(), fmt(p[2]).c_str());
    }
    for (size_t i = 0; i < m.n_edges(); ++i) {
        const auto& e = m.edge(EdgeHandle((int)i));
        fprintf(f, "e %d %d\n", e.from_vertex().idx(), e.to_vertex().idx());
    }
    for (size_t i = 0; i < m.n_faces(); ++i) {
        const auto& hs = m.face(FaceHandle((int)i)).halfedges();
        fprintf(f, "f %zu", hs.size());
        for (auto h : hs) fprintf(f, " %d", h.idx());
        fprintf(f, "\n");
    }
    for (size_t i = 0; i < m.n_cells(); ++i) {
        const auto& hs = m.cell(CellHandle((int)i)).halffaces();
        fprintf(f, "c %zu", hs.size());
        for (auto h : hs) fprintf(f, " %d", h.idx());
        fprintf(f, "\n");
    }
    if (m.needs_garbage_collection()) {
        fprintf(f, "dv"); for (size_t i = 0; i < m.n_vertices(); ++i) fprintf(f, " %d", m.is_deleted(VertexHandle((int)i)) ? 1 : 0); fprintf(f, "\n");
        fprintf(f, "de"); for (size_t i = 0; i < m.n_edges(); ++i) fprintf(f, " %d", m.is_deleted(EdgeHandle((int)i)) ? 1 : 0); fprintf(f, "\n");
        fprintf(f, "df"); for (size_t i = 0; i < m.n_faces(); ++i) fprintf(f, " %d", m.is_deleted(FaceHandle((int)i)) ? 1 : 0); fprintf(f, "\n");
        fprintf(f, "dc"); for (size_t i = 0; i < m.n_cells(); ++i) fprintf(f, " %d", m.is_deleted(CellHandle((int)i)) ? 1 : 0); fprintf(f, "\n");
    }
    dump_props<Entity::Vertex>(f, m, "VProp");
    dump_props<Entity::Edge>(f, m, "EProp");
    dump_props<Entity::HalfEdge>(f, m, "HEProp");
    dump_props<Entity::Face>(f, m, "FProp");
    dump_props<Entity::HalfFace>(f, m, "HFProp");
    dump_props<Entity::Cell>(f, m, "CProp");
    dump_props<Entity::Mesh>(f, m, "MProp");
}

template <class MeshT> static std::string write_text(const MeshT& m, bool* stream_ok = nullptr) {
    IO::FileManager fm;
    fm.setVerbosityLevel(0);
    std::ostringstream os;
    fm.writeStream(os, m);
    if (stream_ok) *stream_ok = os.good();
    return os.str();
}

// ---------------------------------------------------------------------------------------------
// child process runner
struct ChildResult { bool exited; int code; int sig; bool timeout; std::string out; std::string err; };

static ChildResult run_child(const std::function<void(FILE*)>& body) {
    ChildResult r{false, 0, 0, false, "", ""};
    if (NOFORK) { body(OUT); r.exited = true; return r; }
    int fds[2];
    if (pipe(fds) != 0) { perror("pipe"); exit(3); }
    std::string errpath = TMPDIR + "/ascii_drv." + std::to_string(getpid()) + ".err";
    fflush(OUT);
    pid_t pid = fork();
    if (pid < 0) { perror("fork"); exit(3); }
    if (pid == 0) {
        close(fds[0]);
        int efd = open(errpath.c_str(), O_WRONLY | O_CREAT | O_TRUNC, 0644);
        if (efd >= 0) { dup2(efd, 2); close(efd); }
        FILE* f = fdopen(fds[1], "w");
        body(f);
        fflush(f);
        _exit(0);
    }
    close(fds[1]);
    struct timeval t0; gettimeofday(&t0, nullptr);
    char buf[65536];
    bool eof = false;
    while (!eof) {
        struct timeval now; gettimeofday(&now, nullptr);
        long el = (now.tv_sec - t0.tv_sec) * 1000L + (now.tv_usec - t0.tv_usec) / 1000L;
        long left = TIMEOUT_MS - el;
        if (left <= 0) { r.timeout = true; break; }
        struct pollfd pf{fds[0], POLLIN, 0};
        int pr = poll(&pf, 1, (int)left);
        if (pr < 0) { if (errno == EINTR) continue; break; }
        if (pr == 0) { r.timeout = true; break; }
        ssize_t k = read(fds[0], buf, sizeof buf);
        if (k > 0) r.out.append(buf, (size_t)k);
        else if (k == 0) eof = true;
        else if (errno != EINTR) break;
    }
    if (r.timeout) kill(pid, SIGKILL);
    close(fds[0]);
    int st = 0;
    waitpid(pid, &st, 0);
    if (WIFEXITED(st)) { r.exited = true; r.code = WEXITSTATUS(st); }
    else if (WIFSIGNALED(st)) { r.sig = WTERMSIG(st); }
    std::ifstream ef(errpath.c_str());
    std::stringstream ss; ss << ef.rdbuf(); r.err = ss.str();
    unlink(errpath.c_str());
    return r;
}

// one-line reason out of a dead child's stderr: sanitizer error kind + first OpenVolumeMesh frame
static std::string death_reason(const ChildResult& r) {
    if (r.timeout) return "timeout";
    std::string kind, frame;
    std::istringstream is(r.err);
    std::string l;
    while (std::getline(is, l)) {
        if (kind.empty()) {
            size_t p;
            if ((p = l.find("ERROR: AddressSanitizer: ")) != std::string::npos) {
                std::string k = l.substr(p + 25); kind = "asan:" + k.substr(0, k.find(' '));
            } else if ((p = l.find("runtime error: ")) != std::string::npos) {
                kind = "ubsan:" + l.substr(p + 15, 60);
            } else if (l.find("Assertion") != std::string::npos && l.find("failed") != std::string::npos) {
                size_t q = l.find("Assertion"); kind = "glibcxx-assert:" + l.substr(q, 90);
            } else if (l.find("terminate called") != std::string::npos) {
                kind = "terminate";
            }
        } else if (frame.empty() && l.find("    #") != std::string::npos && l.find("OpenVolumeMesh::") != std::string::npos) {
            size_t p = l.find("OpenVolumeMesh::");
            std::string f = l.substr(p);
            size_t q = f.find('(');
            frame = f.substr(0, q == std::string::npos ? 80 : q);
        }
    }
    for (auto& c : kind) if (c == ' ' || c == '\n' || c == '\'') c = '_';
    for (auto& c : frame) if (c == ' ') c = '_';
    std::string s = kind.empty() ? (r.sig ? "signal:" + std::to_string(r.sig) : "exit:" + std::to_string(r.code)) : kind;
    if (!frame.empty()) s += "@" + frame;
    return s;
}

// ---------------------------------------------------------------------------------------------
// reading
template <class MeshT> static void read_body(FILE* f, const std::string& text, bool chk, bool bu) {
    MeshT m;
    IO::FileManager fm;
    fm.setVerbosityLevel(0);
    std::istringstream is(text);
    bool ok = false;
    try {
        ok = fm.readStream(is, m, chk, bu);
    } catch (std::bad_alloc&) { fprintf(f, "R exc bad_alloc\n"); return;
    } catch (std::length_error&) { fprintf(f, "R exc length_error\n"); return;
    } catch (std::exception& e) {
        std::string w = e.what(); for (auto& c : w) if (c == ' ' || c == '\n') c = '_';
        fprintf(f, "R exc other:%s\n", w.c_str()); return;
    }
    if (!ok) { fprintf(f, "R false\n"); return; }
    fprintf(f, "R ok\n");
    dump_mesh(f, m);
    fflush(f);
    std::string w = write_text(m);
    fprintf(f, "W %s\n", hex(w).c_str());
}

static void do_read(const std::string& text, const std::string& kind, bool chk, bool bu) {
    fprintf(OUT, "READ kind=%s chk=%d bu=%d\n", kind.c_str(), chk ? 1 : 0, bu ? 1 : 0);
    ChildResult r = run_child([&](FILE* f) {
        if (kind == "poly") read_body<PolyMesh>(f, text, chk, bu);
        else if (kind == "tet") read_body<TetMesh>(f, text, chk, bu);
        else read_body<HexMesh>(f, text, chk, bu);
    });
    bool clean = r.exited && r.code == 0 && !r.timeout;
    if (clean) {
        fputs(r.out.c_str(), OUT);
    } else {
        // keep only complete lines of what the child managed to say, then the death record
        size_t p = r.out.rfind('\n');
        std::string part = p == std::string::npos ? "" : r.out.substr(0, p + 1);
        // a partial dump after "R ok" is not trustworthy: report only the death
        (void)part;
        fprintf(OUT, "X %s\n", death_reason(r).c_str());
    }
    fprintf(OUT, "ENDREAD\n");
}

// ---------------------------------------------------------------------------------------------
// mesh generation
struct Gen {
    vh::Rng rng;
    bool valence0;
    explicit Gen(uint64_t s, bool v0) : rng(s), valence0(v0) {}

    double coord() {
        long t = rng.range(-40, 40);
        if (rng.chance(1, 6)) return tok_double(rng.range(-4000, 4000));
        return (double)t;
    }
    template <class M> VertexHandle vtx(M& m) { return m.add_vertex(Vec3d(coord(), coord(), coord())); }

    // halfedge a->b on a found-or-created edge
    template <class M> HalfEdgeHandle he(M& m, VertexHandle a, VertexHandle b, bool dup) {
        size_t before = m.n_edges();
        EdgeHandle e = m.add_edge(a, b, dup);
        if (m.n_edges() > before) return m.halfedge_handle(e, 0);
        return m.halfedge_handle(e, m.edge(e).from_vertex() == a ? 0 : 1);
    }
    // face over a vertex cycle; reuses a face over the same (rotated / reversed) cycle when present
    std::map<std::vector<int>, std::pair<int, std::vector<int>>> face_by_verts;
    template <class M> HalfFaceHandle hf_over(M& m, const std::vector<VertexHandle>& vs) {
        std::vector<int> key;
        for (auto v : vs) key.push_back(v.idx());
        std::vector<int> sorted = key;
        std::sort(sorted.begin(), sorted.end());
        auto it = face_by_verts.find(sorted);
        if (it != face_by_verts.end()) {
            // orientation: does `key` appear as a rotation of the stored cycle?
            const std::vector<int>& st = it->second.second;
            size_t n = st.size();
            for (size_t r = 0; r < n; ++r) {
                bool same = true;
                for (size_t i = 0; i < n && same; ++i) same = st[(r + i) % n] == key[i];
                if (same) return HalfFaceHandle(2 * it->second.first);
            }
            return HalfFaceHandle(2 * it->second.first + 1);
        }
        std::vector<HalfEdgeHandle> hes;
        for (size_t i = 0; i < vs.size(); ++i) hes.push_back(he(m, vs[i], vs[(i + 1) % vs.size()], false));
        FaceHandle f = m.add_face(hes, false);
        if (!f.is_valid()) return HalfFaceHandle(-1);
        face_by_verts[sorted] = {f.idx(), key};
        return HalfFaceHandle(2 * f.idx());
    }
    template <class M> void cell_over(M& m, const std::vector<std::vector<VertexHandle>>& faces) {
        std::vector<HalfFaceHandle> hfs;
        for (auto& f : faces) { HalfFaceHandle h = hf_over(m, f); if (!h.is_valid()) return; hfs.push_back(h); }
        m.add_cell(hfs, false);
    }
    template <class M> void tet(M& m, VertexHandle a, VertexHandle b, VertexHandle c, VertexHandle d) {
        cell_over(m, {{a, b, c}, {a, c, d}, {a, d, b}, {b, d, c}});
    }
    template <class M> void hexa(M& m, const std::vector<VertexHandle>& v) {
        // OVM vertex order of add_cell(8 vertices): top face v0..v3 / bottom v4..v7 (see HexahedralMeshTopologyKernel)
        cell_over(m, {{v[0], v[1], v[2], v[3]}, {v[7], v[6], v[5], v[4]}, {v[1], v[0], v[4], v[5]},
                      {v[2], v[1], v[5], v[6]}, {v[3], v[2], v[6], v[7]}, {v[0], v[3], v[7], v[4]}});
    }
    template <class M> void prism(M& m, const std::vector<VertexHandle>& v) {
        cell_over(m, {{v[0], v[1], v[2]}, {v[5], v[4], v[3]}, {v[1], v[0], v[3], v[4]}, {v[2], v[1], v[4], v[5]}, {v[0], v[2], v[5], v[3]}});
    }
    template <class M> void pyramid(M& m, const std::vector<VertexHandle>& v) {
        cell_over(m, {{v[3], v[2], v[1], v[0]}, {v[0], v[1], v[4]}, {v[1], v[2], v[4]}, {v[2], v[3], v[4]}, {v[3], v[0], v[4]}});
    }

    // ---- shapes -----------------------------------------------------------------------------
    std::string build_poly(PolyMesh& m, int i) {
        static const char* shapes[] = {"empty", "verts", "edges", "loops", "solids", "junk", "mixed", "nonmanifold"};
        int s = i < 8 ? i : (int)rng.below(8);
        std::string name = shapes[s];
        if (s == 0) return name;
        int nv = s == 1 ? rng.range(1, 9) : rng.range(2, 10);
        std::vector<VertexHandle> V;
        for (int k = 0; k < nv; ++k) V.push_back(vtx(m));
        if (s == 1) return name;
        if (s == 2 || s == 5 || s == 6) {
            int ne = rng.range(1, 10);
            for (int k = 0; k < ne; ++k) {
                VertexHandle a = rng.pick(V), b = rng.pick(V);      // self loops and parallel edges included
                m.add_edge(a, b, rng.chance(1, 2));
            }
        }
        if (s == 2) return name;
        if (s == 3 || s == 5 || s == 6) {
            int nf = rng.range(1, 7);
            for (int k = 0; k < nf; ++k) {
                int val = rng.range(valence0 ? 0 : 1, 6);
                std::vector<HalfEdgeHandle> hes;
                std::vector<VertexHandle> cyc;
                for (int j = 0; j < val; ++j) cyc.push_back(rng.pick(V));
                for (int j = 0; j < val; ++j) hes.push_back(he(m, cyc[j], cyc[(j + 1) % val], rng.chance(1, 4)));
                m.add_face(hes, false);                              // 1-gons (self loop), 2-gons, repeated vertices
            }
        }
        if (s == 4 || s == 6 || s == 7) {
            int nc = rng.range(1, 4);
            for (int k = 0; k < nc; ++k) {
                int what = (int)rng.below(4);
                // fresh or shared vertices: sharing a full face, only an edge or only a vertex gives non-manifold complexes
                auto pickv = [&](int n) {
                    std::vector<VertexHandle> r;
                    std::vector<VertexHandle> pool = V;
                    rng.shuffle(pool);
                    int share = s == 7 ? rng.range(1, 2) : rng.range(0, 3);
                    for (int j = 0; j < n; ++j) {
                        if (j < share && j < (int)pool.size()) r.push_back(pool[j]);
                        else { VertexHandle v = vtx(m); V.push_back(v); r.push_back(v); }
                    }
                    return r;
                };
                if (what == 0) { auto v = pickv(4); tet(m, v[0], v[1], v[2], v[3]); }
                else if (what == 1) hexa(m, pickv(8));
                else if (what == 2) prism(m, pickv(6));
                else pyramid(m, pickv(5));
            }
        }
        if ((s == 5 || s == 6) && m.n_faces() > 0) {
            int nc = rng.range(1, 3);
            for (int k = 0; k < nc; ++k) {
                int val = rng.range(0, 7);                           // a cell without halffaces is storable
                std::vector<HalfFaceHandle> hfs;
                for (int j = 0; j < val; ++j) hfs.emplace_back((int)rng.below(2 * m.n_faces()));
                m.add_cell(hfs, false);                              // arbitrary halfface lists
            }
        }
        return name;
    }
    std::string build_tet(TetMesh& m, int i) {
        static const char* shapes[] = {"empty", "one", "strip", "fan", "loosefaces", "junkcells"};
        int s = i < 6 ? i : (int)rng.below(6);
        std::string name = shapes[s];
        if (s == 0) return name;
        std::vector<VertexHandle> V;
        for (int k = 0; k < 4; ++k) V.push_back(vtx(m));
        m.add_cell(V[0], V[1], V[2], V[3]);
        if (s == 1) return name;
        int extra = rng.range(1, 4);
        for (int k = 0; k < extra; ++k) {
            if (s == 2) {        // share a face with the previous tet
                VertexHandle v = vtx(m); V.push_back(v);
                size_t n = V.size();
                m.add_cell(V[n - 2], V[n - 3], V[n - 4], v);
            } else if (s == 3) { // share only the first vertex / edge
                VertexHandle a = vtx(m), b = vtx(m);
                if (rng.chance(1, 2)) { VertexHandle c = vtx(m); m.add_cell(V[0], a, b, c); }
                else m.add_cell(V[0], V[1], a, b);
            } else if (s == 4) {
                VertexHandle a = vtx(m);
                m.add_face(std::vector<VertexHandle>{V[0], V[1], a});
            } else {
                std::vector<HalfFaceHandle> hfs;
                for (int j = 0; j < 4; ++j) hfs.emplace_back((int)rng.below(2 * m.n_faces()));
                m.add_cell(hfs, false);
            }
        }
        return name;
    }
    std::string build_hex(HexMesh& m, int i) {
        static const char* shapes[] = {"empty", "one", "row", "slab", "loosequad"};
        int s = i < 5 ? i : (int)rng.below(5);
        std::string name = shapes[s];
        if (s == 0) return name;
        int nx = s == 1 ? 1 : s == 2 ? rng.range(2, 3) : s == 3 ? 2 : 1, ny = s == 3 ? 2 : 1, nz = 1;
        std::vector<VertexHandle> g((nx + 1) * (ny + 1) * (nz + 1));
        auto at = [&](int x, int y, int z) -> VertexHandle& { return g[(z * (ny + 1) + y) * (nx + 1) + x]; };
        for (int z = 0; z <= nz; ++z) for (int y = 0; y <= ny; ++y) for (int x = 0; x <= nx; ++x)
            at(x, y, z) = m.add_vertex(Vec3d(x + (rng.chance(1, 5) ? 0.25 : 0.0), y, z));
        for (int y = 0; y < ny; ++y) for (int x = 0; x < nx; ++x) {
            std::vector<VertexHandle> v = {at(x, y, 0), at(x + 1, y, 0), at(x + 1, y + 1, 0), at(x, y + 1, 0),
                                           at(x, y, 1), at(x, y + 1, 1), at(x + 1, y + 1, 1), at(x + 1, y, 1)};
            m.add_cell(v, false);
        }
        if (s == 4) {
            VertexHandle a = vtx(m), b = vtx(m);
            m.add_face(std::vector<VertexHandle>{at(0, 0, 0), at(1, 0, 0), a, b});
        }
        return name;
    }

    // persistent properties: combos cycle deterministically through all (type, entity) pairs
    template <class T, class Tag, class M> void attach_one(M& m, const std::string& name, long base) {
        auto p = m.template request_property<T, Tag>(name);
        m.set_persistent(p);
        size_t n = p.size();
        for (size_t i = 0; i < n; ++i) p[HandleT<Tag>((int)i)] = Enc<T>::enc(base + (long)i * 7);
    }
    template <class T, class M> void attach_ent(M& m, int ent, const std::string& name, long base) {
        switch (ent) {
            case 0: attach_one<T, Entity::Vertex>(m, name, base); break;
            case 1: attach_one<T, Entity::Edge>(m, name, base); break;
            case 2: attach_one<T, Entity::HalfEdge>(m, name, base); break;
            case 3: attach_one<T, Entity::Face>(m, name, base); break;
            case 4: attach_one<T, Entity::HalfFace>(m, name, base); break;
            case 5: attach_one<T, Entity::Cell>(m, name, base); break;
            default: attach_one<T, Entity::Mesh>(m, name, base); break;
        }
    }
    std::string prop_name(int k) {
        switch (rng.below(8)) {
            case 0: return "p" + std::to_string(k);
            case 1: return "with space " + std::to_string(k);
            case 2: return "q\"uote" + std::to_string(k);
            case 3: return "#hash" + std::to_string(k);
            case 4: return " lead" + std::to_string(k);
            case 5: return "VProp int " + std::to_string(k);
            case 6: return "tab\t" + std::to_string(k) + " ";
            default: return "x" + std::to_string(k);
        }
    }
    template <class M> void attach_props(M& m, int case_idx) {
        // four per mesh walk through all (type, entity) pairs (196 pairs: complete after 49 meshes), the rest are random
        int np = 4 + rng.range(0, 4);
        for (int k = 0; k < np; ++k) {
            int combo = (case_idx * 4 + k) % (N_TYPES * 7);
            if (k >= 4) combo = (int)rng.below((uint64_t)(N_TYPES * 7));
            int ty = combo % N_TYPES, ent = (combo / N_TYPES + combo) % 7;
            long base = rng.range(-500, 500);
            std::string name = prop_name(k);
            int idx = 0;
#define X(T, N) if (idx++ == ty) attach_ent<T>(m, ent, name, base);
            ASCII_TYPES(X)
#undef X
        }
    }
};

// ---------------------------------------------------------------------------------------------
// mutation of a text
struct Mutator {
    vh::Rng& rng;
    explicit Mutator(vh::Rng& r) : rng(r) {}
    static std::vector<std::string> split_lines(const std::string& t) {
        std::vector<std::string> ls; std::string cur;
        for (char c : t) { if (c == '\n') { ls.push_back(cur); cur.clear(); } else cur.push_back(c); }
        if (!cur.empty()) ls.push_back(cur);
        return ls;
    }
    static std::string join_lines(const std::vector<std::string>& ls) {
        std::string t; for (auto& l : ls) { t += l; t += '\n'; } return t;
    }
    static std::vector<std::string> split_toks(const std::string& l) {
        std::vector<std::string> ts; std::string cur;
        for (char c : l) { if (c == ' ') { if (!cur.empty()) ts.push_back(cur); cur.clear(); } else cur.push_back(c); }
        if (!cur.empty()) ts.push_back(cur);
        return ts;
    }
    static std::string join_toks(const std::vector<std::string>& ts) {
        std::string l; for (size_t i = 0; i < ts.size(); ++i) { if (i) l += ' '; l += ts[i]; } return l;
    }
    std::string junk() {
        static const char* J[] = {"abc", "x1", "1x", "-", "+", ".", "1.5.2", "nan", "inf", "0x1F", "1e", "e5", "--3", "#", "#7",
                                  "\"", "VProp", "Vertices", "Edges", "Faces", "Polyhedra", "OVM", "BINARY", "\xff\xfe", "3:", ":", "1,2"};
        return J[rng.below(sizeof(J) / sizeof(J[0]))];
    }
    std::string boundary(const std::vector<std::string>& lines) {
        // boundary numbers: small, entity-count relative, integer-width edges.  Values between 70000 and 2^31-2 are
        // never produced: as a count they only make the reader slow / allocation dependent (see io_ascii.py)
        long nv = 0, ne = 0, nf = 0;
        for (size_t i = 0; i + 1 < lines.size(); ++i) {
            if (lines[i] == "Vertices") nv = atol(lines[i + 1].c_str());
            if (lines[i] == "Edges") ne = atol(lines[i + 1].c_str());
            if (lines[i] == "Faces") nf = atol(lines[i + 1].c_str());
        }
        static const char* B[] = {"0", "1", "2", "-1", "-2", "+1", "007", "255", "256", "65535", "65536", "65537",
                                  "2147483647", "2147483648", "4294967295", "4294967296", "4294967297",
                                  "9223372036854775807", "9223372036854775808", "18446744073709551615",
                                  "18446744073709551616", "99999999999999999999999999", "-2147483648", "-2147483649",
                                  "-9223372036854775808", "-18446744073709551615", "1.5", "1e3", "0.0"};
        int k = (int)rng.below(sizeof(B) / sizeof(B[0]) + 9);
        // counts come from (possibly already mutated) text: wrap instead of overflowing
        auto w = [](long x, long mul, long add) { return (long)((unsigned long long)x * (unsigned long long)mul + (unsigned long long)add); };
        long rel[] = {w(nv, 1, -1), nv, w(nv, 1, 1), w(ne, 2, -1), w(ne, 2, 0), w(ne, 2, 1), w(nf, 2, -1), w(nf, 2, 0), w(nf, 2, 1)};
        if (k < 9) return std::to_string(rel[k]);
        return B[k - 9];
    }
    // returns mutated text, sets `kind`
    std::string mutate(const std::string& text, std::string& kind) {
        std::vector<std::string> L = split_lines(text);
        if (L.empty()) { kind = "empty"; return ""; }
        int op = (int)rng.below(24);
        size_t li = rng.below(L.size());
        // bias towards the structural part of the file (header, counts, topology lines) half of the time
        if (rng.chance(1, 2)) {
            size_t lim = L.size();
            for (size_t i = 0; i < L.size(); ++i) if (L[i].find("Prop ") != std::string::npos) { lim = i + 2; break; }
            li = rng.below(std::min(lim, L.size()));
        }
        std::vector<std::string> T = split_toks(L[li]);
        size_t ti = T.empty() ? 0 : rng.below(T.size());
        switch (op) {
            case 0: kind = "drop_line"; L.erase(L.begin() + li); return join_lines(L);
            case 1: kind = "repeat_line"; L.insert(L.begin() + li, L[li]); return join_lines(L);
            case 2: kind = "junk_line"; L[li] = junk(); return join_lines(L);
            case 3: kind = "drop_token"; if (!T.empty()) T.erase(T.begin() + ti); L[li] = join_toks(T); return join_lines(L);
            case 4: kind = "repeat_token"; if (!T.empty()) T.insert(T.begin() + ti, T[ti]); L[li] = join_toks(T); return join_lines(L);
            case 5: case 6: kind = "junk_token"; if (T.empty()) T.push_back(junk()); else T[ti] = junk(); L[li] = join_toks(T); return join_lines(L);
            case 7: case 8: case 9: kind = "boundary_token"; if (T.empty()) T.push_back(boundary(L)); else T[ti] = boundary(L); L[li] = join_toks(T); return join_lines(L);
            case 10: { kind = "truncate_line"; L.resize(li); std::string t = join_lines(L); if (rng.chance(1, 2) && !t.empty()) t.pop_back(); return t; }
            case 11: { kind = "truncate_byte"; return text.substr(0, rng.below(text.size() + 1)); }
            case 12: { kind = "swap_lines"; size_t lj = rng.below(L.size()); std::swap(L[li], L[lj]); return join_lines(L); }
            case 13: {
                kind = "swap_sections";
                // move one whole section (keyword line .. next keyword line) somewhere else
                std::vector<size_t> heads;
                for (size_t i = 0; i < L.size(); ++i)
                    if (L[i] == "Vertices" || L[i] == "Edges" || L[i] == "Faces" || L[i] == "Polyhedra" || L[i].find("Prop ") != std::string::npos) heads.push_back(i);
                if (heads.size() < 2) return join_lines(L);
                size_t a = rng.below(heads.size()), b = rng.below(heads.size());
                if (a == b) b = (a + 1) % heads.size();
                size_t a0 = heads[a], a1 = a + 1 < heads.size() ? heads[a + 1] : L.size();
                std::vector<std::string> blk(L.begin() + a0, L.begin() + a1);
                L.erase(L.begin() + a0, L.begin() + a1);
                size_t pos = heads[b] > a0 ? heads[b] - blk.size() : heads[b];
                if (pos > L.size()) pos = L.size();
                L.insert(L.begin() + pos, blk.begin(), blk.end());
                return join_lines(L);
            }
            case 14: kind = "insert_blank_or_comment"; L.insert(L.begin() + li, rng.chance(1, 2) ? "" : (rng.chance(1, 2) ? "# comment 1 2 3" : "   \t ")); return join_lines(L);
            case 15: { kind = "crlf"; std::string t; for (auto& l : L) { t += l; t += "\r\n"; } return t; }
            case 16: { kind = "case_keyword"; for (auto& l : L) if (l == "Vertices" || l == "Edges" || l == "Faces" || l == "Polyhedra" || l == "OVM ASCII") for (auto& c : l) c = rng.chance(1, 2) ? (char)toupper(c) : (char)tolower(c); return join_lines(L); }
            case 17: { kind = "flip_byte"; std::string t = text; if (!t.empty()) t[rng.below(t.size())] ^= (char)(1 << rng.below(8)); return t; }
            case 18: { kind = "insert_byte"; std::string t = text; t.insert(t.begin() + rng.below(t.size() + 1), (char)rng.below(256)); return t; }
            case 19: { kind = "delete_byte"; std::string t = text; if (!t.empty()) t.erase(t.begin() + rng.below(t.size())); return t; }
            case 20: { kind = "no_final_newline"; std::string t = text; while (!t.empty() && t.back() == '\n') t.pop_back(); return t; }
            case 21: { kind = "extra_token"; T.push_back(rng.chance(1, 2) ? boundary(L) : junk()); L[li] = join_toks(T); return join_lines(L); }
            case 22: { kind = "splice"; size_t lj = rng.below(L.size()); size_t n = 1 + rng.below(4); std::vector<std::string> blk; for (size_t i = lj; i < L.size() && i < lj + n; ++i) blk.push_back(L[i]); L.insert(L.begin() + li, blk.begin(), blk.end()); return join_lines(L); }
            default: { kind = "drop_header"; if (!L.empty()) L.erase(L.begin()); return join_lines(L); }
        }
    }
};

// ---------------------------------------------------------------------------------------------
struct Args { std::string mode = "rt", out, in, kind = "poly"; uint64_t seed = 1; int n = 10, mutants = 20, first = 0; bool chk = true, bu = true, valence0 = false; };

template <class M> static void emit_source(const M& m, const std::string& text) {
    fprintf(OUT, "SRC\n");
    dump_mesh(OUT, m);
    fprintf(OUT, "ENDSRC\n");
    fprintf(OUT, "TEXT %s\n", hex(text).c_str());
}

static void detect(const std::string& text) {
    std::string path = TMPDIR + "/ascii_drv." + std::to_string(getpid()) + ".ovm";
    { std::ofstream f(path.c_str(), std::ios::binary); f << text; }
    IO::FileManager fm; fm.setVerbosityLevel(0);
    bool t = fm.isTetrahedralMesh(path), h = fm.isHexahedralMesh(path);
    unlink(path.c_str());
    fprintf(OUT, "DETECT tet=%d hex=%d\n", t ? 1 : 0, h ? 1 : 0);
}

// generates case i; returns (kind, text); the source dump is emitted
static std::string gen_case(const Args& a, int i, std::string& kind, bool with_props = true) {
    Gen g(vh::mix(a.seed, (uint64_t)i + 1000), a.valence0);
    int k = i % 3;
    std::string text, shape;
    if (k == 0) { PolyMesh m; shape = g.build_poly(m, i / 3); if (with_props) g.attach_props(m, i); kind = "poly"; text = write_text(m);
                  fprintf(OUT, "CASE %d kind=poly shape=%s\n", i, shape.c_str()); emit_source(m, text); }
    else if (k == 1) { TetMesh m; shape = g.build_tet(m, i / 3); if (with_props) g.attach_props(m, i); kind = "tet"; text = write_text(m);
                  fprintf(OUT, "CASE %d kind=tet shape=%s\n", i, shape.c_str()); emit_source(m, text); }
    else { HexMesh m; shape = g.build_hex(m, i / 3); if (with_props) g.attach_props(m, i); kind = "hex"; text = write_text(m);
                  fprintf(OUT, "CASE %d kind=hex shape=%s\n", i, shape.c_str()); emit_source(m, text); }
    return text;
}

static void mode_rt(const Args& a) {
    for (int i = a.first; i < a.first + a.n; ++i) {
        std::string kind;
        std::string text = gen_case(a, i, kind);
        detect(text);
        // the mesh's own type with every (chk, bu); every other type once (the model says which succeed)
        for (int c = 0; c < 2; ++c) for (int b = 0; b < 2; ++b) do_read(text, kind, c, b);
        for (const char* other : {"poly", "tet", "hex"}) if (kind != other) do_read(text, other, (i / 3) % 2, (i / 6) % 2);
        fprintf(OUT, "ENDCASE\n");
    }
}

static void mode_mut(const Args& a) {
    static const char* kinds[] = {"poly", "tet", "hex"};
    for (int i = a.first; i < a.first + a.n; ++i) {
        vh::Rng rng(vh::mix(a.seed, 77000 + (uint64_t)i));      // per case: a run can be split into ranges
        Mutator mu(rng);
        std::string kind;
        std::string text = gen_case(a, i, kind);
        for (int j = 0; j < a.mutants; ++j) {
            std::string mk;
            std::string t = mu.mutate(text, mk);
            if (rng.chance(1, 6)) { std::string mk2; t = mu.mutate(t, mk2); mk += "+" + mk2; }
            fprintf(OUT, "MUT %d %s %s\n", j, mk.c_str(), hex(t).c_str());
            // mostly the file's own mesh type, sometimes another
            std::string rk = rng.chance(3, 4) ? kind : kinds[rng.below(3)];
            do_read(t, rk, rng.chance(1, 2), rng.chance(1, 2));
        }
        fprintf(OUT, "ENDCASE\n");
    }
}

// C06 last clause: a mesh with pending (deferred) deletions given to the writer
template <class M> static void pending_case(const Args& a, int i, M& m, Gen& g, const char* kind, const std::string& shape) {
    g.attach_props(m, i);
    m.enable_deferred_deletion(true);
    vh::Rng& rng = g.rng;
    int what = (int)rng.below(4);
    const char* wn = "none";
    if (what == 0 && m.n_cells() > 0) { m.delete_cell(CellHandle((int)rng.below(m.n_cells()))); wn = "cell"; }
    else if (what == 1 && m.n_faces() > 0) { m.delete_face(FaceHandle((int)rng.below(m.n_faces()))); wn = "face"; }
    else if (what == 2 && m.n_edges() > 0) { m.delete_edge(EdgeHandle((int)rng.below(m.n_edges()))); wn = "edge"; }
    else if (m.n_vertices() > 0) { m.delete_vertex(VertexHandle((int)rng.below(m.n_vertices()))); wn = "vertex"; }
    fprintf(OUT, "CASE %d kind=%s shape=%s pending=%s\n", i, kind, shape.c_str(), wn);
    bool sok = true;
    std::string text = write_text(m, &sok);
    emit_source(m, text);
    fprintf(OUT, "WSTATE good=%d\n", sok ? 1 : 0);
    do_read(text, kind, false, true);
    // what the file should contain if the writer chose "logical content": the collected mesh
    m.collect_garbage();
    std::string text2 = write_text(m);
    fprintf(OUT, "GCSRC\n"); dump_mesh(OUT, m); fprintf(OUT, "ENDGCSRC\n");
    fprintf(OUT, "GCTEXT %s\n", hex(text2).c_str());
    fprintf(OUT, "ENDCASE\n");
}
static void mode_pending(const Args& a) {
    for (int i = a.first; i < a.first + a.n; ++i) {
        Gen g(vh::mix(a.seed, (uint64_t)i + 5000), false);
        int k = i % 3;
        if (k == 0) { PolyMesh m; std::string s = g.build_poly(m, 3 + i / 3 % 5); pending_case(a, i, m, g, "poly", s); }
        else if (k == 1) { TetMesh m; std::string s = g.build_tet(m, 1 + i / 3 % 5); pending_case(a, i, m, g, "tet", s); }
        else { HexMesh m; std::string s = g.build_hex(m, 1 + i / 3 % 4); pending_case(a, i, m, g, "hex", s); }
    }
}

static void mode_read(const Args& a) {
    std::ifstream f(a.in.c_str(), std::ios::binary);
    std::stringstream ss; ss << f.rdbuf();
    std::string text = ss.str();
    fprintf(OUT, "CASE 0 kind=%s shape=file\n", a.kind.c_str());
    fprintf(OUT, "MUT 0 file %s\n", hex(text).c_str());
    do_read(text, a.kind, a.chk, a.bu);
    fprintf(OUT, "ENDCASE\n");
}

// one text under all 12 reader configurations (corpus replay, shrinking)
static void mode_readall(const Args& a) {
    std::ifstream f(a.in.c_str(), std::ios::binary);
    std::stringstream ss; ss << f.rdbuf();
    std::string text = ss.str();
    fprintf(OUT, "CASE 0 kind=file shape=file\n");
    fprintf(OUT, "MUT 0 file %s\n", hex(text).c_str());
    for (const char* k : {"poly", "tet", "hex"}) for (int c = 0; c < 2; ++c) for (int b = 0; b < 2; ++b) do_read(text, k, c, b);
    fprintf(OUT, "ENDCASE\n");
}

int main(int argc, char** argv) {
    Args a;
    for (int i = 1; i + 1 < argc || (i < argc && std::string(argv[i]) == "--help"); i += 2) {
        std::string k = argv[i], v = i + 1 < argc ? argv[i + 1] : "";
        if (k == "--mode") a.mode = v; else if (k == "--seed") a.seed = strtoull(v.c_str(), nullptr, 10);
        else if (k == "--n") a.n = atoi(v.c_str()); else if (k == "--first") a.first = atoi(v.c_str()); else if (k == "--mutants") a.mutants = atoi(v.c_str());
        else if (k == "--out") a.out = v; else if (k == "--tmp") TMPDIR = v; else if (k == "--in") a.in = v;
        else if (k == "--kind") a.kind = v; else if (k == "--chk") a.chk = v == "1"; else if (k == "--bu") a.bu = v == "1";
        else if (k == "--timeout") TIMEOUT_MS = atoi(v.c_str()); else if (k == "--nofork") NOFORK = v == "1"; else if (k == "--valence0") a.valence0 = v == "1";
        else { fprintf(stderr, "unknown option %s\n", k.c_str()); return 2; }
    }
    if (argc >= 3 && std::string(argv[argc - 2]) != "--mode" && a.mode.empty()) return 2;
    if (a.mode == "types") { for (int i = 0; i < N_TYPES; ++i) printf("%s\n", TYPE_NAMES[i]); for (int i = 0; i < 7; ++i) printf("ent %s\n", ENT_NAMES[i]); return 0; }
    if (!a.out.empty()) { OUT = fopen(a.out.c_str(), "w"); if (!OUT) { perror("out"); return 3; } }
    fprintf(OUT, "T ascii_drv mode=%s seed=%llu\n", a.mode.c_str(), (unsigned long long)a.seed);
    if (a.mode == "rt") mode_rt(a);
    else if (a.mode == "mut") mode_mut(a);
    else if (a.mode == "pending") mode_pending(a);
    else if (a.mode == "read") mode_read(a);
    else if (a.mode == "readall") mode_readall(a);
    else { fprintf(stderr, "unknown mode\n"); return 2; }
    fprintf(OUT, "END\n");
    if (OUT != stdout) fclose(OUT);
    return 0;
}

// prop_drv: property-registry / mesh-copy driver for properties C13 and C14.
//
// Holds up to 4 geometric meshes (polyhedral / tetrahedral / hexahedral kernels, Vec3d) and a
// pool of up to 16 property handles over {int,bool,double,string,Vec3d} x 7 entity kinds,
// executes a seeded random (or enumerated, or replayed) operation stream using ONLY the public
// API, and prints after every operation
//     O <op line>            the operation exactly as executed
//     G <erased entities>    (ghost) which entity slots a topology operation physically removed
//     R <result>             ok | none | true | false | unit | exc <class>
//     S / m.. s.. h.. / E    canonical dump of every mesh and every live handle
// Every trace runs in a forked child; a sanitizer / _GLIBCXX_ASSERTIONS abort, signal or
// timeout leaves the partial trace followed by `X <reason>`.
//
//   prop_drv --seed S --traces N --ops K [--first I] [--stream main|edge] [--err FILE]
//   prop_drv --enum L [--err FILE]        all op sequences of length <= L over 2 names x 2 types
//                                         (one-step traces, de-duplicated by (state, op))
//   prop_drv --replay FILE [--err FILE]   re-executes the O lines of FILE, re-validating every
//                                         operation against the current state (invalid: skipped)
#include "common.hh"
#include <OpenVolumeMesh/Mesh/PolyhedralMesh.hh>
#include <OpenVolumeMesh/Mesh/TetrahedralMesh.hh>
#include <OpenVolumeMesh/Mesh/HexahedralMesh.hh>
#include <sys/wait.h>
#include <unistd.h>
#include <signal.h>
#include <fcntl.h>
#include <map>
#include <memory>
#include <set>
#include <unordered_set>
#include <stdexcept>
#include <typeinfo>
#include <functional>
#include <fstream>

using namespace OpenVolumeMesh;
using Vec3d = Geometry::Vec3d;
typedef GeometricPolyhedralMeshV3d PolyMesh;
typedef GeometricTetrahedralMeshV3d TetMesh;
typedef GeometricHexahedralMeshV3d HexMesh;

static const char* KN[7] = {"V", "E", "HE", "F", "HF", "C", "M"};
static const char* TN[5] = {"int", "bool", "double", "string", "vec3d"};
static const int MAX_MESHES = 4, MAX_HANDLES = 16;

static int kind_id(const std::string& s) { for (int i = 0; i < 7; ++i) if (s == KN[i]) return i; return -1; }
static int type_id(const std::string& s) { for (int i = 0; i < 5; ++i) if (s == TN[i]) return i; return -1; }

// ------------------------------------------------------------------------------------ tokens
template <class T> struct Tok;
template <> struct Tok<int> { enum { id = 0 }; static int enc(long t) { return (int)t; } static long dec(int v) { return v; } };
template <> struct Tok<bool> { enum { id = 1 }; static bool enc(long t) { return (t & 1) != 0; } static long dec(bool v) { return v ? 1 : 0; } };
template <> struct Tok<double> { enum { id = 2 }; static double enc(long t) { return (double)t; } static long dec(double v) { return (long)v; } };
template <> struct Tok<std::string> { enum { id = 3 }; static std::string enc(long t) { return std::to_string(t); }
    static long dec(const std::string& v) { return v.empty() ? -777 : atol(v.c_str()); } };
template <> struct Tok<Vec3d> { enum { id = 4 }; static Vec3d enc(long t) { return Vec3d((double)t, 0, 0); } static long dec(const Vec3d& v) { return (long)v[0]; } };

template <class K> struct KindOf;
template <> struct KindOf<Entity::Vertex> { enum { id = 0 }; };
template <> struct KindOf<Entity::Edge> { enum { id = 1 }; };
template <> struct KindOf<Entity::HalfEdge> { enum { id = 2 }; };
template <> struct KindOf<Entity::Face> { enum { id = 3 }; };
template <> struct KindOf<Entity::HalfFace> { enum { id = 4 }; };
template <> struct KindOf<Entity::Cell> { enum { id = 5 }; };
template <> struct KindOf<Entity::Mesh> { enum { id = 6 }; };

// what one storage looks like through the public API
struct SView {
    const void* addr = nullptr;   // identity only; never printed
    int kind = 0, ty = 0;
    std::string name;
    bool sh = false, pe = false, att = false;
    long def = 0;
    std::vector<long> vals;
    long own = -1;                // driver bookkeeping: id of the mesh the storage was created on
};

template <class T, class K> static SView view_of(const PropertyPtr<T, K>& p) {
    SView v;
    v.addr = (const void*)&p.data_vector();
    v.kind = KindOf<K>::id; v.ty = Tok<T>::id; v.name = p.name();
    v.sh = p.shared(); v.pe = p.persistent(); v.att = (bool)p;
    v.def = Tok<T>::dec(T(p.def()));
    for (size_t i = 0; i < p.size(); ++i) v.vals.push_back(Tok<T>::dec(T(p.data_vector()[i])));
    return v;
}

// view of a storage reached through persistent_props_begin/end (PropertyStorageBase*)
template <class T> static bool view_base_as(PropertyStorageBase* b, SView& v) {
    if (b->typeNameWrapper() != TN[Tok<T>::id]) return false;
    PropertyStorageT<T>* s = b->cast_to_StorageT<T>();
    v.addr = (const void*)&s->data_vector();
    v.ty = Tok<T>::id; v.name = b->name(); v.sh = b->shared(); v.pe = b->persistent(); v.att = (bool)*b;
    v.kind = (int)b->entity_type();
    v.def = Tok<T>::dec(T(s->def()));
    for (size_t i = 0; i < s->size(); ++i) v.vals.push_back(Tok<T>::dec(T(s->data_vector()[i])));
    return true;
}
static SView view_base(PropertyStorageBase* b) {
    SView v;
    if (view_base_as<int>(b, v) || view_base_as<bool>(b, v) || view_base_as<double>(b, v) ||
        view_base_as<std::string>(b, v) || view_base_as<Vec3d>(b, v)) return v;
    throw std::logic_error("prop_drv: persistent storage of unknown type");
}

// ------------------------------------------------------------------------------------ handles
struct HBase {
    int kind, ty; long own;
    virtual ~HBase() {}
    virtual HBase* copy() const = 0;
    virtual HBase* move_out() = 0;       // move-constructs a new handle from this one
    virtual SView view() const = 0;
    virtual void write_at(size_t i, long tok) = 0;
    virtual void set_name(const std::string& n) = 0;
    virtual void set_shared(ResourceManager& rm, bool b) = 0;
    virtual void set_persistent(ResourceManager& rm, bool b) = 0;
};
template <class T, class K> struct HImpl : HBase {
    PropertyPtr<T, K> p;
    HImpl(PropertyPtr<T, K> pp, long o) : p(std::move(pp)) { kind = KindOf<K>::id; ty = Tok<T>::id; own = o; }
    HBase* copy() const override { return new HImpl<T, K>(PropertyPtr<T, K>(p), own); }
    HBase* move_out() override { return new HImpl<T, K>(PropertyPtr<T, K>(std::move(p)), own); }
    SView view() const override { SView v = view_of(p); v.own = own; return v; }
    void write_at(size_t i, long tok) override { p.at(typename PropertyPtr<T, K>::EntityHandleT((int)i)) = Tok<T>::enc(tok); }
    void set_name(const std::string& n) override { p.set_name(n); }
    void set_shared(ResourceManager& rm, bool b) override { rm.set_shared(p, b); }
    void set_persistent(ResourceManager& rm, bool b) override { rm.set_persistent(p, b); }
};

enum RegOp { R_REQUEST, R_CSHARED, R_CPERS, R_CPRIV, R_GET, R_EXISTS };
struct RegResult { int res; HBase* h; };   // res: 0 ok (h set), 1 none, 2 true, 3 false

template <class T, class K>
static RegResult reg_call(ResourceManager& rm, RegOp op, const std::string& name, long def, long own) {
    T d = Tok<T>::enc(def);
    switch (op) {
    case R_REQUEST: return {0, new HImpl<T, K>(rm.request_property<T, K>(name, d), own)};
    case R_CSHARED: { auto o = rm.create_shared_property<T, K>(name, d); if (!o) return {1, nullptr}; return {0, new HImpl<T, K>(*o, own)}; }
    case R_CPERS: { auto o = rm.create_persistent_property<T, K>(name, d); if (!o) return {1, nullptr}; return {0, new HImpl<T, K>(*o, own)}; }
    case R_CPRIV: return {0, new HImpl<T, K>(rm.create_private_property<T, K>(name, d), own)};
    case R_GET: { auto o = rm.get_property<T, K>(name); if (!o) return {1, nullptr}; return {0, new HImpl<T, K>(*o, own)}; }
    case R_EXISTS: return {rm.property_exists<T, K>(name) ? 2 : 3, nullptr};
    }
    return {1, nullptr};
}
template <class T>
static RegResult reg_call_k(ResourceManager& rm, RegOp op, int kind, const std::string& name, long def, long own) {
    switch (kind) {
    case 0: return reg_call<T, Entity::Vertex>(rm, op, name, def, own);
    case 1: return reg_call<T, Entity::Edge>(rm, op, name, def, own);
    case 2: return reg_call<T, Entity::HalfEdge>(rm, op, name, def, own);
    case 3: return reg_call<T, Entity::Face>(rm, op, name, def, own);
    case 4: return reg_call<T, Entity::HalfFace>(rm, op, name, def, own);
    case 5: return reg_call<T, Entity::Cell>(rm, op, name, def, own);
    default: return reg_call<T, Entity::Mesh>(rm, op, name, def, own);
    }
}
static RegResult reg_call_tk(ResourceManager& rm, RegOp op, int kind, int ty, const std::string& name, long def, long own) {
    switch (ty) {
    case 0: return reg_call_k<int>(rm, op, kind, name, def, own);
    case 1: return reg_call_k<bool>(rm, op, kind, name, def, own);
    case 2: return reg_call_k<double>(rm, op, kind, name, def, own);
    case 3: return reg_call_k<std::string>(rm, op, kind, name, def, own);
    default: return reg_call_k<Vec3d>(rm, op, kind, name, def, own);
    }
}

// ------------------------------------------------------------------------------------ meshes
struct MeshBox {
    long id = 0; int mtype = 0;
    virtual ~MeshBox() {}
    virtual ResourceManager& rm() = 0;
    virtual TopologyKernel& tk() = 0;
    virtual VertexHandle add_vertex_p(const Vec3d& p) = 0;
    virtual void set_vertex(VertexHandle v, const Vec3d& p) = 0;
    virtual const PropertyPtr<Vec3d, Entity::Vertex>& positions() = 0;
    virtual MeshBox* clone() = 0;
    virtual void assign_from(MeshBox& o) = 0;
    virtual void add_cell_fresh() = 0;
};
static void add_tet_by_faces(TopologyKernel& k) {
    VertexHandle v[4];
    for (auto& x : v) x = k.add_vertex();
    int f[4][3] = {{0, 1, 2}, {0, 2, 3}, {0, 3, 1}, {1, 3, 2}};
    std::vector<HalfFaceHandle> hfs;
    for (auto& t : f) {
        FaceHandle fh = k.add_face(std::vector<VertexHandle>{v[t[0]], v[t[1]], v[t[2]]});
        hfs.push_back(fh.halfface_handle(0));
    }
    k.add_cell(hfs, false);
}
template <class M> struct MeshImpl : MeshBox {
    M m;
    MeshImpl() {}
    explicit MeshImpl(const MeshImpl& o) : MeshBox(o), m(o.m) {}     // the copy constructor under test
    ResourceManager& rm() override { return m; }
    TopologyKernel& tk() override { return m; }
    VertexHandle add_vertex_p(const Vec3d& p) override { return m.add_vertex(p); }
    void set_vertex(VertexHandle v, const Vec3d& p) override { m.set_vertex(v, p); }
    const PropertyPtr<Vec3d, Entity::Vertex>& positions() override { return m.vertex_positions(); }
    MeshBox* clone() override { return new MeshImpl<M>(*this); }
    void assign_from(MeshBox& o) override {
        switch (o.mtype) {
        case 0: m = static_cast<MeshImpl<PolyMesh>&>(o).m; break;
        case 1: m = static_cast<MeshImpl<TetMesh>&>(o).m; break;
        default: m = static_cast<MeshImpl<HexMesh>&>(o).m; break;
        }
    }
    void add_cell_fresh() override;
};
template <> void MeshImpl<PolyMesh>::add_cell_fresh() { add_tet_by_faces(m); }
template <> void MeshImpl<TetMesh>::add_cell_fresh() {
    std::vector<VertexHandle> v; for (int i = 0; i < 4; ++i) v.push_back(m.TopologyKernel::add_vertex());
    m.add_cell(v, false);
}
template <> void MeshImpl<HexMesh>::add_cell_fresh() {
    std::vector<VertexHandle> v; for (int i = 0; i < 8; ++i) v.push_back(m.TopologyKernel::add_vertex());
    m.add_cell(v, false);
}
static MeshBox* new_mesh(int mtype, long id) {
    MeshBox* b = mtype == 0 ? (MeshBox*)new MeshImpl<PolyMesh>() : mtype == 1 ? (MeshBox*)new MeshImpl<TetMesh>() : (MeshBox*)new MeshImpl<HexMesh>();
    b->id = id; b->mtype = mtype;
    b->tk().enable_fast_deletion(false);     // order-preserving erase (see G lines)
    return b;
}

// ------------------------------------------------------------------------------------ driver
struct OpLine { std::string name; std::vector<std::string> a; };

static std::string q(const std::string& s) { return "\"" + s + "\""; }
static std::string unq(const std::string& s) { return (s.size() >= 2 && s.front() == '"' && s.back() == '"') ? s.substr(1, s.size() - 2) : s; }

static uint64_t fnv(uint64_t h, uint64_t x) { for (int i = 0; i < 8; ++i) { h ^= (x >> (8 * i)) & 0xff; h *= 0x100000001b3ull; } return h; }

struct Driver {
    std::map<long, MeshBox*> meshes;         // by mesh id
    std::set<long> used_mesh_ids;
    HBase* handles[MAX_HANDLES] = {};
    long next_mesh_id = 0;
    long tok_counter = 0;
    std::string out;                          // text of the current trace (flushed per step)
    bool quiet = false;

    ~Driver() { for (auto& h : handles) delete h; for (auto& m : meshes) delete m.second; }

    MeshBox* mesh(long id) { auto it = meshes.find(id); return it == meshes.end() ? nullptr : it->second; }

    // digest of every TopologyKernel field observable through the public API
    static uint64_t topo_digest(TopologyKernel& k) {
        uint64_t h = 0xcbf29ce484222325ull;
        h = fnv(h, k.n_vertices()); h = fnv(h, k.n_edges()); h = fnv(h, k.n_faces()); h = fnv(h, k.n_cells());
        for (size_t i = 0; i < k.n_vertices(); ++i) h = fnv(h, k.is_deleted(VertexHandle((int)i)));
        for (size_t i = 0; i < k.n_edges(); ++i) { auto e = k.edge(EdgeHandle((int)i)); h = fnv(h, e.from_vertex().idx()); h = fnv(h, e.to_vertex().idx()); h = fnv(h, k.is_deleted(EdgeHandle((int)i))); }
        for (size_t i = 0; i < k.n_faces(); ++i) { auto f = k.face(FaceHandle((int)i)); h = fnv(h, f.halfedges().size()); for (auto he : f.halfedges()) h = fnv(h, he.idx()); h = fnv(h, k.is_deleted(FaceHandle((int)i))); }
        for (size_t i = 0; i < k.n_cells(); ++i) { auto c = k.cell(CellHandle((int)i)); h = fnv(h, c.halffaces().size()); for (auto hf : c.halffaces()) h = fnv(h, hf.idx()); h = fnv(h, k.is_deleted(CellHandle((int)i))); }
        h = fnv(h, k.deferred_deletion_enabled()); h = fnv(h, k.fast_deletion_enabled());
        h = fnv(h, k.has_vertex_bottom_up_incidences()); h = fnv(h, k.has_edge_bottom_up_incidences()); h = fnv(h, k.has_face_bottom_up_incidences());
        h = fnv(h, k.n_logical_vertices()); h = fnv(h, k.n_logical_edges()); h = fnv(h, k.n_logical_faces()); h = fnv(h, k.n_logical_cells());
        // the three bottom-up incidence caches (outgoing_hes_per_vertex_, incident_hfs_per_he_, incident_cell_per_hf_), read
        // through the circulators / incident_cell() when the cache is switched on (switched off it is cleared and never read).
        // Order inside one list is canonicalised: sorted per vertex (unspecified), rotated to its least element per halfedge
        // (only the cyclic order is specified, C09)
        if (k.has_vertex_bottom_up_incidences())
            for (size_t i = 0; i < k.n_vertices(); ++i) {
                std::vector<int> l; for (auto it = k.voh_iter(VertexHandle((int)i)); it.valid(); ++it) l.push_back(it->idx());
                std::sort(l.begin(), l.end()); h = fnv(h, l.size()); for (int x : l) h = fnv(h, (uint64_t)x);
            }
        if (k.has_edge_bottom_up_incidences())
            for (size_t i = 0; i < k.n_halfedges(); ++i) {
                std::vector<int> l; for (auto it = k.hehf_iter(HalfEdgeHandle((int)i)); it.valid(); ++it) l.push_back(it->idx());
                if (!l.empty()) std::rotate(l.begin(), std::min_element(l.begin(), l.end()), l.end());
                h = fnv(h, l.size()); for (int x : l) h = fnv(h, (uint64_t)x);
            }
        if (k.has_face_bottom_up_incidences())
            for (size_t i = 0; i < k.n_halffaces(); ++i) h = fnv(h, (uint64_t)(int64_t)k.incident_cell(HalfFaceHandle((int)i)).idx());
        return h >> 4;     // keep it comfortably inside every integer type the judge uses
    }

    template <class K> static void collect_pers(ResourceManager& rm, std::vector<SView>& v) {
        auto it = rm.persistent_props_begin<K>(); auto e = rm.persistent_props_end<K>();
        for (; it != e; ++it) v.push_back(view_base(*it));
    }

    // canonical dump of everything
    std::string dump() {
        std::ostringstream o;
        std::vector<SView> st;                      // distinct storages in order of first appearance
        auto sid = [&](const SView& v) -> size_t {
            for (size_t i = 0; i < st.size(); ++i) if (st[i].addr == v.addr) return i;
            st.push_back(v); return st.size() - 1;
        };
        std::ostringstream ms;
        for (auto& kv : meshes) {
            MeshBox* b = kv.second; TopologyKernel& k = b->tk(); ResourceManager& rm = b->rm();
            ms << "m " << b->id << " " << b->mtype << " " << k.n_vertices() << " " << k.n_edges() << " " << k.n_faces() << " " << k.n_cells()
               << " " << topo_digest(k) << " np";
            ms << " " << rm.n_props<Entity::Vertex>() << " " << rm.n_props<Entity::Edge>() << " " << rm.n_props<Entity::HalfEdge>()
               << " " << rm.n_props<Entity::Face>() << " " << rm.n_props<Entity::HalfFace>() << " " << rm.n_props<Entity::Cell>() << " " << rm.n_props<Entity::Mesh>();
            ms << " pp " << rm.n_persistent_props<Entity::Vertex>() << " " << rm.n_persistent_props<Entity::Edge>() << " " << rm.n_persistent_props<Entity::HalfEdge>()
               << " " << rm.n_persistent_props<Entity::Face>() << " " << rm.n_persistent_props<Entity::HalfFace>() << " " << rm.n_persistent_props<Entity::Cell>() << " " << rm.n_persistent_props<Entity::Mesh>();
            SView pv = view_of(b->positions()); pv.own = b->id;
            ms << " pos " << sid(pv);
            std::vector<SView> pers;
            collect_pers<Entity::Vertex>(rm, pers); collect_pers<Entity::Edge>(rm, pers); collect_pers<Entity::HalfEdge>(rm, pers);
            collect_pers<Entity::Face>(rm, pers); collect_pers<Entity::HalfFace>(rm, pers); collect_pers<Entity::Cell>(rm, pers); collect_pers<Entity::Mesh>(rm, pers);
            // iteration order inside std::set<shared_ptr> is by address: canonicalise
            std::sort(pers.begin(), pers.end(), [](const SView& a, const SView& c) {
                if (a.kind != c.kind) return a.kind < c.kind;
                if (a.ty != c.ty) return a.ty < c.ty;
                if (a.name != c.name) return a.name < c.name;
                return a.vals < c.vals; });
            ms << " pers " << pers.size();
            for (auto& p : pers) { p.own = b->id; ms << " " << sid(p); }
            ms << "\n";
        }
        std::ostringstream hs;
        for (int i = 0; i < MAX_HANDLES; ++i) if (handles[i]) hs << "h " << i << " " << sid(handles[i]->view()) << "\n";
        o << "S\n" << ms.str();
        for (size_t i = 0; i < st.size(); ++i) {
            const SView& v = st[i];
            o << "s " << i << " " << v.own << " " << KN[v.kind] << " " << TN[v.ty] << " " << (int)v.sh << " " << (int)v.pe << " " << (int)v.att
              << " " << v.def << " " << q(v.name) << " " << v.vals.size();
            for (long t : v.vals) o << " " << t;
            o << "\n";
        }
        o << hs.str() << "E\n";
        return o.str();
    }

    void emit(const std::string& s) { if (!quiet) { fputs(s.c_str(), stdout); fflush(stdout); } }

    // ------------------------------------------------------------------ validity + execution
    int free_handle() { for (int i = 0; i < MAX_HANDLES; ++i) if (!handles[i]) return i; return -1; }

    static bool is_int(const std::string& s) { if (s.empty()) return false; size_t i = (s[0] == '-') ? 1 : 0; if (i >= s.size()) return false; for (; i < s.size(); ++i) if (!isdigit((unsigned char)s[i])) return false; return true; }

    // closure of an immediate deletion (what delete_* removes physically when deferred deletion
    // is off), computed from the definitions: the upward closure of the seed entity
    struct Erased { std::vector<int> v, e, f, c; bool any() const { return !v.empty() || !e.empty() || !f.empty() || !c.empty(); } };
    static Erased closure(TopologyKernel& k, int kind, int idx) {
        std::set<int> V, E, F, C;
        if (kind == 0) V.insert(idx); if (kind == 1) E.insert(idx); if (kind == 3) F.insert(idx); if (kind == 5) C.insert(idx);
        for (size_t i = 0; i < k.n_edges(); ++i) { auto e = k.edge(EdgeHandle((int)i)); if (V.count(e.from_vertex().idx()) || V.count(e.to_vertex().idx())) E.insert((int)i); }
        for (size_t i = 0; i < k.n_faces(); ++i) for (auto he : k.face(FaceHandle((int)i)).halfedges()) if (E.count(he.idx() / 2)) F.insert((int)i);
        for (size_t i = 0; i < k.n_cells(); ++i) for (auto hf : k.cell(CellHandle((int)i)).halffaces()) if (F.count(hf.idx() / 2)) C.insert((int)i);
        Erased r; r.v.assign(V.begin(), V.end()); r.e.assign(E.begin(), E.end()); r.f.assign(F.begin(), F.end()); r.c.assign(C.begin(), C.end());
        return r;
    }
    static Erased marked(TopologyKernel& k) {
        Erased r;
        for (size_t i = 0; i < k.n_vertices(); ++i) if (k.is_deleted(VertexHandle((int)i))) r.v.push_back((int)i);
        for (size_t i = 0; i < k.n_edges(); ++i) if (k.is_deleted(EdgeHandle((int)i))) r.e.push_back((int)i);
        for (size_t i = 0; i < k.n_faces(); ++i) if (k.is_deleted(FaceHandle((int)i))) r.f.push_back((int)i);
        for (size_t i = 0; i < k.n_cells(); ++i) if (k.is_deleted(CellHandle((int)i))) r.c.push_back((int)i);
        return r;
    }
    static std::string gline(const Erased& r) {
        std::ostringstream o; o << "G";
        for (auto* l : {&r.v, &r.e, &r.f, &r.c}) { o << " " << l->size(); for (int x : *l) o << " " << x; }
        o << "\n"; return o.str();
    }

    // Executes one op line if it is valid in the current state.  Returns false (and prints
    // nothing) when the operation's precondition does not hold.
    bool exec(const OpLine& op) {
        const std::string& n = op.name; const auto& a = op.a;
        auto I = [&](size_t i) -> long { return atol(a[i].c_str()); };
        auto need = [&](size_t k) { if (a.size() < k) return false; return true; };
        std::string result = "unit", ghost;
        std::string oline = "O " + n; for (auto& s : a) oline += " " + s; oline += "\n";

        // ---- phase 1: validity (no side effects) ----
        MeshBox* mb = nullptr; int h = -1, h2 = -1;
        auto getmesh = [&](size_t i) -> bool { if (!need(i + 1) || !is_int(a[i])) return false; mb = mesh(I(i)); return mb != nullptr; };
        auto live_h = [&](size_t i, int& hh) -> bool { if (!need(i + 1) || !is_int(a[i])) return false; long x = I(i); if (x < 0 || x >= MAX_HANDLES || !handles[x]) return false; hh = (int)x; return true; };
        auto free_h = [&](size_t i, int& hh) -> bool { if (!need(i + 1) || !is_int(a[i])) return false; long x = I(i); if (x < 0 || x >= MAX_HANDLES || handles[x]) return false; hh = (int)x; return true; };
        RegOp rop = R_REQUEST; bool is_reg = false;
        if (n == "request") { rop = R_REQUEST; is_reg = true; } else if (n == "create_shared") { rop = R_CSHARED; is_reg = true; }
        else if (n == "create_persistent") { rop = R_CPERS; is_reg = true; } else if (n == "create_private") { rop = R_CPRIV; is_reg = true; }
        else if (n == "get") { rop = R_GET; is_reg = true; }

        try {
        if (is_reg) {
            // <m> <h> <kind> <type> "<name>" [<def>]
            if (!getmesh(0) || !free_h(1, h) || !need(5)) return false;
            int k = kind_id(a[2]), t = type_id(a[3]); if (k < 0 || t < 0) return false;
            long def = a.size() > 5 ? I(5) : 0;
            emit(oline);
            try {
                RegResult r = reg_call_tk(mb->rm(), rop, k, t, unq(a[4]), def, mb->id);
                if (r.res == 0) { handles[h] = r.h; result = "ok"; } else result = "none";
            } catch (const std::runtime_error&) { result = "exc runtime_error"; }
        } else if (n == "exists") {
            if (!getmesh(0) || !need(4)) return false;
            int k = kind_id(a[1]), t = type_id(a[2]); if (k < 0 || t < 0) return false;
            emit(oline);
            RegResult r = reg_call_tk(mb->rm(), R_EXISTS, k, t, unq(a[3]), 0, mb->id);
            result = r.res == 2 ? "true" : "false";
        } else if (n == "set_shared" || n == "set_persistent") {
            if (!getmesh(0) || !live_h(1, h) || !need(3)) return false;
            SView v = handles[h]->view();
            if (!v.att || handles[h]->own != mb->id) return false;      // only on the owning mesh
            bool b = I(2) != 0;
            emit(oline);
            try { if (n == "set_shared") handles[h]->set_shared(mb->rm(), b); else handles[h]->set_persistent(mb->rm(), b); }
            catch (const std::runtime_error&) { result = "exc runtime_error"; }
        } else if (n == "set_name") {
            if (!live_h(0, h) || !need(2)) return false;
            emit(oline);
            try { handles[h]->set_name(unq(a[1])); } catch (const std::runtime_error&) { result = "exc runtime_error"; }
        } else if (n == "write") {
            if (!live_h(0, h) || !need(3)) return false;
            long i = I(1); if (i < 0) return false;
            emit(oline);
            try { handles[h]->write_at((size_t)i, I(2)); } catch (const std::out_of_range&) { result = "exc out_of_range"; }
        } else if (n == "hcopy" || n == "hmove") {
            if (!live_h(0, h) || !free_h(1, h2)) return false;
            emit(oline);
            if (n == "hcopy") handles[h2] = handles[h]->copy();
            else { handles[h2] = handles[h]->move_out(); delete handles[h]; handles[h] = nullptr; }
        } else if (n == "hdrop") {
            if (!live_h(0, h)) return false;
            emit(oline);
            delete handles[h]; handles[h] = nullptr;
        } else if (n == "clear_props") {
            if (!getmesh(0) || !need(2)) return false;
            int k = kind_id(a[1]); if (k < 0) return false;
            emit(oline);
            ResourceManager& rm = mb->rm();
            switch (k) { case 0: rm.clear_vertex_props(); break; case 1: rm.clear_edge_props(); break; case 2: rm.clear_halfedge_props(); break;
                         case 3: rm.clear_face_props(); break; case 4: rm.clear_halfface_props(); break; case 5: rm.clear_cell_props(); break; default: rm.clear_mesh_props(); }
        } else if (n == "clear_all_props") {
            if (!getmesh(0)) return false;
            emit(oline); mb->rm().clear_all_props();
        } else if (n == "clear") {
            if (!getmesh(0) || !need(2)) return false;
            emit(oline); mb->tk().clear(I(1) != 0);
        } else if (n == "add_vertex") {
            if (!getmesh(0) || !need(2)) return false;
            if (mb->tk().n_vertices() >= 40) return false;
            emit(oline); mb->add_vertex_p(Vec3d((double)I(1), 0, 0));
        } else if (n == "set_vertex") {
            if (!getmesh(0) || !need(3)) return false;
            long v = I(1); if (v < 0 || (size_t)v >= mb->tk().n_vertices()) return false;
            emit(oline); mb->set_vertex(VertexHandle((int)v), Vec3d((double)I(2), 0, 0));
        } else if (n == "add_edge") {
            if (!getmesh(0) || !need(3)) return false;
            TopologyKernel& k = mb->tk(); long x = I(1), y = I(2);
            if (x < 0 || y < 0 || x == y || (size_t)x >= k.n_vertices() || (size_t)y >= k.n_vertices()) return false;
            if (k.is_deleted(VertexHandle((int)x)) || k.is_deleted(VertexHandle((int)y)) || k.n_edges() >= 60) return false;
            emit(oline); k.add_edge(VertexHandle((int)x), VertexHandle((int)y));
        } else if (n == "add_face") {
            // <m> <n> v1..vn ; n = 3 for tet kernels, 4 for hex kernels, 3|4 for polyhedral
            if (!getmesh(0) || !need(2)) return false;
            TopologyKernel& k = mb->tk(); long cnt = I(1);
            if (cnt < 3 || cnt > 4 || a.size() < (size_t)(2 + cnt)) return false;
            if ((mb->mtype == 1 && cnt != 3) || (mb->mtype == 2 && cnt != 4) || k.n_faces() >= 30) return false;
            std::vector<VertexHandle> vs; std::set<long> seen;
            for (long i = 0; i < cnt; ++i) { long v = I(2 + i); if (v < 0 || (size_t)v >= k.n_vertices() || k.is_deleted(VertexHandle((int)v)) || !seen.insert(v).second) return false; vs.push_back(VertexHandle((int)v)); }
            emit(oline); k.add_face(vs);
        } else if (n == "add_cell") {
            if (!getmesh(0)) return false;
            if (mb->tk().n_cells() >= 6 || mb->tk().n_vertices() >= 40) return false;
            emit(oline); mb->add_cell_fresh();
        } else if (n == "delete_vertex" || n == "delete_edge" || n == "delete_face" || n == "delete_cell") {
            if (!getmesh(0) || !need(2)) return false;
            TopologyKernel& k = mb->tk(); long i = I(1); if (i < 0) return false;
            int kind = n == "delete_vertex" ? 0 : n == "delete_edge" ? 1 : n == "delete_face" ? 3 : 5;
            size_t lim = kind == 0 ? k.n_vertices() : kind == 1 ? k.n_edges() : kind == 3 ? k.n_faces() : k.n_cells();
            if ((size_t)i >= lim) return false;
            bool del = kind == 0 ? k.is_deleted(VertexHandle((int)i)) : kind == 1 ? k.is_deleted(EdgeHandle((int)i)) : kind == 3 ? k.is_deleted(FaceHandle((int)i)) : k.is_deleted(CellHandle((int)i));
            if (del) return false;
            if (!k.deferred_deletion_enabled()) ghost = gline(closure(k, kind, (int)i));
            emit(oline);
            if (kind == 0) k.delete_vertex(VertexHandle((int)i)); else if (kind == 1) k.delete_edge(EdgeHandle((int)i));
            else if (kind == 3) k.delete_face(FaceHandle((int)i)); else k.delete_cell(CellHandle((int)i));
        } else if (n == "collect_garbage") {
            if (!getmesh(0)) return false;
            TopologyKernel& k = mb->tk();
            if (k.deferred_deletion_enabled() && k.needs_garbage_collection()) ghost = gline(marked(k));
            emit(oline); k.collect_garbage();
        } else if (n == "deferred") {
            if (!getmesh(0) || !need(2)) return false;
            TopologyKernel& k = mb->tk(); bool b = I(1) != 0;
            if (k.deferred_deletion_enabled() && !b && k.needs_garbage_collection()) ghost = gline(marked(k));   // switching off collects
            emit(oline); k.enable_deferred_deletion(b);
        } else if (n == "new_mesh") {
            if (!need(2) || !is_int(a[0])) return false;
            long id = I(0), mt = I(1); if (mt < 0 || mt > 2 || id < 0 || used_mesh_ids.count(id) || (int)meshes.size() >= MAX_MESHES) return false;
            emit(oline); meshes[id] = new_mesh((int)mt, id); used_mesh_ids.insert(id);
        } else if (n == "copy") {
            // <src> <dst>: Mesh dst(src)
            if (!getmesh(0) || !need(2) || !is_int(a[1])) return false;
            long id = I(1); if (id < 0 || used_mesh_ids.count(id) || (int)meshes.size() >= MAX_MESHES) return false;
            emit(oline); MeshBox* c = mb->clone(); c->id = id; meshes[id] = c; used_mesh_ids.insert(id);
        } else if (n == "assign") {
            // <dst> <src>: dst = src (any kernel combination, dst == src allowed)
            if (!getmesh(0) || !need(2) || !is_int(a[1])) return false;
            MeshBox* src = mesh(I(1)); if (!src) return false;
            emit(oline); mb->assign_from(*src);
        } else if (n == "destroy") {
            if (!getmesh(0)) return false;
            emit(oline); meshes.erase(mb->id); delete mb;
        } else return false;
        } catch (const std::runtime_error&) { result = "exc runtime_error"; }
          catch (const std::bad_cast&) { result = "exc bad_cast"; }
          catch (const std::out_of_range&) { result = "exc out_of_range"; }
          catch (const std::logic_error& e) { result = std::string("exc logic_error"); }
          catch (const std::exception&) { result = "exc other"; }
        emit(ghost + "R " + result + "\n" + dump());
        return true;
    }

    // ------------------------------------------------------------------ random generation
    struct Profile { std::vector<int> kinds, types; std::vector<std::string> names; bool edge; };

    long fresh_tok() { return ++tok_counter; }

    OpLine gen(vh::Rng& r, const Profile& pf) {
        auto S = [](long x) { return std::to_string(x); };
        std::vector<long> mids; for (auto& kv : meshes) mids.push_back(kv.first);
        std::vector<int> live; for (int i = 0; i < MAX_HANDLES; ++i) if (handles[i]) live.push_back(i);
        int fh = free_handle();
        auto pick_name = [&]() -> std::string {
            if (r.chance(pf.edge ? 12 : 3, 100)) return "";
            if (r.chance(pf.edge ? 10 : 2, 100)) return "ovm:position";
            return r.pick(pf.names); };
        auto pick_kind = [&]() { return std::string(KN[r.pick(pf.kinds)]); };
        auto pick_type = [&]() { return std::string(TN[r.pick(pf.types)]); };
        if (mids.empty()) return {"new_mesh", {S(next_mesh_id++), S(r.below(3))}};
        long m = r.pick(mids);
        for (int attempt = 0; attempt < 50; ++attempt) {
            int c = (int)r.below(100);
            if (c < 30) {                                   // registry lookups / creation
                static const char* ops[] = {"request", "request", "create_shared", "create_persistent", "create_persistent", "create_private", "get", "get", "exists"};
                std::string op = ops[r.below(9)];
                std::string name = pick_name(), k = pick_kind(), t = pick_type();
                if (name == "ovm:position") { k = "V"; t = "vec3d"; }
                if (op == "exists") return {op, {S(m), k, t, q(name)}};
                if (fh < 0) continue;
                if (op == "get") return {op, {S(m), S(fh), k, t, q(name)}};
                return {op, {S(m), S(fh), k, t, q(name), S(100 + r.below(5))}};
            } else if (c < 42) {                            // flags and names
                if (live.empty()) continue;
                int h = r.pick(live);
                int w = (int)r.below(10);
                if (w < 4) return {"set_shared", {S(handles[h]->own), S(h), S(r.below(2))}};
                if (w < 8) return {"set_persistent", {S(handles[h]->own), S(h), S(r.below(2))}};
                return {"set_name", {S(h), q(pick_name())}};
            } else if (c < 52) {                            // handle copies / moves / drops
                if (live.empty()) continue;
                int h = r.pick(live); int w = (int)r.below(10);
                if (w < 3 && fh >= 0) return {"hcopy", {S(h), S(fh)}};
                if (w < 5 && fh >= 0) return {"hmove", {S(h), S(fh)}};
                return {"hdrop", {S(h)}};
            } else if (c < 64) {                            // writes
                if (live.empty()) continue;
                int h = r.pick(live); size_t n = handles[h]->view().vals.size();
                if (n == 0 && !r.chance(1, 8)) continue;
                if (n == 0 || r.chance(pf.edge ? 15 : 4, 100)) return {"write", {S(h), S((long)n + (long)r.below(2)), S(fresh_tok())}};
                return {"write", {S(h), S((long)r.below(n)), S(fresh_tok())}};
            } else if (c < 68) {
                int w = (int)r.below(10);
                if (w < 5) return {"clear_props", {S(m), pick_kind()}};
                if (w < 7) return {"clear_all_props", {S(m)}};
                return {"clear", {S(m), S(r.below(2))}};
            } else if (c < 80) {                            // growth
                TopologyKernel& k = mesh(m)->tk(); int w = (int)r.below(10);
                std::vector<long> lv; for (size_t i = 0; i < k.n_vertices(); ++i) if (!k.is_deleted(VertexHandle((int)i))) lv.push_back((long)i);
                if (w < 4 || lv.size() < 2) return {"add_vertex", {S(m), S(fresh_tok())}};
                if (w < 6) { long x = r.pick(lv), y = r.pick(lv); if (x == y) continue; return {"add_edge", {S(m), S(x), S(y)}}; }
                if (w < 8) {
                    size_t cnt = mesh(m)->mtype == 1 ? 3 : mesh(m)->mtype == 2 ? 4 : 3 + r.below(2);
                    if (lv.size() < cnt) continue;
                    r.shuffle(lv); std::vector<std::string> aa{S(m), S((long)cnt)}; for (size_t i = 0; i < cnt; ++i) aa.push_back(S(lv[i]));
                    return {"add_face", aa};
                }
                return {"add_cell", {S(m)}};
            } else if (c < 86) {                            // deletion / garbage collection / mode
                TopologyKernel& k = mesh(m)->tk(); int w = (int)r.below(12);
                if (w < 3 && k.n_vertices()) return {"delete_vertex", {S(m), S((long)r.below(k.n_vertices()))}};
                if (w < 5 && k.n_edges()) return {"delete_edge", {S(m), S((long)r.below(k.n_edges()))}};
                if (w < 7 && k.n_faces()) return {"delete_face", {S(m), S((long)r.below(k.n_faces()))}};
                if (w < 8 && k.n_cells()) return {"delete_cell", {S(m), S((long)r.below(k.n_cells()))}};
                if (w < 10) return {"collect_garbage", {S(m)}};
                return {"deferred", {S(m), S(r.below(2))}};
            } else if (c < 88) {
                TopologyKernel& k = mesh(m)->tk(); if (!k.n_vertices()) continue;
                return {"set_vertex", {S(m), S((long)r.below(k.n_vertices())), S(fresh_tok())}};
            } else {                                        // mesh lifetime
                int w = (int)r.below(12);
                if (w < 4 && (int)meshes.size() < MAX_MESHES) return {"copy", {S(m), S(next_mesh_id++)}};
                if (w < 8) { long s = r.pick(mids); if (s == m && !r.chance(1, 4)) continue; return {"assign", {S(m), S(s)}}; }
                if (w < 10 && meshes.size() > 1) return {"destroy", {S(m)}};
                if ((int)meshes.size() < MAX_MESHES && r.chance(1, 2)) return {"new_mesh", {S(next_mesh_id++), S(r.below(3))}};
            }
        }
        return {"exists", {S(m), "V", "int", q("a")}};
    }
};

// ------------------------------------------------------------------------------------ children
static std::string ERRFILE;

// runs `body` in a forked child writing to our stdout; returns "" or the X reason
static std::string in_child(const std::function<void()>& body, int timeout_s) {
    fflush(stdout);
    pid_t pid = fork();
    if (pid == 0) {
        if (!ERRFILE.empty()) { int fd = open(ERRFILE.c_str(), O_WRONLY | O_CREAT | O_TRUNC, 0644); if (fd >= 0) { dup2(fd, 2); close(fd); } }
        body(); fflush(stdout); _exit(0);
    }
    int status = 0; int waited = 0;
    while (true) {
        pid_t r = waitpid(pid, &status, WNOHANG);
        if (r == pid) break;
        usleep(20000); waited += 20;
        if (waited > timeout_s * 1000) { kill(pid, SIGKILL); waitpid(pid, &status, 0); return "timeout"; }
    }
    if (WIFEXITED(status) && WEXITSTATUS(status) == 0) return "";
    std::string why = WIFSIGNALED(status) ? "signal=" + std::to_string(WTERMSIG(status)) : "exit=" + std::to_string(WEXITSTATUS(status));
    if (!ERRFILE.empty()) {
        std::ifstream f(ERRFILE); std::string line; int n = 0;
        while (std::getline(f, line) && n < 40) {
            ++n;
            if (line.find("ERROR: AddressSanitizer") != std::string::npos || line.find("runtime error:") != std::string::npos || line.find("Assertion") != std::string::npos) {
                for (auto& ch : line) if (ch == ' ') ch = '_';
                why += " msg=" + line.substr(0, 200); break;
            }
        }
    }
    return why;
}

static std::vector<OpLine> read_ops(const std::string& file) {
    std::vector<OpLine> ops; std::ifstream f(file); std::string line;
    while (std::getline(f, line)) {
        if (line.rfind("O ", 0) != 0) continue;
        std::istringstream is(line.substr(2)); OpLine o; is >> o.name; std::string t; while (is >> t) o.a.push_back(t);
        ops.push_back(o);
    }
    return ops;
}

// ------------------------------------------------------------------------------------ enumeration
// All operation sequences of length <= L over one mesh, 2 names x 2 types, kind V.  A sequence
// is executed silently up to its last operation; then one single-step trace (state before,
// op, state after) is printed unless the same (state, op) text was already printed.
struct EnumOp { std::string name; std::vector<std::string> a; int target; };   // target: -1 none, -2 free slot, 0 first live, 1 last live
static std::vector<EnumOp> enum_alphabet() {
    std::vector<EnumOp> A;
    const char* names[2] = {"a", "b"}; const char* types[2] = {"int", "double"};
    for (const char* op : {"request", "create_shared", "create_persistent"})
        for (auto nm : names) for (auto ty : types) A.push_back({op, {"0", "?", "V", ty, q(nm), "7"}, -2});
    for (auto nm : names) for (auto ty : types) A.push_back({"get", {"0", "?", "V", ty, q(nm)}, -2});
    A.push_back({"create_private", {"0", "?", "V", "int", q("a"), "7"}, -2});
    A.push_back({"request", {"0", "?", "V", "int", q(""), "7"}, -2});
    A.push_back({"create_shared", {"0", "?", "V", "int", q(""), "7"}, -2});
    for (int b = 0; b < 2; ++b) { A.push_back({"set_shared", {"0", "?", std::to_string(b)}, 1}); A.push_back({"set_persistent", {"0", "?", std::to_string(b)}, 1}); }
    for (auto nm : {"a", "b", ""}) A.push_back({"set_name", {"?", q(nm)}, 1});
    A.push_back({"hdrop", {"?"}, 1}); A.push_back({"hdrop", {"?"}, 0});
    A.push_back({"clear_props", {"0", "V"}, -1});
    A.push_back({"add_vertex", {"0", "5"}, -1});
    A.push_back({"clear", {"0", "1"}, -1});
    A.push_back({"copy", {"0", "9"}, -1});         // second mesh (id 9); later ops keep addressing mesh 0
    A.push_back({"assign", {"0", "9"}, -1});
    A.push_back({"assign", {"9", "0"}, -1});
    A.push_back({"destroy", {"0"}, -1});
    return A;
}

int main(int argc, char** argv) {
    uint64_t seed = vh::env_seed(); long traces = 1, ops = 60, first = 0, enumL = 0; std::string stream = "main", replay;
    for (int i = 1; i < argc; ++i) {
        std::string s = argv[i];
        auto nx = [&]() -> std::string { return i + 1 < argc ? argv[++i] : ""; };
        if (s == "--seed") seed = strtoull(nx().c_str(), nullptr, 10); else if (s == "--traces") traces = atol(nx().c_str());
        else if (s == "--ops") ops = atol(nx().c_str()); else if (s == "--first") first = atol(nx().c_str());
        else if (s == "--stream") stream = nx(); else if (s == "--replay") replay = nx(); else if (s == "--err") ERRFILE = nx();
        else if (s == "--enum") enumL = atol(nx().c_str());
        else { fprintf(stderr, "unknown argument %s\n", s.c_str()); return 2; }
    }
    signal(SIGPIPE, SIG_IGN);

    if (!replay.empty()) {
        std::vector<OpLine> rops = read_ops(replay);
        printf("T prop_drv C13C14 seed=%llu stream=replay trace=0\n", (unsigned long long)seed); fflush(stdout);
        std::string x = in_child([&]() {
            Driver d; d.emit(d.dump());
            for (auto& o : rops) d.exec(o);
        }, 60);
        if (!x.empty()) printf("X %s\n", x.c_str());
        printf("Z\n");
        return 0;
    }

    if (enumL > 0) {
        std::vector<EnumOp> A = enum_alphabet();
        // the whole enumeration of one first-op subtree runs in one child; the child announces
        // each sequence (`Q`) so that an abort is attributed to it
        long total = 0;
        for (size_t a0 = 0; a0 < A.size(); ++a0) {
            std::string x = in_child([&]() {
                std::unordered_set<uint64_t> seen;
                std::vector<size_t> seq{a0};
                auto concretize = [&](Driver& d, const EnumOp& e, OpLine& out) -> bool {
                    out.name = e.name; out.a = e.a;
                    int slot = -1;
                    if (e.target == -2) slot = d.free_handle();
                    else if (e.target == 0) { for (int i = 0; i < MAX_HANDLES; ++i) if (d.handles[i]) { slot = i; break; } }
                    else if (e.target == 1) { for (int i = MAX_HANDLES - 1; i >= 0; --i) if (d.handles[i]) { slot = i; break; } }
                    if (e.target != -1) { if (slot < 0) return false; for (auto& s : out.a) if (s == "?") s = std::to_string(slot); }
                    return true;
                };
                std::function<void()> rec = [&]() {
                    // execute seq silently except for the last op
                    {
                        Driver d; d.quiet = true;
                        d.exec({"new_mesh", {"0", "0"}});
                        bool ok = true; OpLine ol;
                        for (size_t i = 0; i + 1 < seq.size() && ok; ++i) { if (!concretize(d, A[seq[i]], ol) || !d.exec(ol)) ok = false; }
                        if (ok && concretize(d, A[seq.back()], ol)) {
                            std::string pre = d.dump();
                            std::string key = pre + ol.name; for (auto& s : ol.a) key += " " + s;
                            uint64_t hsh = 1469598103934665603ull; for (unsigned char ch : key) { hsh ^= ch; hsh *= 1099511628211ull; }
                            printf("Q"); for (size_t i : seq) printf(" %zu", i); printf("\n");
                            if (seen.insert(hsh).second) {
                                printf("T prop_drv C13C14 seed=0 stream=enum trace=%zu", seq[0]); for (size_t i = 1; i < seq.size(); ++i) printf(".%zu", seq[i]); printf("\n");
                                fputs(pre.c_str(), stdout); fflush(stdout);
                                d.quiet = false;
                                if (!d.exec(ol)) { printf("R invalid\n"); }
                                printf("Z\n"); fflush(stdout);
                            }
                        } else ok = false;
                        if (!ok) return;        // an invalid prefix has no valid extensions either
                    }
                    if ((long)seq.size() < enumL) for (size_t a = 0; a < A.size(); ++a) { seq.push_back(a); rec(); seq.pop_back(); }
                };
                rec();
            }, 3600);
            if (!x.empty()) { printf("X %s\nZ\n", x.c_str()); }
            ++total;
        }
        return 0;
    }

    for (long t = first; t < first + traces; ++t) {
        printf("T prop_drv C13C14 seed=%llu stream=%s trace=%ld\n", (unsigned long long)seed, stream.c_str(), t); fflush(stdout);
        std::string x = in_child([&]() {
            vh::Rng r(vh::mix(seed, (uint64_t)t * 2 + (stream == "edge" ? 1 : 0)));
            Driver d; d.emit(d.dump());
            Driver::Profile pf; pf.edge = (stream == "edge");
            // a small universe per trace so that names, types and kinds collide
            std::vector<int> ks{0, 1, 2, 3, 4, 5, 6}, ts{0, 1, 2, 3, 4}; r.shuffle(ks); r.shuffle(ts);
            size_t nk = 1 + r.below(3), nt = 1 + r.below(3);
            pf.kinds.assign(ks.begin(), ks.begin() + nk); pf.types.assign(ts.begin(), ts.begin() + nt);
            if (r.chance(1, 2) && std::find(pf.kinds.begin(), pf.kinds.end(), 0) == pf.kinds.end()) pf.kinds.push_back(0);
            std::vector<std::string> pool{"a", "b", "c"}; r.shuffle(pool); pf.names.assign(pool.begin(), pool.begin() + 1 + r.below(3));
            d.exec({"new_mesh", {std::to_string(d.next_mesh_id++), std::to_string(r.below(3))}});
            for (long i = 1; i < ops; ++i) {
                bool done = false;
                for (int tries = 0; tries < 20 && !done; ++tries) done = d.exec(d.gen(r, pf));
            }
        }, 60);
        if (!x.empty()) printf("X %s\n", x.c_str());
        printf("Z\n"); fflush(stdout);
    }
    return 0;
}

// tet_drv: structured operation histories on a real tetrahedral OpenVolumeMesh kernel
// (TetrahedralGeometryKernel<Vec3d>, public API only) for property C15.  Trace / dump format is
// that of harness/kernel_drv.cc (DESIGN.md Appendix A) so that Judge.parseFile reads it; the
// extra query lines all start with `t`.
//
//   tet_drv --seed S --first F --traces N --ops M --out FILE [--replay TRACE]
//
// What a trace contains: tets glued along faces / edges / vertices (or not at all), built through
// every construction path of the tet kernel (add_cell(v0..v3), add_cell(vector), add_halfface /
// add_halfedge conveniences, plain add_face + add_cell), shared faces and edges pre-stored in the
// opposite rotation / direction, rejected calls (wrong valence, occupied halfface, missing
// incidences), deletions in all modes, garbage collection, swaps, in-trace edge collapses and
// splits; after each step, for ALL cells x halffaces x halfedges / vertices: get_cell_vertices
// (4 overloads), halfface_opposite_vertex, vertex_opposite_halfface, tv_iter, and for a sample of
// cells every constructor choice of TetTopology with all accessors and get_label overloads, and
// TriangleTopology.  At the end of a trace, for each of the four deletion modes (deferred x fast):
// `probe_mode d f` switches the mode on a forked copy of the process, then `probe_collapse h` =
// collapse_edge(h) for every halfedge satisfying the link condition there, each on a further forked
// copy (probe steps do not advance the state of the trace).
#include "common.hh"
#include <OpenVolumeMesh/Mesh/TetrahedralMesh.hh>
#include <OpenVolumeMesh/Mesh/TetrahedralGeometryKernel.hh>
#include <OpenVolumeMesh/Unstable/Topology/TetTopology.hh>
#include <OpenVolumeMesh/Unstable/Topology/TriangleTopology.hh>
#include "tetlabels_names.inc"
#include <sys/wait.h>
#include <unistd.h>
#include <signal.h>
#include <functional>
#include <map>
#include <memory>
#include <set>

using namespace OpenVolumeMesh;
using Vec3d = Geometry::Vec3d;
typedef TetrahedralGeometryKernel<Vec3d, TetrahedralMeshTopologyKernel> TetMesh;
using TT = TetTopology;
using TR = TriangleTopology;

static FILE* OUT = stdout;

// ---------------------------------------------------------------------------------------------
// property columns (tokens) -- as in kernel_drv.cc
struct PropBase {
    std::string key; int kind; std::string type; long dflt;
    virtual ~PropBase() {}
    virtual size_t size() const = 0;
    virtual long get(size_t i) const = 0;
    virtual void set(size_t i, long tok) = 0;
};
template <class T> struct Tok;
template <> struct Tok<int> { static int enc(long t) { return (int)t; } static long dec(int v) { return v; } static const char* name() { return "int"; } };
template <> struct Tok<bool> { static bool enc(long t) { return (t & 1) != 0; } static long dec(bool v) { return v ? 1 : 0; } static const char* name() { return "bool"; } };
template <> struct Tok<std::string> { static std::string enc(long t) { return std::to_string(t); } static long dec(const std::string& v) { return v.empty() ? -777 : atol(v.c_str()); } static const char* name() { return "string"; } };

template <class T, class Tag> struct PropBox : PropBase {
    PropertyPtr<T, Tag> p;
    explicit PropBox(PropertyPtr<T, Tag> pp) : p(std::move(pp)) {}
    size_t size() const override { return p.size(); }
    long get(size_t i) const override { return Tok<T>::dec(T(p.data_vector()[i])); }
    void set(size_t i, long tok) override { p[HandleT<Tag>((int)i)] = Tok<T>::enc(tok); }
};
static const char* KIND_NAMES[7] = {"v", "e", "he", "f", "hf", "c", "m"};

struct Op { std::string name; std::vector<long> a; };

template <class O> static int optv(const O& o) { return o ? (int)*o : -1; }

struct Driver {
    TetMesh& m;
    vh::Rng rng;
    std::vector<std::unique_ptr<PropBase>> props;
    long next_tok = 100;
    int topo_id = 0;
    bool in_probe = false;
    std::map<std::string, long> stat;

    Driver(TetMesh& mm, uint64_t seed) : m(mm), rng(seed) {}

    // ---------------- helpers on the current mesh (definition scans only)
    int nV() const { return (int)m.n_vertices(); }
    int nE() const { return (int)m.n_edges(); }
    int nF() const { return (int)m.n_faces(); }
    int nC() const { return (int)m.n_cells(); }
    bool liveV(int v) const { return v >= 0 && v < nV() && !m.is_deleted(VertexHandle(v)); }
    bool liveE(int e) const { return e >= 0 && e < nE() && !m.is_deleted(EdgeHandle(e)); }
    bool liveF(int f) const { return f >= 0 && f < nF() && !m.is_deleted(FaceHandle(f)); }
    bool liveC(int c) const { return c >= 0 && c < nC() && !m.is_deleted(CellHandle(c)); }
    bool liveHE(int h) const { return h >= 0 && liveE(h / 2); }
    bool liveHF(int h) const { return h >= 0 && liveF(h / 2); }
    bool vbu() const { return m.has_vertex_bottom_up_incidences(); }
    bool ebu() const { return m.has_edge_bottom_up_incidences(); }
    bool fbu() const { return m.has_face_bottom_up_incidences(); }
    bool full() const { return vbu() && ebu() && fbu(); }
    std::vector<int> live(int kindIdx) const {
        std::vector<int> r;
        int n = kindIdx == 0 ? nV() : kindIdx == 1 ? nE() : kindIdx == 2 ? nF() : nC();
        for (int i = 0; i < n; ++i) {
            bool l = kindIdx == 0 ? liveV(i) : kindIdx == 1 ? liveE(i) : kindIdx == 2 ? liveF(i) : liveC(i);
            if (l) r.push_back(i);
        }
        return r;
    }
    int from(int he) const { return m.halfedge(HalfEdgeHandle(he)).from_vertex().idx(); }
    int to(int he) const { return m.halfedge(HalfEdgeHandle(he)).to_vertex().idx(); }
    std::vector<int> hf_hes(int hf) const { std::vector<int> r; for (auto h : m.halfface(HalfFaceHandle(hf)).halfedges()) r.push_back(h.idx()); return r; }
    std::vector<int> hf_verts(int hf) const { std::vector<int> r; for (int h : hf_hes(hf)) r.push_back(from(h)); return r; }
    std::vector<int> cell_hfs(int c) const { std::vector<int> r; for (auto h : m.cell(CellHandle(c)).halffaces()) r.push_back(h.idx()); return r; }
    std::set<int> cell_vset(int c) const { std::set<int> s; for (int hf : cell_hfs(c)) for (int v : hf_verts(hf)) s.insert(v); return s; }
    bool hf_in_live_cell(int hf) const {
        for (int c = 0; c < nC(); ++c) { if (!liveC(c)) continue; for (int h : cell_hfs(c)) if (h == hf) return true; }
        return false;
    }
    bool closed_loop(const std::vector<long>& hes) const {
        if (hes.empty()) return false;
        for (size_t i = 0; i < hes.size(); ++i) if (to((int)hes[i]) != from((int)hes[(i + 1) % hes.size()])) return false;
        return true;
    }
    bool closed_surface(const std::vector<long>& hfs) const {
        std::multiset<int> H;
        for (long hf : hfs) for (int h : hf_hes((int)hf)) H.insert(h);
        if (H.empty()) return false;
        for (int h : H) { if (H.count(h) != 1) return false; if (H.count(h ^ 1) != 1) return false; }
        return true;
    }
    // live halfface (either side) with exactly this vertex cycle (up to rotation), -1 if none
    int find_hf_by_verts(const std::vector<int>& vs) const {
        size_t n = vs.size();
        for (int hf = 0; hf < 2 * nF(); ++hf) {
            if (!liveHF(hf)) continue;
            std::vector<int> w = hf_verts(hf);
            if (w.size() != n) continue;
            for (size_t r = 0; r < n; ++r) { bool ok = true; for (size_t i = 0; i < n && ok; ++i) ok = w[(i + r) % n] == vs[i]; if (ok) return hf; }
        }
        return -1;
    }
    int find_live_edge(int a, int b) const {   // either direction
        for (int e = 0; e < nE(); ++e) { if (!liveE(e)) continue; int f = from(2 * e), t = to(2 * e); if ((f == a && t == b) || (f == b && t == a)) return e; }
        return -1;
    }
    // a topological tetrahedron: four triangles, closed surface, four vertices
    bool is_tet(int c) const {
        std::vector<int> hfs = cell_hfs(c);
        if (hfs.size() != 4) return false;
        std::vector<long> l;
        for (int h : hfs) { if (!liveHF(h) || hf_hes(h).size() != 3) return false; l.push_back(h); }
        for (int h : hfs) { std::vector<long> hes; for (int x : hf_hes(h)) hes.push_back(x); if (!closed_loop(hes)) return false; }
        return closed_surface(l) && cell_vset(c).size() == 4;
    }

    // ---------------- the live mesh as a simplicial complex; link condition of a halfedge
    typedef std::set<int> S;
    struct Complex { bool simplicial = true; std::set<S> simplices; };
    Complex complex() const {
        Complex K;
        auto add = [&](const S& s, size_t want) { if (s.size() != want) K.simplicial = false; else if (!K.simplices.insert(s).second) K.simplicial = false; };
        for (int v : live(0)) K.simplices.insert(S{v});
        for (int e : live(1)) { S s{from(2 * e), to(2 * e)}; for (int v : s) if (!liveV(v)) K.simplicial = false; add(s, 2); }
        for (int f : live(2)) { std::vector<int> w = hf_verts(2 * f); S s(w.begin(), w.end()); if (w.size() != 3) K.simplicial = false; for (int h : hf_hes(2 * f)) if (!liveHE(h)) K.simplicial = false; add(s, 3); }
        for (int c : live(3)) { if (!is_tet(c)) { K.simplicial = false; continue; } add(cell_vset(c), 4); }
        // every halfface belongs to at most one live cell
        std::map<int, int> use; for (int c : live(3)) for (int h : cell_hfs(c)) if (++use[h] > 1) K.simplicial = false;
        return K;
    }
    static std::set<S> link(const Complex& K, const S& sigma) {
        std::set<S> L;
        for (const S& t : K.simplices) {
            bool sup = true; for (int v : sigma) if (!t.count(v)) sup = false;
            if (!sup || t.size() == sigma.size()) continue;
            S r; for (int v : t) if (!sigma.count(v)) r.insert(v);
            L.insert(r);
        }
        return L;
    }
    bool link_condition(const Complex& K, int he) const {
        if (!K.simplicial || !liveHE(he)) return false;
        int a = from(he), b = to(he);
        if (a == b) return false;
        std::set<S> la = link(K, S{a}), lb = link(K, S{b}), lab = link(K, S{a, b}), inter;
        for (const S& s : la) if (lb.count(s)) inter.insert(s);
        return inter == lab;
    }

    // ---------------- output
    void print_vec(const std::vector<int>& v) { fprintf(OUT, " %zu", v.size()); for (int x : v) fprintf(OUT, " %d", x); }
    void dump_mesh() {
        const TetMesh& k = m;
        fprintf(OUT, "n %zu %zu %zu %zu l %zu %zu %zu %zu gc %d genus %d\n", k.n_vertices(), k.n_edges(), k.n_faces(), k.n_cells(),
                k.n_logical_vertices(), k.n_logical_edges(), k.n_logical_faces(), k.n_logical_cells(), k.needs_garbage_collection() ? 1 : 0, k.genus());
        fprintf(OUT, "m %d %d %d %d %d\n", k.deferred_deletion_enabled(), k.fast_deletion_enabled(), vbu(), ebu(), fbu());
        fprintf(OUT, "vd %zu", k.n_vertices());
        for (size_t v = 0; v < k.n_vertices(); ++v) fprintf(OUT, " %d", k.is_deleted(VertexHandle((int)v)) ? 1 : 0);
        fputc('\n', OUT);
        for (size_t e = 0; e < k.n_edges(); ++e) {
            auto ed = k.edge(EdgeHandle((int)e));
            fprintf(OUT, "e %zu %d %d %d\n", e, ed.from_vertex().idx(), ed.to_vertex().idx(), k.is_deleted(EdgeHandle((int)e)) ? 1 : 0);
        }
        for (size_t f = 0; f < k.n_faces(); ++f) {
            const auto& hes = k.face(FaceHandle((int)f)).halfedges();
            fprintf(OUT, "f %zu %d %zu", f, k.is_deleted(FaceHandle((int)f)) ? 1 : 0, hes.size());
            for (auto h : hes) fprintf(OUT, " %d", h.idx());
            fputc('\n', OUT);
        }
        for (size_t c = 0; c < k.n_cells(); ++c) {
            const auto& hfs = k.cell(CellHandle((int)c)).halffaces();
            fprintf(OUT, "c %zu %d %zu", c, k.is_deleted(CellHandle((int)c)) ? 1 : 0, hfs.size());
            for (auto h : hfs) fprintf(OUT, " %d", h.idx());
            fputc('\n', OUT);
        }
        if (vbu()) for (size_t v = 0; v < k.n_vertices(); ++v) {
            std::vector<int> l; for (auto it = k.voh_iter(VertexHandle((int)v)); it.valid(); ++it) l.push_back(it->idx());
            fprintf(OUT, "ov %zu", v); print_vec(l); fputc('\n', OUT);
        }
        if (ebu()) for (size_t h = 0; h < k.n_halfedges(); ++h) {
            std::vector<int> l; for (auto it = k.hehf_iter(HalfEdgeHandle((int)h)); it.valid(); ++it) l.push_back(it->idx());
            fprintf(OUT, "ih %zu", h); print_vec(l); fputc('\n', OUT);
        }
        if (fbu()) for (size_t h = 0; h < k.n_halffaces(); ++h) fprintf(OUT, "ic %zu %d\n", h, k.incident_cell(HalfFaceHandle((int)h)).idx());
        for (const auto& p : props) {
            fprintf(OUT, "p %s %s %s %ld %zu", KIND_NAMES[p->kind], p->key.c_str(), p->type.c_str(), p->dflt, p->size());
            for (size_t i = 0; i < p->size(); ++i) fprintf(OUT, " %ld", p->get(i));
            fputc('\n', OUT);
        }
    }

    // ---------------- tet queries: every cell x halfface x halfedge / vertex
    void q_vec(const char* tag, std::initializer_list<int> args, const std::vector<VertexHandle>& r) {
        fprintf(OUT, "%s", tag); for (int a : args) fprintf(OUT, " %d", a);
        fprintf(OUT, " %zu", r.size()); for (auto v : r) fprintf(OUT, " %d", v.idx()); fputc('\n', OUT);
    }
    void dump_tet_queries() {
        if (!fbu()) return;      // every one of these reads incident_cell()
        for (int hf = 0; hf < 2 * nF(); ++hf) {
            if (!liveHF(hf)) continue;
            HalfFaceHandle hfh(hf);
            fprintf(OUT, "thov %d %d\n", hf, m.halfface_opposite_vertex(hfh).idx());
            q_vec("tgcvh", {hf}, m.get_cell_vertices(hfh));      // {} on a boundary halfface
            stat["q_hov"]++; stat["q_gcvh"]++;
        }
        for (int c = 0; c < nC(); ++c) {
            if (!liveC(c) || !is_tet(c)) continue;
            CellHandle ch(c);
            q_vec("tgcv", {c}, m.get_cell_vertices(ch)); stat["q_gcv"]++;
            for (int v : cell_vset(c)) {
                q_vec("tgcvv", {c, v}, m.get_cell_vertices(ch, VertexHandle(v))); stat["q_gcvv"]++;
                fprintf(OUT, "tvoh %d %d %d\n", c, v, m.vertex_opposite_halfface(ch, VertexHandle(v)).idx()); stat["q_voh"]++;
            }
            for (int hf : cell_hfs(c)) for (int he : hf_hes(hf)) { q_vec("tgcvhe", {hf, he}, m.get_cell_vertices(HalfFaceHandle(hf), HalfEdgeHandle(he))); stat["q_gcvhe"]++; }
            for (int laps = 1; laps <= 2; ++laps) {
                std::vector<VertexHandle> l; for (auto it = m.tv_iter(ch, laps); it.valid(); ++it) l.push_back(*it);
                q_vec("ttv", {c, laps}, l); stat["q_tv"]++;
            }
            { std::vector<VertexHandle> l; for (auto v : m.tet_vertices(ch)) l.push_back(v); q_vec("ttvr", {c}, l); }
            {   // backwards from the end position of a one-lap circulator
                auto it = m.tv_iter(ch, 1); std::vector<VertexHandle> l;
                for (int i = 0; i < 4; ++i) ++it;
                for (int i = 0; i < 4; ++i) { --it; l.push_back(*it); }
                q_vec("ttvb", {c}, l);
            }
        }
    }

    // ---------------- TetTopology / TriangleTopology: all accessors of one constructed labelling
    template <TT::HalfFaceLabel L> void tri_of(const TT& t) {
        if constexpr (TT::has_start(L)) {
            TR r = t.triangle_topology<L>(); TR d = t.triangle_topology(L);
            fprintf(OUT, " %d %d %d %d %d %d %d %d", (int)L, r.a().idx(), r.b().idx(), r.c().idx(), r.ab().idx(), r.bc().idx(), r.ca().idx(), r == d ? 1 : 0);
        }
    }
    void dump_topo(int ctor, int c, int abc, int a, bool with_tri) {
        CellHandle ch(c); HalfFaceHandle habc(abc); VertexHandle va(a);
        std::unique_ptr<TT> tp;
        if (ctor == 0) tp.reset(new TT(m, ch, habc, va));
        else if (ctor == 1) tp.reset(new TT(m, habc, va));
        else if (ctor == 2) tp.reset(new TT(m, ch, va));
        else tp.reset(new TT(m, ch));
        const TT& t = *tp;
        int id = topo_id++;
        fprintf(OUT, "tt %d %d %d %d %d", id, ctor, c, abc, a);
#define X(n) fprintf(OUT, " %d", t.vh<TT::n>().idx());
        VL_LIST(X)
#undef X
#define X(n) fprintf(OUT, " %d", t.heh<TT::n>().idx());
        HEL_LIST(X)
#undef X
#define X(n) fprintf(OUT, " %d", t.hfh<TT::n>().idx());
        HFL_LIST(X)
#undef X
        for (auto h : t.halfface_handles()) fprintf(OUT, " %d", h.idx());
        fputc('\n', OUT);
        stat["topo"]++; stat[std::string("topo_ctor") + char('0' + ctor)]++;
        // get_label: the cell's vertices and one foreign vertex; its 12 halfedges and two foreign ones; its 8 halffaces
        std::set<int> vs = cell_vset(c);
        fprintf(OUT, "ttgv %d", id);
        { std::vector<int> l(vs.begin(), vs.end()); for (int v = 0; v < nV(); ++v) if (!vs.count(v)) { l.push_back(v); break; }
          fprintf(OUT, " %zu", l.size()); for (int v : l) fprintf(OUT, " %d %d", v, optv(t.get_label(VertexHandle(v)))); }
        fputc('\n', OUT);
        std::set<int> hes; for (int hf : cell_hfs(c)) for (int h : hf_hes(hf)) { hes.insert(h); hes.insert(h ^ 1); }
        { std::vector<int> l(hes.begin(), hes.end()); int extra = 0; for (int h = 0; h < 2 * nE() && extra < 2; ++h) if (!hes.count(h)) { l.push_back(h); ++extra; }
          fprintf(OUT, "ttghe %d %zu", id, l.size()); for (int h : l) fprintf(OUT, " %d %d", h, optv(t.get_label(HalfEdgeHandle(h)))); fputc('\n', OUT); }
        std::set<int> hfs; for (int hf : cell_hfs(c)) { hfs.insert(hf); hfs.insert(hf ^ 1); }
        { std::vector<int> l(hfs.begin(), hfs.end()); int extra = 0; for (int h = 0; h < 2 * nF() && extra < 2; ++h) if (!hfs.count(h)) { l.push_back(h); ++extra; }
          fprintf(OUT, "ttghf %d %zu", id, l.size()); for (int h : l) fprintf(OUT, " %d %d", h, optv(t.get_label(HalfFaceHandle(h)))); fputc('\n', OUT);
          fprintf(OUT, "ttghfv %d %zu", id, l.size() * vs.size());
          for (int h : l) for (int v : vs) fprintf(OUT, " %d %d %d", h, v, optv(t.get_label(HalfFaceHandle(h), VertexHandle(v)))); fputc('\n', OUT); }
        if (with_tri) {
            fprintf(OUT, "ttt %d", id);
#define X(n) tri_of<TT::n>(t);
            HFL_LIST(X)
#undef X
            fputc('\n', OUT);
        }
    }
    void dump_topologies(int max_cells) {
        if (!fbu()) return;
        std::vector<int> cs; for (int c : live(3)) if (is_tet(c)) cs.push_back(c);
        rng.shuffle(cs);
        if ((int)cs.size() > max_cells) cs.resize(max_cells);
        std::sort(cs.begin(), cs.end());
        for (int c : cs) {
            bool tri = true;
            for (int abc : cell_hfs(c)) {
                std::vector<int> w = hf_verts(abc);
                for (int ai = -1; ai < 3; ++ai) { int a = ai < 0 ? -1 : w[ai]; dump_topo(0, c, abc, a, tri); tri = false; dump_topo(1, c, abc, a, false); }
                // TriangleTopology on this halfface and on its opposite
                for (int side = 0; side < 2; ++side) {
                    int hf = abc ^ side; std::vector<int> u = hf_verts(hf);
                    { TR r(m, HalfFaceHandle(hf)); fprintf(OUT, "ttri %d -1 %d %d %d %d %d %d\n", hf, r.a().idx(), r.b().idx(), r.c().idx(), r.ab().idx(), r.bc().idx(), r.ca().idx()); }
                    for (int a : u) { TR r(m, HalfFaceHandle(hf), VertexHandle(a)); fprintf(OUT, "ttri %d %d %d %d %d %d %d %d\n", hf, a, r.a().idx(), r.b().idx(), r.c().idx(), r.ab().idx(), r.bc().idx(), r.ca().idx()); stat["tri"]++; }
                }
            }
            for (int v : cell_vset(c)) dump_topo(2, c, -1, v, false);
            dump_topo(3, c, -1, -1, false);
        }
    }

    // ---------------- properties (id columns + a few token columns on half-entities and cells)
    template <class T, class Tag> void mk_prop_on(int kindIdx, const std::string& key, long dflt) {
        std::unique_ptr<PropBox<T, Tag>> b(new PropBox<T, Tag>(m.template create_private_property<T, Tag>(key, Tok<T>::enc(dflt))));
        b->key = key; b->kind = kindIdx; b->type = Tok<T>::name(); b->dflt = Tok<T>::dec(Tok<T>::enc(dflt));
        props.push_back(std::move(b));
    }
    void make_columns() {
        mk_prop_on<int, Entity::Vertex>(0, "idv", 0);
        mk_prop_on<int, Entity::Edge>(1, "ide", 0);
        mk_prop_on<int, Entity::Face>(3, "idf", 0);
        mk_prop_on<int, Entity::Cell>(5, "idc", 0);
        mk_prop_on<int, Entity::HalfEdge>(2, "the", 0);
        mk_prop_on<int, Entity::HalfFace>(4, "thf", 0);
        mk_prop_on<std::string, Entity::Cell>(5, "tcs", 0);
    }
    void retoken() { for (auto& p : props) for (size_t i = 0; i < p->size(); ++i) if (p->get(i) == p->dflt) { p->set(i, next_tok); next_tok += 1; } }

    // ---------------- operation execution
    void emit_op(const Op& op, bool malformed) {
        fprintf(OUT, "%s %s", malformed ? "O!" : "O", op.name.c_str());
        for (long x : op.a) fprintf(OUT, " %ld", x);
        fputc('\n', OUT); fflush(OUT);
    }
    bool allLiveV(const std::vector<long>& a, size_t from_i) const { for (size_t i = from_i; i < a.size(); ++i) if (!liveV((int)a[i])) return false; return true; }
    bool distinct(const std::vector<long>& a, size_t from_i) const { std::set<long> s(a.begin() + from_i, a.end()); return s.size() == a.size() - from_i; }
    // the four oriented triangles of tet (v0,v1,v2,v3) in the order of add_cell(v0..v3)
    static std::vector<std::vector<int>> tet_tris(int a, int b, int c, int d) { return {{a, b, c}, {a, c, d}, {a, d, b}, {b, d, c}}; }
    // would the tet (v0..v3) fit: none of its four halffaces is occupied, and no live cell has the same vertex set
    bool tet_occupied(int a, int b, int c, int d) const {
        for (auto& t : tet_tris(a, b, c, d)) { int hf = find_hf_by_verts(t); if (hf >= 0 && hf_in_live_cell(hf)) return true; }
        return false;
    }
    bool tet_fits(int a, int b, int c, int d) const {
        if (tet_occupied(a, b, c, d)) return false;
        std::set<int> s{a, b, c, d};
        for (int x : live(3)) if (cell_vset(x) == s) return false;
        return true;
    }

    // validity of an op in the current state; malformed = a call made on purpose outside the contract
    // of an *accepted* call (it must be rejected / be a no-op as the code documents)
    bool valid(const Op& op, bool& malformed) {
        malformed = false;
        const auto& a = op.a; const std::string& n = op.name;
        auto allLiveHE = [&](size_t i0) { for (size_t i = i0; i < a.size(); ++i) if (!liveHE((int)a[i])) return false; return true; };
        auto allLiveHF = [&](size_t i0) { for (size_t i = i0; i < a.size(); ++i) if (!liveHF((int)a[i])) return false; return true; };
        if (n == "add_vertex" || n == "collect_garbage" || n == "retoken") return true;
        if (n == "add_edge") return a.size() == 3 && liveV((int)a[0]) && liveV((int)a[1]) && a[0] != a[1] && a[2] == 0;
        if (n == "add_face_he") {       // chk n h...
            if (a.size() < 2 || (size_t)a[1] + 2 != a.size() || !allLiveHE(2)) return false;
            std::vector<long> hes(a.begin() + 2, a.end());
            bool ok = closed_loop(hes) && hes.size() == 3;
            if (hes.size() != 3) { malformed = true; return true; }      // rejected by the valence guard, with or without check
            if (a[0] == 0) return ok;
            malformed = !ok; return true;
        }
        if (n == "add_face_v") {        // n v...
            if (a.size() < 1 || (size_t)a[0] + 1 != a.size() || !allLiveV(a, 1)) return false;
            if (a[0] != 3) { malformed = true; return a[0] >= 1; }
            return distinct(a, 1);
        }
        if (n == "add_cell") {          // chk n hf...
            if (a.size() < 2 || (size_t)a[1] + 2 != a.size() || !allLiveHF(2)) return false;
            std::vector<long> hfs(a.begin() + 2, a.end());
            for (long hf : hfs) if (hf_in_live_cell((int)hf)) return false;
            if (hfs.size() != 4) { malformed = true; return true; }
            bool ok = closed_surface(hfs);
            std::set<int> vs; for (long hf : hfs) for (int v : hf_verts((int)hf)) vs.insert(v);
            if (ok) ok = vs.size() == 4;
            // the override refuses four triangles that do not span exactly four vertices even WITHOUT topology check
            // (64c6d58): such unchecked calls are made on purpose and must come back rejected; other unchecked garbage
            // (four vertices, not closed) is "at the user's risk" and not generated
            if (a[0] == 0) { if (ok) return true; if (vs.size() != 4) { malformed = true; return true; } return false; }
            malformed = !ok; return true;
        }
        if (n == "tet_add_halfedge") return a.size() == 2 && vbu() && liveV((int)a[0]) && liveV((int)a[1]) && a[0] != a[1];
        if (n == "tet_add_halfface_he") {   // chk n h...
            if (a.size() < 4 || (size_t)a[1] + 2 != a.size() || !allLiveHE(2) || !ebu()) return false;
            std::vector<long> hes(a.begin() + 2, a.end());
            if (hes.size() != 3) { malformed = true; return true; }
            bool ok = closed_loop(hes);
            if (a[0] == 0) return ok;
            malformed = !ok; return true;
        }
        if (n == "tet_add_halfface3") return a.size() == 4 && vbu() && ebu() && allLiveV(a, 1) && distinct(a, 1);
        if (n == "tet_add_cell4") {     // chk a b c d
            if (a.size() != 5 || !full() || !allLiveV(a, 1) || !distinct(a, 1)) return false;
            return tet_fits((int)a[1], (int)a[2], (int)a[3], (int)a[4]);
        }
        if (n == "tet_add_cell_v") {    // chk n v...
            if (a.size() < 2 || (size_t)a[1] + 2 != a.size() || !allLiveV(a, 2) || !distinct(a, 2)) return false;
            if (a[1] != 4) { malformed = true; return true; }
            if (!full()) { malformed = true; return true; }              // rejected: needs all incidences
            if (tet_occupied((int)a[2], (int)a[3], (int)a[4], (int)a[5])) { malformed = true; return a[0] == 1 && fbu(); }  // only the checked call refuses an occupied halfface
            return tet_fits((int)a[2], (int)a[3], (int)a[4], (int)a[5]);
        }
        if (n == "delete_vertex") return a.size() == 1 && liveV((int)a[0]);
        if (n == "delete_edge") return a.size() == 1 && liveE((int)a[0]);
        if (n == "delete_face") return a.size() == 1 && liveF((int)a[0]);
        if (n == "delete_cell") return a.size() == 1 && liveC((int)a[0]);
        if (n == "swap_vertex") return a.size() == 2 && a[0] >= 0 && a[1] >= 0 && a[0] < nV() && a[1] < nV();
        if (n == "swap_edge") return a.size() == 2 && a[0] >= 0 && a[1] >= 0 && a[0] < nE() && a[1] < nE();
        if (n == "swap_face") return a.size() == 2 && a[0] >= 0 && a[1] >= 0 && a[0] < nF() && a[1] < nF();
        if (n == "swap_cell") return a.size() == 2 && a[0] >= 0 && a[1] >= 0 && a[0] < nC() && a[1] < nC();
        if (n == "enable_deferred" || n == "enable_fast") return a.size() == 1;
        if (n == "enable_bu") return a.size() == 2 && a[0] >= 0 && a[0] <= 2;
        if (n == "collapse_edge") { if (a.size() != 1 || !full()) return false; Complex K = complex(); return link_condition(K, (int)a[0]); }
        if (n == "probe_collapse") { if (a.size() != 1 || !full()) return false; Complex K = complex(); return link_condition(K, (int)a[0]); }
        if (n == "probe_mode") return a.size() == 2;
        if (n == "split_edge") { if (a.size() != 1 || !full() || !liveHE((int)a[0])) return false; return complex().simplicial; }
        if (n == "split_face") { if (a.size() != 1 || !full() || !liveF((int)a[0])) return false; return complex().simplicial; }
        return false;
    }

    std::string apply(const Op& op) {
        const auto& a = op.a; const std::string& n = op.name;
        char buf[64];
        auto H = [&](int x) { snprintf(buf, 64, "%d", x); return std::string(buf); };
        if (n == "add_vertex") return H(m.add_vertex(Vec3d(nV(), 0, 0)).idx());
        if (n == "add_edge") return H(m.add_edge(VertexHandle((int)a[0]), VertexHandle((int)a[1]), a[2] != 0).idx());
        if (n == "add_face_he") { std::vector<HalfEdgeHandle> hs; for (size_t i = 2; i < a.size(); ++i) hs.push_back(HalfEdgeHandle((int)a[i])); return H(m.add_face(hs, a[0] != 0).idx()); }
        if (n == "add_face_v") { std::vector<VertexHandle> vs; for (size_t i = 1; i < a.size(); ++i) vs.push_back(VertexHandle((int)a[i])); return H(m.add_face(vs).idx()); }
        if (n == "add_cell") { std::vector<HalfFaceHandle> hs; for (size_t i = 2; i < a.size(); ++i) hs.push_back(HalfFaceHandle((int)a[i])); return H(m.add_cell(hs, a[0] != 0).idx()); }
        if (n == "tet_add_halfedge") return H(m.add_halfedge(VertexHandle((int)a[0]), VertexHandle((int)a[1])).idx());
        if (n == "tet_add_halfface_he") { std::vector<HalfEdgeHandle> hs; for (size_t i = 2; i < a.size(); ++i) hs.push_back(HalfEdgeHandle((int)a[i])); return H(m.add_halfface(hs, a[0] != 0).idx()); }
        if (n == "tet_add_halfface3") return H(m.add_halfface(VertexHandle((int)a[1]), VertexHandle((int)a[2]), VertexHandle((int)a[3]), a[0] != 0).idx());
        if (n == "tet_add_cell4") return H(m.add_cell(VertexHandle((int)a[1]), VertexHandle((int)a[2]), VertexHandle((int)a[3]), VertexHandle((int)a[4]), a[0] != 0).idx());
        if (n == "tet_add_cell_v") { std::vector<VertexHandle> vs; for (size_t i = 2; i < a.size(); ++i) vs.push_back(VertexHandle((int)a[i])); return H(m.add_cell(vs, a[0] != 0).idx()); }
        if (n == "delete_vertex") { auto it = m.delete_vertex(VertexHandle((int)a[0])); return H(it->idx()); }
        if (n == "delete_edge") { auto it = m.delete_edge(EdgeHandle((int)a[0])); return H(it->idx()); }
        if (n == "delete_face") { auto it = m.delete_face(FaceHandle((int)a[0])); return H(it->idx()); }
        if (n == "delete_cell") { auto it = m.delete_cell(CellHandle((int)a[0])); return H(it->idx()); }
        if (n == "swap_vertex") { m.swap_vertex_indices(VertexHandle((int)a[0]), VertexHandle((int)a[1])); return "ok"; }
        if (n == "swap_edge") { m.swap_edge_indices(EdgeHandle((int)a[0]), EdgeHandle((int)a[1])); return "ok"; }
        if (n == "swap_face") { m.swap_face_indices(FaceHandle((int)a[0]), FaceHandle((int)a[1])); return "ok"; }
        if (n == "swap_cell") { m.swap_cell_indices(CellHandle((int)a[0]), CellHandle((int)a[1])); return "ok"; }
        if (n == "collect_garbage") { m.collect_garbage(); return "ok"; }
        if (n == "enable_deferred") { m.enable_deferred_deletion(a[0] != 0); return "ok"; }
        if (n == "enable_fast") { m.enable_fast_deletion(a[0] != 0); return "ok"; }
        if (n == "enable_bu") {
            if (a[0] == 0) m.enable_vertex_bottom_up_incidences(a[1] != 0);
            else if (a[0] == 1) m.enable_edge_bottom_up_incidences(a[1] != 0);
            else m.enable_face_bottom_up_incidences(a[1] != 0);
            return "ok";
        }
        if (n == "collapse_edge") return H(m.collapse_edge(HalfEdgeHandle((int)a[0])).idx());
        if (n == "probe_collapse") return H(m.collapse_edge(HalfEdgeHandle((int)a[0])).idx());
        if (n == "probe_mode") { m.enable_deferred_deletion(a[0] != 0); m.enable_fast_deletion(a[1] != 0); return "ok"; }
        if (n == "split_edge") return H(m.split_edge(HalfEdgeHandle((int)a[0]), 0.5).idx());
        if (n == "split_face") return H(m.split_face(FaceHandle((int)a[0]), Vec3d(0, 0, 0)).idx());
        if (n == "retoken") { retoken(); return "ok"; }
        return "?";
    }

    void finish_step(const std::string& res, bool queries) {
        fprintf(OUT, "R %s\n", res.c_str());
        dump_mesh();
        if (queries) { dump_tet_queries(); if (rng.chance(2, 5)) dump_topologies(2); }
        fputs("E\n", OUT); fflush(OUT);
    }
    bool exec(const Op& op) {
        bool malformed = false;
        if (!valid(op, malformed)) return false;
        emit_op(op, malformed);
        stat[(malformed ? "rej:" : "op:") + op.name]++;
        std::string r = apply(op);
        if (malformed && (r == "-1" || r == "-2")) stat["rejected_calls"]++;
        finish_step(r, !in_probe && op.name != "retoken");
        if (op.name != "retoken" && !in_probe) {
            bool need = false;
            for (auto& p : props) for (size_t j = 0; j < p->size(); ++j) if (p->get(j) == p->dflt) need = true;
            if (need) exec(Op{"retoken", {}});
        }
        return true;
    }
    Op mk(const std::string& n, std::initializer_list<long> a) { return Op{n, std::vector<long>(a)}; }
    int fresh_vertex() { exec(mk("add_vertex", {})); return nV() - 1; }

    // ---------------- generation
    std::vector<int> free_tris() { std::vector<int> r; for (int h = 0; h < 2 * nF(); ++h) if (liveHF(h) && !hf_in_live_cell(h) && hf_hes(h).size() == 3) r.push_back(h); return r; }

    void shuffle4(int v[4]) { for (int i = 4; i > 1; --i) std::swap(v[i - 1], v[rng.below((uint64_t)i)]); }
    // choose the four vertices of a new tet: glued along a face / an edge / a vertex, or free
    bool choose_tet(int v[4]) {
        std::vector<int> lv = live(0);
        int mode = (int)rng.below(10);
        if (mode < 5) {                                   // along a free halfface (whose other side usually bounds a cell)
            std::vector<int> fr = free_tris();
            std::vector<int> pref; for (int h : fr) if (hf_in_live_cell(h ^ 1)) pref.push_back(h);
            if (!pref.empty() && rng.chance(4, 5)) fr = pref;
            if (!fr.empty()) {
                std::vector<int> w = hf_verts(rng.pick(fr));
                int r = (int)rng.below(3);
                v[0] = w[r]; v[1] = w[(r + 1) % 3]; v[2] = w[(r + 2) % 3];
                if (!lv.empty() && rng.chance(1, 4)) { v[3] = rng.pick(lv); if (v[3] == v[0] || v[3] == v[1] || v[3] == v[2]) v[3] = fresh_vertex(); }
                else v[3] = fresh_vertex();
                return true;
            }
        }
        if (mode < 7 && !live(1).empty()) {               // along an edge
            int e = rng.pick(live(1)); int s = (int)rng.below(2);
            v[0] = from(2 * e + s); v[1] = to(2 * e + s); v[2] = fresh_vertex(); v[3] = fresh_vertex();
            shuffle4(v);
            return true;
        }
        if (mode < 8 && !lv.empty()) {                    // along a vertex
            v[0] = rng.pick(lv); v[1] = fresh_vertex(); v[2] = fresh_vertex(); v[3] = fresh_vertex();
            shuffle4(v);
            return true;
        }
        if (mode < 9 && lv.size() >= 4) {                 // four existing vertices (often does not fit)
            rng.shuffle(lv); for (int i = 0; i < 4; ++i) v[i] = lv[i];
            return true;
        }
        for (int i = 0; i < 4; ++i) v[i] = fresh_vertex();
        return true;
    }
    // store some faces / edges of the future tet beforehand, in the rotation / direction the tet will NOT ask for
    void preseed(const int v[4]) {
        auto tris = tet_tris(v[0], v[1], v[2], v[3]);
        for (auto& t : tris) {
            if (!rng.chance(1, 3)) continue;
            if (find_hf_by_verts(t) >= 0 || find_hf_by_verts({t[2], t[1], t[0]}) >= 0) continue;
            int r = (int)rng.below(3);
            exec(mk("add_face_v", {3, t[(2 + r) % 3], t[(1 + r) % 3], t[r % 3]}));       // reversed: the tet will use the odd halfface
        }
        for (int i = 0; i < 4; ++i) for (int j = i + 1; j < 4; ++j) {
            if (!rng.chance(1, 6) || find_live_edge(v[i], v[j]) >= 0) continue;
            if (rng.chance(1, 2)) exec(mk("add_edge", {v[j], v[i], 0})); else exec(mk("tet_add_halfedge", {v[j], v[i]}));
        }
    }
    void grow() {
        int v[4];
        if (!choose_tet(v)) return;
        for (int i = 0; i < 4; ++i) for (int j = i + 1; j < 4; ++j) if (v[i] == v[j]) return;
        bool fits = tet_fits(v[0], v[1], v[2], v[3]);
        long chk = (long)rng.below(2);
        if (!fits) {
            // only the checked vector overload is specified to refuse; a rejected call may have created faces and edges
            if (full() && tet_occupied(v[0], v[1], v[2], v[3])) exec(mk("tet_add_cell_v", {1, 4, v[0], v[1], v[2], v[3]}));
            return;
        }
        if (rng.chance(1, 2) && vbu()) preseed(v);
        int how = (int)rng.below(10);
        if (!full()) how = 8;
        if (how < 3) { exec(mk("tet_add_cell4", {chk, v[0], v[1], v[2], v[3]})); return; }
        if (how < 6) { exec(mk("tet_add_cell_v", {chk, 4, v[0], v[1], v[2], v[3]})); return; }
        // face by face, then add_cell(halffaces) with the halffaces in a random order
        std::vector<long> hfs;
        for (auto& t : tet_tris(v[0], v[1], v[2], v[3])) {
            int hf = find_hf_by_verts(t);
            if (hf < 0) {
                int r = (int)rng.below(3);
                std::vector<int> u{t[r], t[(r + 1) % 3], t[(r + 2) % 3]};
                if (how == 6 && full()) exec(mk("tet_add_halfface3", {(long)rng.below(2), u[0], u[1], u[2]}));
                else if (how == 7 && full()) {
                    std::vector<long> hes;
                    for (int i = 0; i < 3; ++i) { exec(mk("tet_add_halfedge", {u[i], u[(i + 1) % 3]})); hes.push_back(m.find_halfedge(VertexHandle(u[i]), VertexHandle(u[(i + 1) % 3])).idx()); }
                    exec(Op{"tet_add_halfface_he", {(long)rng.below(2), 3, hes[0], hes[1], hes[2]}});
                } else exec(mk("add_face_v", {3, u[0], u[1], u[2]}));
                hf = find_hf_by_verts(t);
            }
            if (hf < 0) return;
            hfs.push_back(hf);
        }
        if (rng.chance(2, 3)) rng.shuffle(hfs);
        Op op; op.name = "add_cell"; op.a = {chk, 4}; for (long h : hfs) op.a.push_back(h);
        exec(op);
    }
    void gen_reuse() {   // conveniences on things that already exist: must return the existing handle
        int what = (int)rng.below(3);
        if (what == 0 && vbu() && !live(1).empty()) { int e = rng.pick(live(1)); int s = (int)rng.below(2); exec(mk("tet_add_halfedge", {from(2 * e + s), to(2 * e + s)})); return; }
        std::vector<int> lf = live(2);
        if (lf.empty() || !full()) return;
        int hf = 2 * rng.pick(lf) + (int)rng.below(2);
        std::vector<int> w = hf_verts(hf), hes = hf_hes(hf);
        if (w.size() != 3) return;
        int r = (int)rng.below(3);
        if (what == 1) exec(mk("tet_add_halfface3", {(long)rng.below(2), w[r], w[(r + 1) % 3], w[(r + 2) % 3]}));
        else exec(Op{"tet_add_halfface_he", {(long)rng.below(2), 3, hes[r], hes[(r + 1) % 3], hes[(r + 2) % 3]}});
    }
    void gen_rejected() {
        int what = (int)rng.below(9);
        std::vector<int> lhe; for (int h = 0; h < 2 * nE(); ++h) if (liveHE(h)) lhe.push_back(h);
        std::vector<int> lhf = free_tris();
        std::vector<int> lv = live(0);
        if (what == 0 && !lhe.empty()) {                  // face of the wrong valence (halfedges)
            static const int ns[5] = {0, 1, 2, 4, 5}; int n = ns[rng.below(5)];
            Op op; op.name = "add_face_he"; op.a = {(long)rng.below(2), n};
            if (n == 4 && rng.chance(1, 2) && lv.size() >= 4 && vbu()) {       // a genuine closed quad
                rng.shuffle(lv); std::vector<long> hes;
                for (int i = 0; i < 4; ++i) { exec(mk("tet_add_halfedge", {lv[i], lv[(i + 1) % 4]})); hes.push_back(m.find_halfedge(VertexHandle(lv[i]), VertexHandle(lv[(i + 1) % 4])).idx()); }
                for (long h : hes) op.a.push_back(h);
            } else for (int i = 0; i < n; ++i) op.a.push_back(rng.pick(lhe));
            exec(op); return;
        }
        if (what == 1 && !lv.empty()) {                   // face of the wrong valence (vertices)
            static const int ns[4] = {1, 2, 4, 5}; int n = ns[rng.below(4)];
            if ((int)lv.size() < n) return;
            rng.shuffle(lv); Op op; op.name = "add_face_v"; op.a = {n}; for (int i = 0; i < n; ++i) op.a.push_back(lv[i]);
            exec(op); return;
        }
        if (what == 2 && !lhf.empty()) {                  // cell of the wrong valence
            static const int ns[5] = {0, 1, 3, 5, 6}; int n = ns[rng.below(5)];
            Op op; op.name = "add_cell"; op.a = {(long)rng.below(2), n};
            std::vector<int> pool = lhf; rng.shuffle(pool);
            // three faces of an existing tet seen from outside: closed but for one face
            for (int i = 0; i < n && i < (int)pool.size(); ++i) op.a.push_back(pool[i]);
            op.a[1] = (long)op.a.size() - 2;
            if (op.a[1] == 4) return;
            exec(op); return;
        }
        if (what == 3 && lhf.size() >= 4) {               // four free triangles that are not a closed surface, checked
            std::vector<int> pool = lhf; rng.shuffle(pool);
            Op op; op.name = "add_cell"; op.a = {(long)rng.below(2), 4, pool[0], pool[1], pool[2], pool[3]};
            exec(op); return;
        }
        if (what == 8 && lv.size() >= 5 && ebu() && vbu()) {
            // four triangles spanning FIVE vertices, the stray vertex only in the last halffaces: (a,b,c) (a,c,d) (a,d,e) (b,d,c)
            rng.shuffle(lv);
            long a_ = lv[0], b_ = lv[1], c_ = lv[2], d_ = lv[3], e_ = lv[4];
            long tri[4][3] = {{a_, b_, c_}, {a_, c_, d_}, {a_, d_, e_}, {b_, d_, c_}};
            std::vector<long> hfs;
            for (auto& t : tri) { if (!exec(mk("tet_add_halfface3", {0, t[0], t[1], t[2]}))) return; int hf = find_hf_by_verts({(int)t[0], (int)t[1], (int)t[2]}); if (hf < 0 || hf_in_live_cell(hf)) return; hfs.push_back(hf); }
            std::set<long> u(hfs.begin(), hfs.end()); if (u.size() != 4) return;
            if (rng.chance(1, 2)) std::swap(hfs[2], hfs[3]);
            Op op; op.name = "add_cell"; op.a = {(long)rng.below(2), 4, hfs[0], hfs[1], hfs[2], hfs[3]};
            exec(op); return;
        }
        if (what == 4 && !lv.empty()) {                   // add_cell(vector) with three or five vertices
            int n = rng.chance(1, 2) ? 3 : 5;
            if ((int)lv.size() < n) return;
            rng.shuffle(lv); Op op; op.name = "tet_add_cell_v"; op.a = {(long)rng.below(2), n}; for (int i = 0; i < n; ++i) op.a.push_back(lv[i]);
            exec(op); return;
        }
        if (what == 5 && full()) {                        // checked add_cell(vector) onto an occupied halfface
            std::vector<int> lc = live(3); if (lc.empty()) return;
            int c = rng.pick(lc); if (!is_tet(c)) return;
            std::vector<int> w = hf_verts(rng.pick(cell_hfs(c)));
            int apex = rng.chance(1, 2) || lv.size() < 5 ? fresh_vertex() : rng.pick(lv);
            if (apex == w[0] || apex == w[1] || apex == w[2]) return;
            exec(mk("tet_add_cell_v", {1, 4, w[0], w[1], w[2], apex})); return;
        }
        if (what == 6 && ebu() && !lhe.empty()) {         // add_halfface(halfedges) of the wrong valence: reuse or refusal
            int n = rng.chance(1, 2) ? 2 : 4;
            Op op; op.name = "tet_add_halfface_he"; op.a = {(long)rng.below(2), n};
            std::vector<int> lf = live(2);
            if (rng.chance(1, 2) && !lf.empty()) { std::vector<int> hes = hf_hes(2 * rng.pick(lf) + (int)rng.below(2)); if (hes.size() != 3) return; op.a.push_back(hes[0]); op.a.push_back(hes[1]); for (int i = 2; i < n; ++i) op.a.push_back(rng.pick(lhe)); }
            else for (int i = 0; i < n; ++i) op.a.push_back(rng.pick(lhe));
            exec(op); return;
        }
        if (what == 7 && !full() && lv.size() >= 4) {     // add_cell(vector) without full incidences
            rng.shuffle(lv); exec(mk("tet_add_cell_v", {(long)rng.below(2), 4, lv[0], lv[1], lv[2], lv[3]})); return;
        }
    }
    void gen_delete() {
        int k = (int)rng.below(10);
        int kindIdx = k < 2 ? 0 : k < 4 ? 1 : k < 7 ? 2 : 3;
        std::vector<int> l = live(kindIdx);
        if (l.empty()) return;
        int pos = (int)rng.below(4);
        int x = pos == 0 ? l.front() : pos == 1 ? l.back() : rng.pick(l);
        static const char* names[4] = {"delete_vertex", "delete_edge", "delete_face", "delete_cell"};
        exec(mk(names[kindIdx], {x}));
    }
    void gen_swap() {
        int kindIdx = (int)rng.below(4);
        int n = kindIdx == 0 ? nV() : kindIdx == 1 ? nE() : kindIdx == 2 ? nF() : nC();
        if (n < 1) return;
        int a = (int)rng.below((uint64_t)n), b = (int)rng.below((uint64_t)n);
        if (rng.chance(1, 4)) b = n - 1;
        static const char* names[4] = {"swap_vertex", "swap_edge", "swap_face", "swap_cell"};
        exec(mk(names[kindIdx], {a, b}));
    }
    void gen_mode() {
        int what = (int)rng.below(10);
        if (what < 3) exec(mk("enable_deferred", {(long)rng.below(2)}));
        else if (what < 6) exec(mk("enable_fast", {(long)rng.below(2)}));
        else if (what < 8) exec(mk("collect_garbage", {}));
        else if (!full()) { for (long kd = 0; kd < 3; ++kd) exec(mk("enable_bu", {kd, 1})); }     // back to full incidences
        else if (rng.chance(1, 3)) exec(mk("enable_bu", {(long)rng.below(3), 0}));
    }
    void gen_collapse() {
        if (!full()) return;
        Complex K = complex();
        std::vector<int> cand; for (int h = 0; h < 2 * nE(); ++h) if (link_condition(K, h)) cand.push_back(h);
        if (cand.empty()) return;
        exec(mk("collapse_edge", {rng.pick(cand)}));
    }
    void gen_split() {
        if (!full() || !complex().simplicial) return;
        if (rng.chance(1, 2)) { std::vector<int> l; for (int h = 0; h < 2 * nE(); ++h) if (liveHE(h)) l.push_back(h); if (!l.empty()) exec(mk("split_edge", {rng.pick(l)})); }
        else { std::vector<int> l = live(2); if (!l.empty()) exec(mk("split_face", {rng.pick(l)})); }
    }
    void step() {
        int w = (int)rng.below(100);
        int nc = (int)live(3).size();
        if (nc >= 7) { if (w < 50) gen_delete(); else if (w < 70) gen_collapse(); else if (w < 85) gen_mode(); else gen_rejected(); return; }
        if (w < 42 || nc == 0) grow();
        else if (w < 50) gen_reuse();
        else if (w < 62) gen_rejected();
        else if (w < 72) gen_delete();
        else if (w < 77) gen_swap();
        else if (w < 87) gen_mode();
        else if (w < 94) gen_collapse();
        else gen_split();
    }

    // every halfedge satisfying the link condition x four deletion modes.  Per mode one forked copy of the
    // process switches the mode (`probe_mode d f`; leaving deferred mode collects garbage and renumbers, so
    // the candidates are computed afterwards), and per candidate a further forked copy collapses it.
    static void reap(pid_t pid) {
        int st = 0; waitpid(pid, &st, 0);
        if (WIFSIGNALED(st)) fprintf(OUT, "\nX signal %d\n", WTERMSIG(st));
        else if (WIFEXITED(st) && WEXITSTATUS(st) != 0) fprintf(OUT, "\nX exit %d\n", WEXITSTATUS(st));
        fflush(OUT);
    }
    void probe_one(const Op& op) {
        fflush(OUT);
        pid_t pid = fork();
        if (pid == 0) { alarm(20); in_probe = true; exec(op); fflush(OUT); _exit(0); }
        reap(pid);
    }
    void probes(int cap) {
        if (!full()) return;
        for (long d = 0; d < 2; ++d) for (long f = 0; f < 2; ++f) {
            fflush(OUT);
            pid_t pid = fork();
            if (pid == 0) {
                alarm(100);
                in_probe = true;
                stat.clear();
                exec(mk("probe_mode", {d, f}));
                Complex K = complex();
                std::vector<int> cand; for (int h = 0; h < 2 * nE(); ++h) if (link_condition(K, h)) cand.push_back(h);
                stat["collapsible_halfedges"] += (long)cand.size();
                stat["live_halfedges"] += 2 * (long)live(1).size();
                if ((int)cand.size() > cap) { rng.shuffle(cand); cand.resize(cap); std::sort(cand.begin(), cand.end()); stat["probe_capped"]++; }
                for (int h : cand) { probe_one(mk("probe_collapse", {h})); stat[std::string("probe_mode_") + char('0' + d) + char('0' + f)]++; }
                print_stats();
                fflush(OUT); _exit(0);
            }
            reap(pid);
        }
        stat["probe_states"]++;
    }
    void print_stats() { for (auto& kv : stat) fprintf(OUT, "# stat %s %ld\n", kv.first.c_str(), kv.second); }
};

static void init_mesh(Driver& d, uint64_t cfg) {
    d.m.enable_deferred_deletion((cfg & 1) != 0);
    d.m.enable_fast_deletion((cfg & 2) != 0);
}

static void run_trace(uint64_t seed, int trace, int ops, int probe_cap, const char* replay) {
    TetMesh mesh;
    Driver d(mesh, vh::mix(seed, (uint64_t)trace));
    fprintf(OUT, "T tet_drv c15 seed=%llu kind=tet trace=%d\n", (unsigned long long)seed, trace);
    if (replay) {
        FILE* f = fopen(replay, "r");
        if (!f) { perror("replay"); exit(3); }
        char* line = nullptr; size_t cap = 0; bool first = true;
        while (getline(&line, &cap, f) > 0) {
            std::istringstream is(line); std::string tag; is >> tag;
            if (tag == "I") { uint64_t cfg; is >> cfg; init_mesh(d, cfg); d.make_columns(); fprintf(OUT, "I %llu\n", (unsigned long long)cfg); d.dump_mesh(); fputs("E\n", OUT); first = false; continue; }
            if (tag != "O" && tag != "O!") continue;
            if (first) { init_mesh(d, 0); d.make_columns(); fprintf(OUT, "I 0\n"); d.dump_mesh(); fputs("E\n", OUT); first = false; }
            Op op; is >> op.name; long x; while (is >> x) op.a.push_back(x);
            if (op.name == "probe_mode") {      // the rest of the file belongs to this probe branch
                d.in_probe = true; d.exec(op); continue;
            }
            if (op.name == "probe_collapse") { d.probe_one(op); continue; }
            d.exec(op);
        }
        fclose(f);
        return;
    }
    uint64_t cfg = (uint64_t)trace % 4;
    init_mesh(d, cfg);
    d.make_columns();
    fprintf(OUT, "I %llu\n", (unsigned long long)cfg);
    d.dump_mesh();
    fputs("E\n", OUT);
    int n = 4 + (int)d.rng.below((uint64_t)ops);
    for (int i = 0; i < n; ++i) d.step();
    // back to full incidences for the probes
    if (!d.full()) for (long kd = 0; kd < 3; ++kd) d.exec(d.mk("enable_bu", {kd, 1}));
    d.probes(probe_cap);
    d.print_stats();
}

int main(int argc, char** argv) {
    std::string out;
    uint64_t seed = vh::env_seed();
    int traces = 4, ops = 24, first = 0, probe_cap = 24;
    const char* replay = nullptr;
    for (int i = 1; i < argc; ++i) {
        std::string a = argv[i];
        if (a == "--seed") seed = strtoull(argv[++i], 0, 10);
        else if (a == "--traces") traces = atoi(argv[++i]); else if (a == "--ops") ops = atoi(argv[++i]); else if (a == "--out") out = argv[++i];
        else if (a == "--replay") replay = argv[++i]; else if (a == "--first") first = atoi(argv[++i]); else if (a == "--probe-cap") probe_cap = atoi(argv[++i]);
        else { fprintf(stderr, "unknown arg %s\n", a.c_str()); return 2; }
    }
    if (!out.empty()) { OUT = fopen(out.c_str(), "w"); if (!OUT) { perror("out"); return 2; } }
    if (replay) traces = 1;
    for (int t = first; t < first + traces; ++t) {
        fflush(OUT);
        pid_t pid = fork();
        if (pid == 0) {
            alarm(120);
            run_trace(seed, t, ops, probe_cap, replay);
            fflush(OUT);
            _exit(0);
        }
        int st = 0;
        waitpid(pid, &st, 0);
        if (WIFSIGNALED(st)) fprintf(OUT, "\nX signal %d\n", WTERMSIG(st));
        else if (WIFEXITED(st) && WEXITSTATUS(st) != 0) fprintf(OUT, "\nX exit %d\n", WEXITSTATUS(st));
        fflush(OUT);
    }
    if (OUT != stdout) fclose(OUT);
    return 0;
}

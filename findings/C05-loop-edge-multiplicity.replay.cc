// C05-loop-edge-multiplicity: ve_iter / vv_iter on a vertex with a loop edge and two parallel edges
#include <OpenVolumeMesh/Core/TopologyKernel.hh>
#include <iostream>
using namespace OpenVolumeMesh;
int main() {
  TopologyKernel m;
  VertexHandle a = m.add_vertex(), b = m.add_vertex();
  m.add_edge(a, a);            // edge 0: loop
  m.add_edge(a, b, true);      // edge 1
  m.add_edge(a, b, true);      // edge 2: parallel
  std::cout << "ve:";
  for (auto it = m.ve_iter(a); it.valid(); ++it) std::cout << ' ' << it->idx();
  std::cout << "\nvv:";
  for (auto it = m.vv_iter(a); it.valid(); ++it) std::cout << ' ' << it->idx();
  std::cout << "\nvoh:";
  for (auto it = m.voh_iter(a); it.valid(); ++it) std::cout << ' ' << it->idx();
  std::cout << std::endl;
}

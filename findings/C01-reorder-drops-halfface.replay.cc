// F25: reorder_incident_halffaces writes a list that is not a permutation of the cached halffaces
#include <OpenVolumeMesh/Mesh/PolyhedralMesh.hh>
#include <algorithm>
#include <iostream>
using namespace OpenVolumeMesh;
int main() {
    TopologyKernel m;
    for (int i = 0; i < 7; ++i) m.add_vertex();
    auto V = [](int i) { return VertexHandle(i); };
    for (int a : {4, 2, 3, 5, 6}) m.add_face(std::vector<VertexHandle>{V(0), V(1), V(a)});
    auto HF = [](int i) { return HalfFaceHandle(i); };
    m.add_cell({HF(2), HF(5), HF(0)}, false);
    m.add_cell({HF(4), HF(7), HF(1)}, false);
    std::vector<int> got, want;
    for (auto it = m.hehf_iter(HalfEdgeHandle(0)); it.valid(); ++it) got.push_back(it->idx());
    for (auto hf : m.halffaces()) { auto hes = m.halfface(hf).halfedges(); if (std::count(hes.begin(), hes.end(), HalfEdgeHandle(0))) want.push_back(hf.idx()); }
    std::sort(got.begin(), got.end());
    std::cout << "hehf(he0):"; for (int x : got) std::cout << ' ' << x; std::cout << "  scan:"; for (int x : want) std::cout << ' ' << x; std::cout << '\n';
    return got == want ? 0 : 1;
}

// C12: add_edge's duplicate search returns a different edge with / without vertex bottom-up incidences
#include <OpenVolumeMesh/Core/TopologyKernel.hh>
#include <iostream>
using namespace OpenVolumeMesh;
static std::vector<int> run(bool vbu) {
    TopologyKernel m;
    auto V = [](int i) { return VertexHandle(i); };
    m.add_n_vertices(3);
    m.add_edge(V(0), V(1));            // e0
    m.add_edge(V(0), V(1), true);      // e1: duplicate, explicitly allowed
    m.add_edge(V(1), V(2));
    m.add_edge(V(2), V(0));
    m.swap_edge_indices(EdgeHandle(0), EdgeHandle(1));
    if (!vbu) m.enable_vertex_bottom_up_incidences(false);
    int found = m.add_edge(V(0), V(1)).idx();
    FaceHandle f = m.add_face(std::vector<VertexHandle>{V(0), V(1), V(2)});
    std::vector<int> r{found};
    for (auto he : m.face(f).halfedges()) r.push_back(he.idx());
    return r;
}
int main() {
    auto a = run(true), b = run(false);
    std::cout << "vertex BU on : add_edge(0,1) -> e" << a[0] << ", face halfedges " << a[1] << ' ' << a[2] << ' ' << a[3] << '\n';
    std::cout << "vertex BU off: add_edge(0,1) -> e" << b[0] << ", face halfedges " << b[1] << ' ' << b[2] << ' ' << b[3] << '\n';
    return a == b ? 0 : 1;
}

#include <OpenVolumeMesh/Mesh/HexahedralMesh.hh>
#include <OpenVolumeMesh/Mesh/HexahedralMeshTopologyKernel.hh>
#include <iostream>
using namespace OpenVolumeMesh;
int main() {
  HexahedralMeshTopologyKernel m;
  std::vector<VertexHandle> v; for (int i = 0; i < 8; ++i) v.push_back(m.add_vertex());
  int F[6][4] = {{0,1,2,3},{4,0,5,2},{1,0,4,6},{3,2,5,7},{2,1,6,4},{0,3,7,5}};
  std::vector<HalfFaceHandle> hfs;
  for (auto& f : F) { std::vector<VertexHandle> vs; for (int x : f) vs.push_back(v[x]); FaceHandle fh = m.add_face(vs); hfs.push_back(m.halfface_handle(fh, 0)); }
  std::cout << "faces " << m.n_faces() << " edges " << m.n_edges() << "\n";
  CellHandle c = m.add_cell(hfs, true);
  std::cout << "add_cell(checked) -> " << c.idx() << "\n";
  if (!c.is_valid()) return 0;
  auto cell = m.cell(c);
  std::cout << "stored:"; for (auto h : cell.halffaces()) std::cout << " " << h.idx(); std::cout << "\n";
  for (int k = 0; k < 6; k += 2) {
    std::set<int> a, b;
    for (auto he : m.halfface(cell.halffaces()[k]).halfedges()) a.insert(m.halfedge(he).from_vertex().idx());
    for (auto he : m.halfface(cell.halffaces()[k+1]).halfedges()) b.insert(m.halfedge(he).from_vertex().idx());
    std::cout << "pair " << k << "," << k+1 << " shared:"; for (int x : a) if (b.count(x)) std::cout << " " << x; std::cout << "\n";
  }
  std::cout << "hex_vertices:"; for (auto it = m.hv_iter(c); it.valid(); ++it) std::cout << " " << it->idx(); std::cout << "\n";
  std::cout << "opposite of xfront in cell = " << m.opposite_halfface_handle_in_cell(m.xfront_halfface(c), c).idx() << " (xback " << m.xback_halfface(c).idx() << ")\n";
}

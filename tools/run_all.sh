#!/bin/bash
# Runs every registered check (quick by default) and prints one summary line per property.
#   tools/run_all.sh [quick|thorough] [ids...]
cd "$(dirname "$0")/.."
tier=${1:-quick}; shift
ids=${@:-$(python3 -c "import json;print(' '.join(c['property_id'] for c in json.load(open('MANIFEST.json'))['checks']))")}
mkdir -p .build/runall
for id in $ids; do
  s=$(date +%s)
  ./check $id --tier $tier > .build/runall/$id.out 2> .build/runall/$id.err; rc=$?
  e=$(date +%s)
  echo "$id rc=$rc $((e-s))s $(grep -c '^VIOLATION' .build/runall/$id.out) violations $(grep -c '^KNOWN-FINDING' .build/runall/$id.out) known"
done

#!/usr/bin/env python3
"""Rewrites seeded/README.md from seeded/*/meta.json."""
import json
from pathlib import Path

S = Path("/verif/seeded")
rows = []
for d in sorted(S.iterdir()):
    m = d / "meta.json"
    if not m.exists():
        continue
    j = json.loads(m.read_text())
    def cell(x):
        return str(x).replace("|", "\\|").replace("\n", " ")
    rows.append("| %s | %s | %s | %s | %s |" % (j["id"], j["breaks_property"], cell(j.get("change", ""))[:300], cell(j.get("needs_to_manifest", ""))[:300], cell(j.get("result", ""))[:300]))
head = """# Seeded changes and which check catches them

Each directory: `patch.diff` (applies to /repo with `patch -p1`), `demo.cc` (passes on the original, fails on the changed library), `meta.json`.
Every change was written by an independent sub-agent that saw only the property text and a scratch worktree, and was re-verified by
`tools/confirm_seed.sh` (original: demo passes; changed: compiles, pinned tests unchanged in a serial run, demo fails).
Re-run: `tools/try_mutation.sh seeded/<id>/patch.diff <Cxx>` (uses a scratch copy of /repo through VERIF_REPO).
`missed-then-...` in the result column: the check did not catch the change when it was first tried; what was strengthened is noted.

| id | property | change | needs | result |
|---|---|---|---|---|
"""
(S / "README.md").write_text(head + "\n".join(rows) + "\n")
print(len(rows), "rows")

#!/usr/bin/env python3
"""T5 -- conservative syntactic write-footprint of the const API (property C20).

Source of truth: /repo's *current* sources (vlib.common.REPO honours VERIF_REPO).  One unity
probe TU (all library TUs under Core/ and Mesh/ + explicit instantiations of the templates in
scope) is dumped with
    clang++-14 -std=gnu++17 -DNDEBUG -fsyntax-only -Xclang -ast-dump=json
               -Xclang -ast-dump-filter=OpenVolumeMesh
and every function body in namespace OpenVolumeMesh gets an *effect summary* by a fixpoint:

  W_shared(f)  f may write state that is not local to the call and not reachable only through
               its own `this` / reference parameters: a non-const static local / namespace-scope
               variable, anything behind a const_cast, a `mutable` field reached on a const
               path, the pointee of a pointer/reference it did not receive as const,
               or a call to g with W_shared(g)
  W_this(f)    (non-const members, ctors) f may write through `this`
  W_param(f)   set of reference/pointer parameters f may write through
  Exposes(f)   storage classes a returned reference/pointer may designate

An lvalue is classified by its *root*: local (value local / temporary / by-value parameter),
`this`, parameter i, shared (static/global), ext (anything reached through a pointer or
reference whose provenance is not provably local).  Calls into std:: are trusted to be
race-free for const access ([res.on.data.races]); non-const std members modify their object
unless they are in ACCESSORS ([container.requirements.dataraces]).

The table `constAPI` lists every const member function with a body of the classes in scope and
*every* member (ctor, operator++, ...) of the iterator/circulator classes (those run inside
const kernel queries on thread-local iterator objects; only W_shared matters for them).
writesShared = W_shared  or  (const member returning non-const access into `this`).

Fails closed: structural surprises raise T5Error; unknown expression kinds in a write position
classify as `ext` (=> flagged)."""
import json
import re
import sys
from pathlib import Path

sys.path.insert(0, str(Path(__file__).resolve().parent))
from vlib import build  # noqa: E402
from vlib.common import BUILD, LEAN, REPO, log, run, write_if_changed  # noqa: E402

sys.setrecursionlimit(20000)


class T5Error(Exception):
    pass


OUT_LEAN = LEAN / "OVM" / "Gen" / "ConstFootprint.lean"
WORK = BUILD / "t5"

# ------------------------------------------------------------------------------- scope
SCOPE_CLASSES = {
    "TopologyKernel", "ResourceManager", "GeometryKernel", "TetrahedralGeometryKernel",
    "TetrahedralMeshTopologyKernel", "HexahedralMeshTopologyKernel",
    "PropertyStoragePtr", "PropertyPtr", "HandleIndexing", "PropertyStorageT", "PropertyStorageBase",
    "OpenVolumeMeshBaseProperty",
}
SCOPE_FILES = [r"Core/BaseEntities\.(hh|cc)$", r"Core/Properties/PropertyStoragePtr\.hh$",
               r"Core/Properties/PropertyPtr\.hh$", r"Core/HandleIndexing\.hh$"]
ITER_FILES = [r"Core/Iterators/", r"Core/Iterators\.(hh|cc)$", r"Mesh/[A-Za-z]*Iterators\.(hh|cc)$"]
# property creation / destruction and tracker registration: excluded by the property's text
EXCLUDED = [r"^request_.*property$", r"^create_.*property$", r"^internal_create_property$",
            r"^storage_tracker$", r"^clone$", r"^make_property_ptr$"]
TU_DIRS = ("OpenVolumeMesh/Core/", "OpenVolumeMesh/Mesh/", "FileManager/Serializers.cc", "FileManager/TypeNames.cc")

# std:: non-const members that do not modify the object
ACCESSORS = {"begin", "end", "rbegin", "rend", "cbegin", "cend", "front", "back", "data", "operator[]",
             "at", "find", "lower_bound", "upper_bound", "equal_range", "get", "operator*", "operator->",
             "value", "c_str", "shared_from_this", "weak_from_this", "lock", "use_count", "size", "empty",
             "count", "operator bool", "has_value", "base"}
INDIRECT = {"operator*", "operator->", "get", "lock", "shared_from_this", "weak_from_this", "value"}
SYNC_STREAMS = {"cerr", "cout", "clog", "wcerr", "wcout", "wclog"}
RETURNS_ARG0 = {"operator<<", "operator>>", "operator=", "operator+=", "operator-=", "operator++", "operator--"}
PURE_STD_FREE = {"move", "forward", "as_const", "addressof", "get", "min", "max", "make_pair", "tie",
                 "static_pointer_cast", "dynamic_pointer_cast", "const_pointer_cast", "distance", "next", "prev",
                 "begin", "end"}

PROBE_TAIL = r"""
#include <OpenVolumeMesh/Mesh/PolyhedralMesh.hh>
#include <OpenVolumeMesh/Mesh/TetrahedralMesh.hh>
#include <OpenVolumeMesh/Mesh/HexahedralMesh.hh>
#include <OpenVolumeMesh/Mesh/TetrahedralGeometryKernel.hh>
#include <string>
namespace OpenVolumeMesh {
using V3 = Geometry::Vec3d;
template class GeometryKernel<V3, TopologyKernel>;
template class GeometryKernel<V3, TetrahedralMeshTopologyKernel>;
template class GeometryKernel<V3, HexahedralMeshTopologyKernel>;
template class TetrahedralGeometryKernel<V3, TetrahedralMeshTopologyKernel>;
template class BaseIterator<VertexHandle>;
template class BaseIterator<HalfFaceHandle>;
template class BaseCirculator<VertexHandle, VertexHandle>;
template class BaseCirculator<CellHandle, HalfFaceHandle>;
template class PropertyStorageT<int>;
template class PropertyStorageT<double>;
template class PropertyStorageT<std::string>;
template class PropertyStoragePtr<int>;
template class PropertyStoragePtr<bool>;
template class PropertyStoragePtr<std::string>;
template class PropertyStoragePtr<V3>;
template class HandleIndexing<Entity::Vertex, PropertyStoragePtr<int>>;
template class HandleIndexing<Entity::Cell, PropertyStoragePtr<bool>>;
template class PropertyPtr<int, Entity::Vertex>;
template class PropertyPtr<bool, Entity::Cell>;
template class PropertyPtr<std::string, Entity::HalfFace>;
namespace t5probe {
template <class E> void per_entity(const TopologyKernel& m) {
    (void)m.get_property<int, E>("x"); (void)m.property_exists<int, E>("x");
    (void)m.create_private_property<int, E>(); (void)m.n_props<E>(); (void)m.n_persistent_props<E>();
    (void)m.persistent_props_begin<E>(); (void)m.persistent_props_end<E>(); (void)m.n<E>();
    (void)m.is_valid(HandleT<E>(0));
}
inline void all(const TopologyKernel& m) {
    per_entity<Entity::Vertex>(m); per_entity<Entity::Edge>(m); per_entity<Entity::HalfEdge>(m);
    per_entity<Entity::Face>(m); per_entity<Entity::HalfFace>(m); per_entity<Entity::Cell>(m);
    (void)m.get_property<int, Entity::Mesh>("x");
    (void)m.get_vertex_property<int>("x"); (void)m.get_edge_property<int>("x"); (void)m.get_halfedge_property<int>("x");
    (void)m.get_face_property<int>("x"); (void)m.get_halfface_property<int>("x"); (void)m.get_cell_property<int>("x");
    (void)m.vertex_property_exists<int>("x"); (void)m.edge_property_exists<int>("x"); (void)m.halfedge_property_exists<int>("x");
    (void)m.face_property_exists<int>("x"); (void)m.halfface_property_exists<int>("x"); (void)m.cell_property_exists<int>("x");
    (void)m.create_private_vertex_property<int>(); (void)m.create_private_edge_property<int>();
    (void)m.create_private_halfedge_property<int>(); (void)m.create_private_face_property<int>();
    (void)m.create_private_halfface_property<int>(); (void)m.create_private_cell_property<int>();
}
}}
"""


def probe_source():
    srcs = [p for p in build.source_files() if any(d in p.as_posix() for d in TU_DIRS)]
    if not srcs:
        raise T5Error("no translation units under Core/ or Mesh/ in src/CMakeLists.txt")
    inc = "".join('#include "%s"\n' % p for p in srcs)
    return inc + PROBE_TAIL, [str(p) for p in srcs]


def dump_ast():
    WORK.mkdir(parents=True, exist_ok=True)
    text, srcs = probe_source()
    probe = WORK / "probe.cc"
    probe.write_text(text)
    out = WORK / "probe.json"
    cmd = ["clang++-14", "-std=gnu++17", "-DNDEBUG", "-D" + build.GUARD, "-fsyntax-only", "-w"] + build.include_flags() + [
        "-Xclang", "-ast-dump=json", "-Xclang", "-ast-dump-filter=OpenVolumeMesh", str(probe)]
    with open(out, "w") as f:
        import subprocess
        p = subprocess.run(cmd, stdout=f, stderr=subprocess.PIPE, text=True)
    if p.returncode != 0:
        raise T5Error("clang failed on the probe TU:\n" + p.stderr[-3000:])
    s = out.read_text()
    dec = json.JSONDecoder()
    i, n, docs = 0, len(s), []
    while i < n:
        while i < n and s[i].isspace():
            i += 1
        if i >= n:
            break
        if s[i] != "{":      # conda noise or similar: skip the line
            j = s.find("\n", i)
            i = n if j < 0 else j + 1
            continue
        d, i = dec.raw_decode(s, i)
        docs.append(d)
    if len(docs) < 10:
        raise T5Error("AST dump produced only %d documents" % len(docs))
    out.unlink()
    return docs, srcs


# ------------------------------------------------------------------------------- index
FUNC_KINDS = {"FunctionDecl", "CXXMethodDecl", "CXXConstructorDecl", "CXXDestructorDecl", "CXXConversionDecl"}
RECORD_KINDS = {"CXXRecordDecl", "ClassTemplateSpecializationDecl", "ClassTemplatePartialSpecializationDecl"}


def annotate_locs(doc):
    """clang prints `file`/`line` of a location only when they differ from the previously
    printed location: replay that state in document order."""
    st = {"file": None, "line": None}

    def visit(o):
        if isinstance(o, dict):
            if "offset" in o:
                if "file" in o:
                    st["file"] = o["file"]
                if "line" in o:
                    st["line"] = o["line"]
                o["_file"], o["_line"] = st["file"], st["line"]
                return
            for v in o.values():
                if isinstance(v, (dict, list)):
                    visit(v)
        else:
            for v in o:
                if isinstance(v, (dict, list)):
                    visit(v)
    visit(doc)


def loc_of(node):
    l = node.get("loc") or {}
    if "expansionLoc" in l:
        l = l["expansionLoc"]
    if "_file" not in l:
        r = (node.get("range") or {}).get("begin") or {}
        if "expansionLoc" in r:
            r = r["expansionLoc"]
        l = r
    return l.get("_file"), l.get("_line"), l.get("col")


def is_const_type(t):
    q = (t or {}).get("desugaredQualType") or (t or {}).get("qualType") or ""
    q = q.strip()
    return q.startswith("const ") or q.endswith(" const") or " const &" in q and q.startswith("const")


def qt(node):
    t = node.get("type") or {}
    return t.get("desugaredQualType") or t.get("qualType") or ""


def short_record_name(q):
    """'const OpenVolumeMesh::GenericCirculator<X<Y>> &' -> 'GenericCirculator'"""
    q = re.sub(r"\b(const|volatile|class|struct)\b", "", q)
    out, depth = [], 0
    for ch in q:
        if ch == "<":
            depth += 1
        elif ch == ">":
            depth -= 1
        elif depth == 0:
            out.append(ch)
    q = "".join(out).replace("&", "").replace("*", "").strip()
    return q.split("::")[-1].strip()


class Func:
    __slots__ = ("id", "node", "name", "kind", "rec", "file", "line", "col", "qual", "body", "inits", "const",
                 "static", "virtual", "pure", "implicit", "defaulted", "deleted", "dependent", "nested", "params",
                 "canon", "ret")


class Index:
    def __init__(self, docs):
        self.nodes = {}
        self.funcs = {}          # id -> Func (every declaration)
        self.records = {}        # id -> dict(name, qname, dependent, file, bases)
        self.fields = {}         # id -> dict(name, rec, mutable, type, file, line)
        self.gvars = {}          # id -> VarDecl node with static storage outside function bodies
        self.var_nodes = {}
        self.prev = {}
        for d in docs:
            annotate_locs(d)
        for d in docs:
            self._walk(d, ns=[], rec=None, fn=None, dep=False, tmpl_first=None)
        self._canon()

    def _walk(self, n, ns, rec, fn, dep, tmpl_first):
        k = n.get("kind")
        i = n.get("id")
        inner = n.get("inner") or []
        if k == "NamespaceDecl":
            for c in inner:
                self._walk(c, ns + [n.get("name", "")], rec, fn, dep, None)
            return
        if k in ("ClassTemplateDecl",):
            for c in inner:
                if c.get("kind") == "CXXRecordDecl":
                    self._walk(c, ns, rec, fn, True, None)     # the pattern
                else:
                    self._walk(c, ns, rec, fn, dep, None)      # specializations, params
            return
        if k == "FunctionTemplateDecl":
            first = True
            for c in inner:
                if c.get("kind") in FUNC_KINDS:
                    self._walk(c, ns, rec, fn, dep or first, None)
                    first = False
                else:
                    self._walk(c, ns, rec, fn, dep, None)
            return
        if k in RECORD_KINDS:
            d = dep or k == "ClassTemplatePartialSpecializationDecl"
            if k == "ClassTemplateSpecializationDecl":
                d = False if not (rec and self.records.get(rec, {}).get("dependent") and dep) else dep
            if i and (i not in self.records or n.get("completeDefinition")):
                f, l, _ = loc_of(n)
                outer = self.records[rec]["qname"] + "::" if rec and rec in self.records else "".join(x + "::" for x in ns if x)
                self.records[i] = {"name": n.get("name", ""), "qname": outer + n.get("name", ""), "dependent": d,
                                   "file": f, "line": l, "kind": k,
                                   "bases": [b.get("type", {}).get("desugaredQualType") or b.get("type", {}).get("qualType", "")
                                             for b in n.get("bases", [])]}
                if n.get("previousDecl"):
                    self.prev[i] = n["previousDecl"]
            for c in inner:
                self._walk(c, ns, i, fn, d, None)
            return
        if k == "FieldDecl":
            f, l, _ = loc_of(n)
            self.fields[i] = {"name": n.get("name", ""), "rec": rec, "mutable": bool(n.get("mutable")),
                              "type": qt(n), "file": f, "line": l}
        if k in FUNC_KINDS and i:
            fo = Func()
            fo.id, fo.node, fo.name, fo.kind = i, n, n.get("name", ""), k
            fo.rec = n.get("parentDeclContextId") if n.get("parentDeclContextId") in self.records else rec
            if k != "FunctionDecl" and fo.rec is None:
                fo.rec = n.get("parentDeclContextId")
            fo.file, fo.line, fo.col = loc_of(n)
            fo.qual = (n.get("type") or {}).get("qualType", "")
            fo.body = next((c for c in inner if c.get("kind") in ("CompoundStmt", "CXXTryStmt")), None)
            fo.inits = [c for c in inner if c.get("kind") == "CXXCtorInitializer"]
            tail = fo.qual[fo.qual.rfind(")") + 1:]
            fo.const = bool(re.search(r"\bconst\b", tail)) and k != "FunctionDecl"
            fo.static = n.get("storageClass") == "static" or k == "FunctionDecl"
            fo.virtual, fo.pure = bool(n.get("virtual")), bool(n.get("pure"))
            fo.implicit, fo.defaulted = bool(n.get("isImplicit")), bool(n.get("explicitlyDefaulted"))
            fo.deleted = bool(n.get("explicitlyDeleted"))
            rdep = bool(fo.rec and self.records.get(fo.rec, {}).get("dependent"))
            fo.dependent = dep or rdep
            fo.nested = fn is not None
            fo.params = [c for c in inner if c.get("kind") == "ParmVarDecl"]
            fo.ret = fo.qual.split("(")[0].strip()
            old = self.funcs.get(i)
            if old is None or (old.body is None and fo.body is not None):
                self.funcs[i] = fo
            if n.get("previousDecl"):
                self.prev[i] = n["previousDecl"]
            for c in inner:
                self._walk(c, ns, rec, i if fo.body is not None else fn, fo.dependent, None)
            return
        if k == "VarDecl" and i:
            self.var_nodes[i] = n
            if fn is None:
                self.gvars[i] = dict(node=n, rec=rec, ns=list(ns))
            if n.get("previousDecl"):
                self.prev[i] = n["previousDecl"]
        for c in inner:
            if isinstance(c, dict):
                self._walk(c, ns, rec, fn, dep, None)

    def _canon(self):
        def root(i):
            seen = 0
            while i in self.prev and seen < 50:
                i = self.prev[i]
                seen += 1
            return i
        self.groups = {}
        for i, f in self.funcs.items():
            f.canon = root(i)
            self.groups.setdefault(f.canon, []).append(f)
        self.by_name = {}
        for c, fs in self.groups.items():
            self.by_name.setdefault(fs[0].name, set()).add(c)
        self.ctors = {}
        for c, fs in self.groups.items():
            f = fs[0]
            if f.kind == "CXXConstructorDecl" and f.rec in self.records:
                self.ctors.setdefault(self.records[f.rec]["name"], set()).add(c)
        self.rec_names = {r["name"] for r in self.records.values() if r["name"]}

    def definition(self, canon):
        fs = self.groups.get(canon) or []
        for f in fs:
            if f.body is not None:
                return f
        return fs[0] if fs else None

    def rec_name(self, f):
        r = self.records.get(f.rec)
        return r["name"] if r else ""

    def qname(self, f):
        r = self.records.get(f.rec)
        return (r["qname"] + "::" if r else "OpenVolumeMesh::") + f.name


# ------------------------------------------------------------------------------- analysis
LOCAL = frozenset()
THIS = frozenset(["this"])
EXT = frozenset(["ext"])
ASSIGN_OPS = {"=", "+=", "-=", "*=", "/=", "%=", "&=", "|=", "^=", "<<=", ">>="}
PASS = {"ParenExpr", "ImplicitCastExpr", "CXXStaticCastExpr", "CStyleCastExpr", "CXXFunctionalCastExpr",
        "ExprWithCleanups", "ConstantExpr", "SubstNonTypeTemplateParmExpr", "CXXReinterpretCastExpr",
        "CXXDynamicCastExpr", "CXXConstCastExpr", "CXXBindTemporaryExpr", "MaterializeTemporaryExpr"}
TEMP = {"CXXConstructExpr", "CXXTemporaryObjectExpr", "InitListExpr", "LambdaExpr", "IntegerLiteral",
        "FloatingLiteral", "StringLiteral", "CXXBoolLiteralExpr", "CXXNullPtrLiteralExpr", "CharacterLiteral",
        "CXXDefaultArgExpr", "CXXStdInitializerListExpr", "CXXScalarValueInitExpr", "CXXUnresolvedConstructExpr",
        "CXXNewExpr", "GNUNullExpr", "ImplicitValueInitExpr", "UnaryExprOrTypeTraitExpr", "CXXTypeidExpr",
        "CXXDefaultInitExpr", "CXXThrowExpr", "SizeOfPackExpr", "CXXNoexceptExpr", "TypeTraitExpr",
        "ArrayInitLoopExpr", "ArrayInitIndexExpr", "CXXInheritedCtorInitExpr", "UserDefinedLiteral"}
DEPENDENT_UNKNOWN = {"UnresolvedLookupExpr", "DependentScopeDeclRefExpr", "UnresolvedMemberExpr", "OpaqueValueExpr",
                     "PackExpansionExpr", "ParenListExpr", "CXXFoldExpr"}


def g(reason):
    return frozenset([("g", reason)])


def is_ptr_type(q):
    q = q.strip()
    return q.endswith("*") or q.endswith("*const") or q.endswith("* const") or q.endswith("*__restrict")


def is_ref_type(q):
    return q.strip().endswith("&")


def sub(e, i=0):
    inner = [c for c in (e.get("inner") or []) if isinstance(c, dict) and c.get("kind")]
    return inner[i] if i < len(inner) else None


def kids(e):
    return [c for c in (e.get("inner") or []) if isinstance(c, dict) and c.get("kind")]


def strip(e):
    while e is not None and e.get("kind") in PASS:
        e = sub(e)
    return e


class Summary:
    __slots__ = ("shared", "wthis", "wparam", "exposes", "exposes_nc")

    def __init__(self):
        self.shared = {}        # reason -> site
        self.wthis = False
        self.wparam = set()
        self.exposes = frozenset()
        self.exposes_nc = frozenset()   # ... through a non-const reference / pointer

    def key(self):
        return (tuple(sorted(self.shared)), self.wthis, tuple(sorted(self.wparam)), tuple(sorted(map(str, self.exposes))),
                tuple(sorted(map(str, self.exposes_nc))))


class Analyser:
    def __init__(self, ix):
        self.ix = ix
        self.sum = {}
        self.sites = {"const_cast": [], "static": []}
        self.notes = set()

    # ---- summaries of functions we have no body for
    def live_targets(self, targets, caller):
        """instantiated functions only -- uninstantiated patterns are never executed (they are
        analysed as table entries of their own, and called from other patterns)"""
        if caller.dependent:
            return sorted(targets)
        return sorted(t for t in targets if not getattr(self.ix.definition(t), "dependent", False))

    def summary(self, canon):
        s = self.sum.get(canon)
        if s is not None:
            return s
        f = self.ix.definition(canon)
        s = Summary()
        if f is not None and f.body is None and not f.nested:
            if f.implicit or f.defaulted or f.deleted or f.pure:
                if not f.const and f.kind in ("CXXMethodDecl",):
                    s.wthis = True
                    s.exposes = THIS
            elif not f.dependent and any(x.node.get("isUsed") or x.node.get("isReferenced") for x in self.ix.groups.get(canon, [])):
                # declared, used, but defined in a TU we did not scan (or `extern template`)
                s.shared["no body in the scanned TUs: " + self.ix.qname(f)] = "%s:%s" % (f.file, f.line)
        self.sum[canon] = s
        return s

    def run(self):
        todo = [c for c in self.ix.groups if (lambda f: f is not None and f.body is not None and not f.nested)(self.ix.definition(c))]
        self.analysed = set(todo)
        for c in todo:
            self.sum[c] = Summary()
        for rnd in range(40):
            changed = 0
            for c in todo:
                new = FuncPass(self, self.ix.definition(c)).run()
                if new.key() != self.sum[c].key():
                    self.sum[c] = new
                    changed += 1
            if not changed:
                return rnd + 1
        raise T5Error("effect fixpoint did not converge in 40 rounds")

    def virtual_targets(self, f):
        out = set()
        for c in self.ix.by_name.get(f.name, ()):
            d = self.ix.definition(c)
            if d is not None and d.kind == f.kind and d.qual == f.qual and d.rec is not None:
                out.add(c)
        return out


class FuncPass:
    """One pass over one function body with the current summaries of everything it calls."""

    def __init__(self, an, f):
        self.an, self.ix, self.f = an, an.ix, f
        self.s = Summary()
        self.pidx = {p.get("id"): i for i, p in enumerate(f.params)}
        self.locals = set(self.pidx)
        self.vclass = {}     # reference-typed locals -> class of what they alias
        self.vpclass = {}    # pointer-typed locals -> class of the pointee
        self.viter = {}      # iterator-like locals -> class of the container
        self.is_member = f.kind != "FunctionDecl" and not f.static
        self.ret_refptr = is_ref_type(f.ret) or is_ptr_type(f.ret)

    def site(self, e):
        r = (e.get("range") or {}).get("begin") or {}
        if "expansionLoc" in r:
            r = r["expansionLoc"]
        f = r.get("_file") or ""
        return "%s:%s" % (f.split("/src/OpenVolumeMesh/")[-1], r.get("_line"))

    def run(self):
        roots = list(self.f.inits) + [self.f.body]
        for _ in (0, 1):                     # twice: alias classes are flow-insensitive joins
            self.s = Summary()
            self.collect = _ == 1
            for r in roots:
                self.stmt(r)
        return self.s

    # ---- effects
    def write(self, cls, why, e):
        for a in cls:
            if a == "this":
                if self.f.const and self.f.kind == "CXXMethodDecl":
                    self.s.shared["mutable state written in const method: " + why] = self.site(e)
                else:
                    self.s.wthis = True
            elif a == "ext":
                self.s.shared["write through non-local pointer/reference: " + why] = self.site(e)
            elif a[0] == "p":
                self.s.wparam.add(a[1])
            else:
                self.s.shared["write to %s: %s" % (a[1], why)] = self.site(e)

    # ---- classification
    def decl_class(self, e):
        ref = e.get("referencedDecl") or {}
        rk, rid = ref.get("kind"), ref.get("id")
        if rk == "ParmVarDecl":
            if rid in self.pidx:
                q = (ref.get("type") or {}).get("qualType", "")
                return frozenset([("p", self.pidx[rid])]) if is_ref_type(q) else LOCAL
            return EXT if is_ref_type((ref.get("type") or {}).get("qualType", "")) else LOCAL  # enclosing lambda param
        if rk in ("VarDecl", "VarTemplateSpecializationDecl"):
            if rid in self.vclass:
                return self.vclass[rid]
            vn = self.ix.var_nodes.get(rid)
            if rid in self.locals:
                if vn is not None and vn.get("storageClass") == "static" and not vn.get("tls"):
                    return LOCAL if (is_const_type(vn.get("type")) or vn.get("constexpr")) else g("static local '%s'" % ref.get("name"))
                q = (ref.get("type") or {}).get("qualType", "")
                return EXT if is_ref_type(q) else LOCAL
            t = (vn or ref).get("type")
            if is_const_type(t) or (vn or {}).get("constexpr"):
                return LOCAL
            if (vn or {}).get("tls"):
                return LOCAL
            if ref.get("name") in SYNC_STREAMS and vn is None:
                return LOCAL      # [iostream.objects.overview]: concurrent use is not a data race
            return g("global/static variable '%s'" % ref.get("name"))
        if rk == "FieldDecl":
            return THIS
        if rk == "BindingDecl":
            return EXT
        return LOCAL      # functions, enumerators, template parameters

    def lclass(self, e):
        """storage class of the object designated by expression e"""
        if e is None:
            return EXT
        k = e.get("kind")
        if k == "ImplicitCastExpr" and e.get("castKind") == "LValueToRValue":
            return LOCAL
        if k in PASS:
            if k in ("CXXBindTemporaryExpr", "MaterializeTemporaryExpr", "CXXFunctionalCastExpr") and (sub(e) or {}).get("valueCategory") == "prvalue" \
                    and not is_ptr_type(qt(sub(e) or {})):
                # a temporary object -- unless it is produced by a call (e.g. a returned proxy/iterator)
                pass
            return self.lclass(sub(e))
        if k in TEMP:
            return LOCAL
        if k == "DeclRefExpr":
            return self.decl_class(e)
        if k == "MemberExpr":
            md = e.get("referencedMemberDecl")
            fld = self.ix.fields.get(md)
            if fld is None and md in self.ix.var_nodes:          # static data member
                vn = self.ix.var_nodes[md]
                return LOCAL if (is_const_type(vn.get("type")) or vn.get("constexpr")) else g("static member '%s'" % e.get("name"))
            base = sub(e)
            bc = (self.pclass(base) if e.get("isArrow") else self.lclass(base)) if base is not None else THIS
            if fld is not None and is_ref_type(fld["type"]):
                return EXT
            return bc
        if k == "CXXDependentScopeMemberExpr":
            base = sub(e)
            if base is None:
                return THIS
            return self.pclass(base) if e.get("isArrow") else self.lclass(base)
        if k == "CXXThisExpr":
            return THIS
        if k == "UnaryOperator":
            op = e.get("opcode")
            if op == "*":
                return self.pclass(sub(e))
            if op in ("++", "--", "__real", "__imag", "__extension__"):
                return self.lclass(sub(e))
            return LOCAL
        if k == "ArraySubscriptExpr":
            return self.pclass(sub(e, 0)) | (self.pclass(sub(e, 1)) if is_ptr_type(qt(sub(e, 1) or {})) else LOCAL)
        if k in ("BinaryOperator", "CompoundAssignOperator"):
            op = e.get("opcode")
            if op == ",":
                return self.lclass(sub(e, 1))
            if op in ASSIGN_OPS:
                return self.lclass(sub(e, 0))
            if op in (".*", "->*"):
                return EXT
            return LOCAL
        if k in ("ConditionalOperator", "BinaryConditionalOperator"):
            ks = kids(e)
            return self.lclass(ks[-1]) | self.lclass(ks[-2])
        if k in ("CallExpr", "CXXMemberCallExpr", "CXXOperatorCallExpr"):
            return self.call_result(e)
        if k in DEPENDENT_UNKNOWN:
            return EXT
        self.an.notes.add("unclassified expression kind %s treated as non-local" % k)
        return EXT

    def ptr_lvalue_pclass(self, e):
        e = strip(e)
        if e is None:
            return EXT
        if e.get("kind") == "DeclRefExpr":
            ref = e.get("referencedDecl") or {}
            rid = ref.get("id")
            if ref.get("kind") == "ParmVarDecl" and rid in self.pidx:
                return frozenset([("p", self.pidx[rid])])
            if rid in self.vpclass:
                return self.vpclass[rid]
            if rid in self.viter:
                return self.viter[rid]
        return EXT

    def pclass(self, e):
        """storage class of the pointee of pointer-valued expression e"""
        if e is None:
            return EXT
        k = e.get("kind")
        if k == "ImplicitCastExpr":
            ck = e.get("castKind")
            if ck == "LValueToRValue":
                return self.ptr_lvalue_pclass(sub(e))
            if ck == "ArrayToPointerDecay":
                return self.lclass(sub(e))
            if ck == "NullToPointer":
                return LOCAL
            return self.pclass(sub(e))
        if k in PASS:
            return self.pclass(sub(e))
        if k == "CXXThisExpr":
            return THIS
        if k == "UnaryOperator":
            op = e.get("opcode")
            if op == "&":
                return self.lclass(sub(e))
            if op in ("++", "--"):
                return self.ptr_lvalue_pclass(sub(e))
            return EXT
        if k == "BinaryOperator":
            op = e.get("opcode")
            if op in ("+", "-"):
                out = LOCAL
                for c in kids(e):
                    if is_ptr_type(qt(c)):
                        out |= self.pclass(c)
                return out
            if op == ",":
                return self.pclass(sub(e, 1))
            return EXT
        if k in ("ConditionalOperator", "BinaryConditionalOperator"):
            ks = kids(e)
            return self.pclass(ks[-1]) | self.pclass(ks[-2])
        if k in TEMP:
            return LOCAL
        if k in ("CallExpr", "CXXMemberCallExpr", "CXXOperatorCallExpr"):
            return self.call_result(e)
        if k == "DeclRefExpr":       # an lvalue of pointer type used directly (e.g. iterator var)
            return self.ptr_lvalue_pclass(e)
        return EXT

    def access_class(self, e):
        """class of what a (possibly pointer-valued) argument/object expression gives access to"""
        if e.get("valueCategory") == "prvalue" and is_ptr_type(qt(e)):
            return self.pclass(e)
        return self.lclass(e)

    def nonconst_access(self, e):
        q = qt(e).strip()
        if e.get("valueCategory") in ("lvalue", "xvalue"):
            return not q.startswith("const ")
        if is_ptr_type(q):
            return not q.startswith("const ")
        return False

    # ---- calls
    def callee_info(self, e):
        """-> (targets:set of canon ids | None, name, obj expr | None, obj_is_arrow, args, resolved_in_ovm)"""
        k = e.get("kind")
        ks = kids(e)
        if not ks:
            return None, "?", None, False, [], False
        callee = ks[0]
        c = strip(callee)
        obj, arrow, args, name, targets = None, False, ks[1:], "?", None
        ck = c.get("kind") if c else None
        if ck == "MemberExpr":
            name = c.get("name", "?")
            obj, arrow = sub(c), bool(c.get("isArrow"))
            md = c.get("referencedMemberDecl")
            if md in self.ix.funcs:
                targets = {self.ix.funcs[md].canon}
        elif ck == "DeclRefExpr":
            ref = c.get("referencedDecl") or {}
            name = ref.get("name", "?")
            if ref.get("kind") in FUNC_KINDS:
                if ref.get("id") in self.ix.funcs:
                    targets = {self.ix.funcs[ref["id"]].canon}
                if k == "CXXOperatorCallExpr" and ref.get("kind") == "CXXMethodDecl" and args:
                    fq = (ref.get("type") or {}).get("qualType", "")
                    obj, args = args[0], args[1:]
            else:
                name = "<indirect:%s>" % name          # call through a variable (function pointer, functor param)
                if ref.get("kind") in ("VarDecl", "ParmVarDecl") and k == "CallExpr":
                    targets = "indirect"
        elif ck == "CXXDependentScopeMemberExpr":
            name, obj, arrow = c.get("member", "?"), sub(c), bool(c.get("isArrow"))
            targets = "byname"
        elif ck == "UnresolvedLookupExpr":
            name, targets = c.get("name", "?"), "byname"
        elif ck == "CXXPseudoDestructorExpr":
            return set(), "~", None, False, [], True
        else:
            name, targets = "<%s>" % ck, "indirect"
        if targets == "byname":
            cands = self.ix.by_name.get(name, set())
            targets = set(cands) if cands else None
        # virtual dispatch: every override with the same signature
        if isinstance(targets, set) and len(targets) == 1:
            f = self.ix.definition(next(iter(targets)))
            if f is not None and f.virtual:
                targets = targets | self.an.virtual_targets(f)
        return targets, name, obj, arrow, args, isinstance(targets, set)

    def indirect_class(self, obj):
        o = strip(obj)
        if o is None:
            return EXT
        if o.get("kind") == "DeclRefExpr":
            rid = (o.get("referencedDecl") or {}).get("id")
            return self.viter.get(rid, EXT)
        if o.get("kind") in ("CXXMemberCallExpr", "CXXOperatorCallExpr", "CallExpr"):
            t, name, oo, arrow, args, inovm = self.callee_info(o)
            if not inovm and name in ACCESSORS and name not in INDIRECT and oo is not None:
                return self.pclass(oo) if arrow else self.lclass(oo)
        return EXT

    def call_result(self, e):
        targets, name, obj, arrow, args, inovm = self.callee_info(e)
        q = qt(e)
        byval = e.get("valueCategory") == "prvalue" and not is_ptr_type(q)
        if byval:
            return LOCAL          # a temporary; what an iterator temporary points into is indirect_class's business
        objc = None
        if obj is not None:
            objc = self.pclass(obj) if arrow else self.lclass(obj)
        if inovm:
            out = LOCAL
            for t in self.an.live_targets(targets, self.f):
                for a in self.an.summary(t).exposes:
                    if a == "this":
                        out |= objc if objc is not None else EXT
                    elif a != "ext" and a[0] == "p":
                        out |= self.access_class(args[a[1]]) if a[1] < len(args) else EXT
                    else:
                        out |= frozenset([a])
            return out
        if targets == "indirect":
            return LOCAL if byval else EXT
        if obj is not None:                       # std member
            if name in INDIRECT:
                return self.indirect_class(obj)
            if name in ACCESSORS or name in RETURNS_ARG0:
                return objc
            return LOCAL if byval else EXT
        if (name in PURE_STD_FREE or name in RETURNS_ARG0) and args:
            return self.access_class(args[0])
        return LOCAL if byval else EXT

    def do_call(self, e):
        targets, name, obj, arrow, args, inovm = self.callee_info(e)
        objc = None
        obj_nonconst = False
        if obj is not None:
            objc = self.pclass(obj) if arrow else self.lclass(obj)
            oq = qt(obj).strip()
            obj_nonconst = not oq.startswith("const ")
        if targets == "indirect":
            self.s.shared["indirect call %s" % name] = self.site(e)
            targets, inovm = None, False
        if inovm:
            for t in self.an.live_targets(targets, self.f):
                sm = self.an.summary(t)
                tf = self.ix.definition(t)
                if tf is not None and tf.nested:
                    continue                       # lambda bodies are walked inline
                tn = self.ix.qname(tf) if tf else name
                for r in sm.shared:
                    self.s.shared.setdefault("calls %s" % tn, self.site(e))
                    break
                if objc is not None and obj_nonconst and sm.wthis:
                    self.write(objc, "non-const call %s" % tn, e)
                for i in sm.wparam:
                    if i < len(args) and self.nonconst_access(args[i]):
                        self.write(self.access_class(args[i]), "argument %d of %s" % (i, tn), e)
            return
        # std:: / unresolved
        if obj is not None:
            if obj_nonconst and name not in ACCESSORS:
                self.write(objc, "non-const std member %s" % name, e)
            if name == "operator[]" and "map<" in qt(obj) and obj_nonconst:
                self.write(objc, "map::operator[]", e)
        if name in PURE_STD_FREE:
            return
        for a in args:
            if self.nonconst_access(a):
                self.write(self.access_class(a), "passed to %s by non-const reference/pointer" % name, e)
            elif obj is None:
                # iterators / pointers into a container handed to an algorithm by value
                s0 = strip(a)
                while s0 is not None and s0.get("kind") in ("CXXConstructExpr",) and len(kids(s0)) == 1:
                    s0 = strip(kids(s0)[0])
                if s0 is not None and s0.get("kind") in ("CXXMemberCallExpr", "CXXOperatorCallExpr"):
                    t2, n2, o2, ar2, _, in2 = self.callee_info(s0)
                    if o2 is not None and not in2 and n2 in ACCESSORS and not qt(o2).strip().startswith("const "):
                        self.write(self.pclass(o2) if ar2 else self.lclass(o2), "iterator from %s() handed to %s" % (n2, name), e)

    def do_construct(self, e):
        cname = short_record_name(qt(e))
        args = kids(e)
        if cname in self.ix.rec_names:
            cands = self.an.live_targets(self.ix.ctors.get(cname, ()), self.f)
            ct = (e.get("ctorType") or {}).get("qualType")
            exact = [t for t in cands if self.ix.definition(t).qual == ct]
            arity = [t for t in cands if len(self.ix.definition(t).params) == len(args)]
            for t in (exact or arity or cands):
                sm = self.an.summary(t)
                tf = self.ix.definition(t)
                if tf is not None and tf.nested:
                    continue
                if sm.shared:
                    self.s.shared.setdefault("calls constructor of %s" % cname, self.site(e))
                for i in sm.wparam:
                    if i < len(args) and self.nonconst_access(args[i]):
                        self.write(self.access_class(args[i]), "argument %d of %s constructor" % (i, cname), e)
            return
        for a in args:
            if self.nonconst_access(a) and a.get("valueCategory") == "lvalue" and not qt(a).strip().startswith("const"):
                # non-const lvalue bound by a std constructor (e.g. reference_wrapper, lock_guard)
                self.write(self.access_class(a), "bound by constructor of %s" % cname, e)
            elif a.get("valueCategory") == "xvalue" and self.nonconst_access(a):
                self.write(self.access_class(a), "moved into %s" % cname, e)

    # ---- statements
    def declare(self, v):
        vid = v.get("id")
        self.locals.add(vid)
        q = qt(v)
        init = None
        for c in kids(v):
            if c.get("kind", "").endswith("Expr") or c.get("kind", "").endswith("Operator") or c.get("kind", "").endswith("Literal"):
                init = c
        if v.get("storageClass") == "static" and not v.get("tls"):
            f, l, _ = loc_of(v)
            if not (is_const_type(v.get("type")) or v.get("constexpr")):
                self.an.sites["static"].append(("%s:%s" % ((f or "").split("/src/OpenVolumeMesh/")[-1], l),
                                                "%s in %s" % (v.get("name"), self.ix.qname(self.f))))
            return
        if init is None:
            return
        if is_ref_type(q):
            self.vclass[vid] = self.vclass.get(vid, LOCAL) | self.lclass(init)
        elif is_ptr_type(q):
            self.vpclass[vid] = self.vpclass.get(vid, LOCAL) | self.pclass(init)
        else:
            s0 = strip(init)
            while s0 is not None and s0.get("kind") == "CXXConstructExpr" and len(kids(s0)) == 1:
                s0 = strip(kids(s0)[0])
            if s0 is not None and s0.get("kind") in ("CXXMemberCallExpr", "CXXOperatorCallExpr"):
                t, name, obj, arrow, args, inovm = self.callee_info(s0)
                if obj is not None and not inovm and name in ACCESSORS and name not in INDIRECT:
                    self.viter[vid] = self.viter.get(vid, LOCAL) | (self.pclass(obj) if arrow else self.lclass(obj))

    def stmt(self, n):
        if not isinstance(n, dict):
            return
        k = n.get("kind")
        if k is None:
            return
        if k in FUNC_KINDS:
            # nested function (lambda call operator / local class member): parameters are locals
            for p in kids(n):
                if p.get("kind") == "ParmVarDecl":
                    self.locals.add(p.get("id"))
        if k == "VarDecl":
            self.declare(n)
        elif k == "ParmVarDecl":
            self.locals.add(n.get("id"))
        elif k in ("BinaryOperator", "CompoundAssignOperator") and n.get("opcode") in ASSIGN_OPS:
            lhs = sub(n, 0)
            self.write(self.lclass(lhs), "assignment", n)
            l0 = strip(lhs)
            if l0 is not None and l0.get("kind") == "DeclRefExpr":
                rid = (l0.get("referencedDecl") or {}).get("id")
                if rid in self.vpclass or (rid in self.locals and is_ptr_type(qt(l0))):
                    self.vpclass[rid] = self.vpclass.get(rid, LOCAL) | self.pclass(sub(n, 1))
                if rid in self.viter:
                    self.viter[rid] = self.viter[rid] | EXT
        elif k == "UnaryOperator" and n.get("opcode") in ("++", "--"):
            self.write(self.lclass(sub(n)), n.get("opcode"), n)
        elif k in ("CallExpr", "CXXMemberCallExpr", "CXXOperatorCallExpr"):
            self.do_call(n)
        elif k in ("CXXConstructExpr", "CXXTemporaryObjectExpr"):
            self.do_construct(n)
        elif k == "CXXDeleteExpr":
            self.write(self.pclass(sub(n)), "delete", n)
        elif k == "CXXConstCastExpr":
            self.s.shared["const_cast"] = self.site(n)
            if self.collect:
                self.an.sites["const_cast"].append((self.site(n), self.ix.qname(self.f)))
        elif k in ("CStyleCastExpr", "CXXReinterpretCastExpr", "CXXFunctionalCastExpr"):
            dst, src = qt(n).strip(), qt(sub(n) or {}).strip()
            if (is_ptr_type(dst) or n.get("valueCategory") == "lvalue") and not dst.startswith("const ") and src.startswith("const "):
                self.s.shared["cast removes const"] = self.site(n)
                if self.collect:
                    self.an.sites["const_cast"].append((self.site(n), self.ix.qname(self.f) + " (C-style)"))
        elif k == "ReturnStmt" and not self._in_nested:
            r = sub(n)
            cls = None
            if r is not None and r.get("valueCategory") in ("lvalue", "xvalue"):
                cls, nc = self.lclass(r), not qt(r).strip().startswith("const ")
            elif r is not None and is_ptr_type(qt(r)):
                cls, nc = self.pclass(r), not qt(r).strip().startswith("const ")
            if cls is not None:
                self.s.exposes = self.s.exposes | cls
                if nc:
                    self.s.exposes_nc = self.s.exposes_nc | cls
        elif k == "UnresolvedMemberExpr" or (k == "CXXUnresolvedConstructExpr"):
            pass
        nested = k in FUNC_KINDS
        if nested:
            self._depth = getattr(self, "_depth", 0) + 1
        for c in n.get("inner") or []:
            self.stmt(c)
        if nested:
            self._depth -= 1

    @property
    def _in_nested(self):
        return getattr(self, "_depth", 0) > 0


# ------------------------------------------------------------------------------- table
def rel(path):
    return (path or "?").split("/src/OpenVolumeMesh/")[-1]


def matches(pats, path):
    r = rel(path)
    return any(re.search(p, r) for p in pats)


def collect_lists(docs, ix):
    """all `mutable` fields, const_cast sites and non-const statics in the scanned TU
    (uninstantiated templates included)"""
    muts = sorted({"%s::%s (%s:%s)" % (ix.records.get(f["rec"], {}).get("qname", "?"), f["name"], rel(f["file"]), f["line"])
                   for f in ix.fields.values() if f["mutable"]})
    casts, statics = set(), set()
    for i, gv in ix.gvars.items():
        n = gv["node"]
        static_storage = gv["rec"] is None or n.get("storageClass") == "static"
        if static_storage and not (is_const_type(n.get("type")) or n.get("constexpr")) and not n.get("tls"):
            f, l, _ = loc_of(n)
            statics.add("%s (%s:%s)" % (n.get("name"), rel(f), l))

    def walk(n, fn):
        k = n.get("kind")
        if k in FUNC_KINDS:
            fn = n.get("name")
        if k == "CXXConstCastExpr":
            b = (n.get("range") or {}).get("begin") or {}
            b = b.get("expansionLoc", b)
            casts.add("%s:%s in %s" % (rel(b.get("_file")), b.get("_line"), fn))
        if k == "VarDecl" and fn is not None and n.get("storageClass") == "static" and not n.get("tls") \
                and not (is_const_type(n.get("type")) or n.get("constexpr")):
            f, l, _ = loc_of(n)
            statics.add("%s in %s (%s:%s)" % (n.get("name"), fn, rel(f), l))
        for c in n.get("inner") or []:
            if isinstance(c, dict):
                walk(c, fn)
    for d in docs:
        walk(d, None)
    return muts, sorted(casts), sorted(statics)


def build_table(ix, an):
    entries = {}
    inst_keys = set()

    def scope_of(f):
        r = ix.records.get(f.rec)
        if r is None:
            return None
        cfile = r["file"]
        it = matches(ITER_FILES, cfile) or matches(ITER_FILES, f.file)
        if it:
            return "iter"
        if r["name"] in SCOPE_CLASSES or matches(SCOPE_FILES, cfile):
            return "api"
        return None

    alias = {}
    for fo in ix.funcs.values():
        c = ix.funcs.get(fo.canon)
        if c is not None:
            alias[(re.sub(r"<.*>", "", fo.name), fo.file, fo.line)] = (c.file, c.line)

    def key_of(f):
        c = ix.funcs.get(f.canon, f)
        nm = re.sub(r"<.*>$", "", f.name) if f.kind == "CXXConstructorDecl" else f.name
        fl = alias.get((re.sub(r"<.*>", "", f.name), c.file, c.line), (c.file, c.line))
        return (ix.rec_name(f), nm, rel(fl[0]), fl[1])

    for canon, fs in ix.groups.items():
        f = ix.definition(canon)
        if f is None or f.rec is None or f.nested:
            continue
        sc = scope_of(f)
        if sc is None:
            continue
        if f.kind == "CXXDestructorDecl" and f.body is None:
            continue
        if not (f.const or sc == "iter"):
            continue
        if f.body is None:
            if f.dependent or f.implicit or f.defaulted or f.deleted or f.pure:
                continue
            continue
        k = key_of(f)
        s = an.sum.get(canon)
        if s is None:
            raise T5Error("no summary for in-scope function " + ix.qname(f))
        e = entries.setdefault(k, dict(cls=k[0], name=k[1], sig=f.qual, const=f.const, kind=sc, reasons={}, n_inst=0,
                                       file=k[2], line=k[3]))
        if f.dependent:
            e["n_pat"] = e.get("n_pat", 0) + 1
            e["pat_reasons"] = dict(s.shared)
            e["sig"] = f.qual
            continue
        e["n_inst"] += 1
        if e["n_inst"] == 1 and not e.get("n_pat"):
            e["sig"] = f.qual
        for r, site in s.shared.items():
            e["reasons"].setdefault(r, site)
        if f.const and f.kind == "CXXMethodDecl":
            bad = [a for a in s.exposes_nc if a == "this" or (a != "ext" and a[0] == "g")]
            if bad:
                e["reasons"].setdefault("returns non-const access to mutable/static state", "%s:%s" % (k[2], k[3]))
    out = []
    for k, e in sorted(entries.items(), key=lambda kv: (kv[0][0], kv[0][1], kv[0][2], kv[0][3] or 0)):
        if e["n_inst"] == 0:
            # never instantiated in the probe TU: the (dependent) pattern body itself was analysed;
            # everything unresolved in it counted as non-local
            for r, site in e.get("pat_reasons", {}).items():
                e["reasons"].setdefault("[uninstantiated template] " + r, site)
        direct = {r: s for r, s in e["reasons"].items() if not r.startswith("calls ")}
        e["writesShared"] = bool(e["reasons"])
        e["direct"] = bool(direct)
        e["excluded"] = any(re.search(p, e["name"]) for p in EXCLUDED)
        rs = sorted(e["reasons"].items(), key=lambda x: (x[0].startswith("calls "), x[0]))
        e["via"] = "; ".join("%s @ %s" % (r, s) for r, s in rs[:3])
        out.append(e)
    return out


# ------------------------------------------------------------------------------- output
def lean_str(s):
    return '"' + s.replace("\\", "\\\\").replace('"', '\\"').replace("\n", " ") + '"'


CHUNK = 64


def emit_lean(table, muts, casts, statics, srcs, rounds):
    L = []
    L.append("/-  GENERATED by tools/t5_footprint.py from the OpenVolumeMesh sources -- do not edit.")
    L.append("    Conservative syntactic write-footprint of the const API (property C20).")
    L.append("    %d entries; probe TU = %d library TUs; effect fixpoint in %d rounds. -/" % (len(table), len(srcs), rounds))
    L.append("import OVM.Conc.Footprint")
    L.append("")
    L.append("namespace OVM.Gen")
    L.append("open OVM.Conc (Footprint)")
    L.append("")
    chunks = [table[i:i + CHUNK] for i in range(0, len(table), CHUNK)] or [[]]
    for ci, ch in enumerate(chunks):
        L.append("def constAPI_%d : List Footprint := [" % ci)
        rows = []
        for e in ch:
            rows.append("  { cls := %s, name := %s, sig := %s, isConst := %s, writesShared := %s, excluded := %s,\n    via := %s }" % (
                lean_str(e["cls"]), lean_str(e["name"]), lean_str(e["sig"]), "true" if e["const"] else "false",
                "true" if e["writesShared"] else "false", "true" if e["excluded"] else "false", lean_str(e["via"])))
        L.append(",\n".join(rows))
        L.append("]")
        L.append("")
    L.append("/-- the table in chunks of %d (one kernel `decide` per chunk in Props/C20) -/" % CHUNK)
    L.append("def constAPIChunks : List (List Footprint) := [%s]" % ", ".join("constAPI_%d" % i for i in range(len(chunks))))
    L.append("")
    L.append("/-- every const member function (and every iterator/circulator member) in scope -/")
    L.append("def constAPI : List Footprint := constAPIChunks.flatten")
    L.append("")
    for nm, lst, doc in (("mutableFields", muts, "every `mutable` field in the scanned TUs"),
                         ("constCastSites", casts, "every const_cast in the scanned TUs"),
                         ("nonConstStatics", statics, "every non-const variable with static storage in the scanned TUs")):
        L.append("/-- %s -/" % doc)
        L.append("def %s : List String := [%s]" % (nm, ", ".join(lean_str(x) for x in lst)))
        L.append("")
    L.append("def scannedTUs : List String := [%s]" % ", ".join(lean_str(rel(x)) for x in srcs))
    L.append("")
    L.append("end OVM.Gen")
    return "\n".join(L) + "\n"


def generate():
    """-> dict(table, mutable, const_casts, statics, srcs, rounds, notes); raises T5Error"""
    docs, srcs = dump_ast()
    ix = Index(docs)
    for need in ("TopologyKernel", "ResourceManager", "GeometryKernel", "TetrahedralMeshTopologyKernel",
                 "HexahedralMeshTopologyKernel", "PropertyStoragePtr", "PropertyPtr", "BaseIterator", "BaseCirculator"):
        if need not in ix.rec_names:
            raise T5Error("class %s not found in the AST dump" % need)
    an = Analyser(ix)
    rounds = an.run()
    table = build_table(ix, an)
    if len(table) < 100:
        raise T5Error("only %d const API entries extracted" % len(table))
    per_cls = {}
    for e in table:
        per_cls[e["cls"]] = per_cls.get(e["cls"], 0) + 1
    for need, least in (("TopologyKernel", 100), ("ResourceManager", 20), ("GeometryKernel", 5),
                        ("HexahedralMeshTopologyKernel", 5), ("TetrahedralMeshTopologyKernel", 3), ("PropertyStoragePtr", 8)):
        if per_cls.get(need, 0) < least:
            raise T5Error("only %d entries for class %s (expected >= %d): extraction is broken" % (per_cls.get(need, 0), need, least))
    muts, casts, statics = collect_lists(docs, ix)
    return dict(table=table, mutable=muts, const_casts=casts, statics=statics, srcs=[rel(s) for s in srcs], rounds=rounds,
                notes=sorted(an.notes), per_class=per_cls)


def t5():
    """gen callable for proof.proof_stage: regenerate lean/OVM/Gen/ConstFootprint.lean"""
    res = generate()
    write_if_changed(OUT_LEAN, emit_lean(res["table"], res["mutable"], res["const_casts"], res["statics"], res["srcs"], res["rounds"]))
    (WORK / "footprint.json").write_text(json.dumps(
        {k: v for k, v in res.items()}, indent=1, default=lambda o: sorted(o) if isinstance(o, (set, frozenset)) else str(o)))
    return res


if __name__ == "__main__":
    r = t5()
    bad = [e for e in r["table"] if e["writesShared"]]
    print("T5: %d entries (%d flagged, %d of them excluded), %d mutable fields, %d const_casts, %d non-const statics, repo=%s" % (
        len(r["table"]), len(bad), len([e for e in bad if e["excluded"]]), len(r["mutable"]), len(r["const_casts"]),
        len(r["statics"]), REPO))
    for e in bad:
        if not e["excluded"] or "-v" in sys.argv:
            print("  %s %s::%s %s  <- %s" % ("EXCL" if e["excluded"] else "FLAG", e["cls"], e["name"], e["sig"], e["via"][:300]))
    for n in r["notes"]:
        print("  note:", n)

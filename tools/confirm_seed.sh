#!/bin/bash
# usage: tools/confirm_seed.sh <Cxx> [suffix]  — re-verifies a planted change in its worktree /var/tmp/ovm-mut-<Cxx><suffix>:
# original: demo passes; changed: library compiles, pinned tests unchanged (serial run), demo fails.
set -u
id=$1; sfx=${2:-}; W=/var/tmp/ovm-mut-$id$sfx
cd $W || exit 3
git checkout -q -- src
cmake --build bld -j8 >/dev/null 2>&1 || { echo "ORIG BUILD FAILED"; exit 3; }
g++ -std=c++17 -I$W/src -I$W/bld/src MUT/demo.cc $W/bld/Build/lib/libOpenVolumeMesh.a -pthread -o MUT/demo_orig 2>/dev/null || { echo "DEMO COMPILE FAILED"; exit 3; }
(cd MUT && timeout 120 ./demo_orig >/dev/null 2>&1); o=$?
to=$(ctest --test-dir bld -j1 2>/dev/null | grep "tests passed")
git apply MUT/patch.diff || { echo "PATCH FAILED"; exit 3; }
cmake --build bld -j8 >/dev/null 2>&1 || { echo "CHANGED BUILD FAILED"; git checkout -q -- src; exit 3; }
g++ -std=c++17 -I$W/src -I$W/bld/src MUT/demo.cc $W/bld/Build/lib/libOpenVolumeMesh.a -pthread -o MUT/demo_changed 2>/dev/null
(cd MUT && timeout 120 ./demo_changed >/dev/null 2>&1); c=$?
tc=$(ctest --test-dir bld -j1 2>/dev/null | grep "tests passed")
git checkout -q -- src
cmake --build bld -j8 >/dev/null 2>&1
echo "$id$sfx: demo orig exit=$o changed exit=$c | tests orig: $to | changed: $tc"

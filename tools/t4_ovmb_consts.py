#!/usr/bin/env python3
"""T4: OVMB format constants -> lean/OVM/Gen/OvmbConsts.lean.

* harness/dump_consts.cc is compiled against the current headers + library and prints every constant
  the Lean model uses (the C++ compiler is the evaluator).
* The registered codec names come from `g++ -E -P PropertyCodecs.cc` + regex
  (register_codec<...>("..."), register_arraylike<...>("...")): the maps are private.
Fails closed (raises) when the codec list differs from the set the model/driver knows, when
suitable_int_encoding does not have the expected three-step shape, or when a constant is missing."""
import re
import sys
from pathlib import Path

sys.path.insert(0, str(Path(__file__).resolve().parent))
import ovmb_common as oc  # noqa: E402
from vlib import build  # noqa: E402
from vlib.common import LEAN, REPO, run, write_if_changed  # noqa: E402

# (ovmb name, kind, element size) the Lean codec model knows: kind b = bit-packed bool, s = u32-length string,
# f = fixed-size raw bytes.
KNOWN = [("b", "b", 1), ("u8", "f", 1), ("u16", "f", 2), ("u32", "f", 4), ("u64", "f", 8),
         ("i8", "f", 1), ("i16", "f", 2), ("i32", "f", 4), ("i64", "f", 8), ("f", "f", 4), ("d", "f", 8),
         ("s32", "s", 4), ("vh", "f", 4), ("eh", "f", 4), ("heh", "f", 4), ("fh", "f", 4), ("hfh", "f", 4), ("ch", "f", 4),
         ("2d", "f", 16), ("3d", "f", 24), ("4d", "f", 32), ("2f", "f", 8), ("3f", "f", 12), ("4f", "f", 16),
         ("2u32", "f", 8), ("3u32", "f", 12), ("4u32", "f", 16), ("2i32", "f", 8), ("3i32", "f", 12), ("4i32", "f", 16)]


def registered_names():
    src = REPO / "src" / "OpenVolumeMesh" / "IO" / "PropertyCodecs.cc"
    p = run(["g++", "-std=c++17", "-E", "-P", "-DNDEBUG"] + build.include_flags() + [str(src)])
    txt = p.stdout
    m = re.search(r"void\s+PropertyCodecs::add_default_types\s*\(\s*\)(.*?)const\s+PropertyDecoderBase\s*\*", txt, re.S)
    body = m.group(1) if m else txt
    names = re.findall(r"register_(?:codec|arraylike|matrixlike)\s*<[^;]*?>\s*\(\s*\"([^\"]*)\"\s*\)", body)
    if not names:
        raise RuntimeError("T4: no register_codec<...>(\"...\") calls found in PropertyCodecs.cc")
    # every register_* call must have been matched by the regex (no call with a non-literal name)
    calls = len(re.findall(r"\bregister_(?:codec|arraylike|matrixlike)\s*<", body))
    if calls != len(names):
        raise RuntimeError("T4: %d register_* calls but %d literal names extracted" % (calls, len(names)))
    # the literal need(2+3*4) of read(Decoder&, PropertyInfo&)
    csrc = (REPO / "src" / "OpenVolumeMesh" / "IO" / "detail" / "ovmb_codec.cc").read_text()
    m2 = re.search(r"void read\(Decoder &decoder, PropertyInfo &_out\)\s*\{\s*decoder\.need\(([^)]*)\);", csrc)
    need_pi = None
    if m2 and re.fullmatch(r"[0-9+* ]+", m2.group(1).strip()):
        need_pi = eval(m2.group(1))
    return names, need_pi


def parse_dump(txt):
    d = {"size": {}, "cc": {}, "enum": {}, "valid": {}, "elemsize": {}, "codec": []}
    for line in txt.splitlines():
        t = line.split()
        if not t:
            continue
        k = t[0]
        if k == "magic":
            d["magic"] = [int(x) for x in t[1:]]
        elif k == "size":
            d["size"][t[1]] = int(t[2])
        elif k == "cc":
            d["cc"][t[1]] = int(t[2])
        elif k == "enum":
            d["enum"][t[1]] = {t[i]: int(t[i + 1]) for i in range(2, len(t), 2)}
        elif k == "valid":
            d["valid"][t[1]] = [int(x) for x in t[2:]]
        elif k == "elemsize":
            d["elemsize"][t[1]] = [tuple(int(y) for y in x.split(":")) for x in t[2:]]
        elif k == "suitable":
            if t[1] == "first":
                d["suit_first"] = int(t[2])
            else:
                d["suit_" + t[1]] = [tuple(int(y) for y in x.split(":")) for x in t[2:]]
        elif k == "max_handle_idx":
            d["max_handle_idx"] = int(t[1])
        elif k == "writer":
            d["writer_" + t[1]] = (t[2], bytes.fromhex(t[3]) if t[3] != "-" else b"")
        elif k == "codec":
            kv = dict(x.split("=") for x in t[3:])
            d["codec"].append((t[2], kv["enc"], int(kv["dec"]), int(kv["size_n1"]), int(kv["size_default"])))
        elif k == "boolpack":
            d["boolpack"] = [int(x) for x in t[1:]]
    return d


def lean_list(xs):
    return "[" + ", ".join(str(x) for x in xs) + "]"


def generate():
    names, need_pi = registered_names()
    known = [k[0] for k in KNOWN]
    if sorted(names) != sorted(known) or len(set(names)) != len(names):
        raise RuntimeError("T4: codecs registered in PropertyCodecs.cc %s differ from the set the model knows %s"
                           % (sorted(set(names) - set(known)) or sorted(names), sorted(set(known) - set(names))))
    exe = oc.driver("dump_consts")
    d = parse_dump(run([str(exe)], env={"ASAN_OPTIONS": "detect_leaks=0"}).stdout)
    for key in ("magic", "suit_first", "suit_changes", "max_handle_idx", "writer_empty", "boolpack"):
        if key not in d:
            raise RuntimeError("T4: dump_consts did not print " + key)
    if need_pi is None or need_pi != d["size"].get("PropertyInfoMin"):
        raise RuntimeError("T4: need(...) literal of read(PropertyInfo) not recognised (%r)" % (need_pi,))
    # per-codec: registered both ways under the same name, element sizes as the model assumes
    for (name, kind, size), (cn, enc, dec, s1, sd) in zip(KNOWN, d["codec"]):
        if cn != name or enc != name or dec != 1:
            raise RuntimeError("T4: codec %s not registered as encoder+decoder under that name (enc=%s dec=%d)" % (name, enc, dec))
        if s1 != size or sd != size:
            raise RuntimeError("T4: codec %s element size %d/%d, model assumes %d" % (name, s1, sd, size))
    if d["boolpack"] != [9, 1]:
        raise RuntimeError("T4: bool bit packing probe gave %s, model assumes LSB-first packing [9, 1]" % d["boolpack"])
    # suitable_int_encoding: U8 up to t8, U16 up to t16, U32 above
    E = d["enum"]["IntEncoding"]
    ch = d["suit_changes"]
    if d["suit_first"] != E["U8"] or len(ch) != 2 or ch[0][1] != E["U16"] or ch[1][1] != E["U32"]:
        raise RuntimeError("T4: suitable_int_encoding does not have the shape U8|U16|U32: first=%s changes=%s" % (d["suit_first"], ch))
    t8, t16 = ch[0][0] - 1, ch[1][0] - 1
    wres, wbytes = d["writer_empty"]
    if wres != "Ok" or len(wbytes) < 48 + 16:
        raise RuntimeError("T4: writer probe failed: %s %d" % (wres, len(wbytes)))
    eof = wbytes[-16:]
    o = []
    o.append("/-! GENERATED by tools/t4_ovmb_consts.py from the current /repo sources (dump_consts.cc + regex on")
    o.append("    PropertyCodecs.cc).  Do not edit: regenerated on every run of C06/C07/C18. -/")
    o.append("namespace OVM.Gen.Ovmb")
    o.append("")
    o.append("def magic : List Nat := " + lean_list(d["magic"]))
    for k, v in d["size"].items():
        o.append("def size%s : Nat := %d" % (k, v))
    for k, v in d["cc"].items():
        o.append("def cc%s : Nat := %d" % (k.strip(), v))
    for en, vals in d["enum"].items():
        for k, v in vals.items():
            o.append("def %s%s : Nat := %d" % (en[0].lower() + en[1:], k, v))
    for en, vals in d["valid"].items():
        o.append("def valid%s : List Nat := %s" % (en, lean_list(vals)))
    o.append("def elemSizeIntTable : List (Nat × Nat) := " + lean_list("(%d, %d)" % x for x in d["elemsize"]["IntEncoding"]))
    o.append("def elemSizeVertexTable : List (Nat × Nat) := " + lean_list("(%d, %d)" % x for x in d["elemsize"]["VertexEncoding"]))
    o.append("/-- suitable_int_encoding(v) = U8 for v ≤ thrU8, U16 for v ≤ thrU16, U32 above (change points found by scanning). -/")
    o.append("def thrU8 : Nat := %d" % t8)
    o.append("def thrU16 : Nat := %d" % t16)
    o.append("def suitableSamples : List (Nat × Nat) := " + lean_list("(%d, %d)" % x for x in d["suit_samples"]))
    o.append("def maxHandleIdx : Nat := %d" % d["max_handle_idx"])
    o.append("/-- bytes 8..11 of a file written by the real writer for an empty mesh: file_version, header_version, vertex_dim, topo_type -/")
    o.append("def writerFileVersion : Nat := %d" % wbytes[8])
    o.append("def writerHeaderVersion : Nat := %d" % wbytes[9])
    o.append("def writerVertexDim : Nat := %d" % wbytes[10])
    o.append("/-- the 16 bytes of the EOF chunk as the real writer emits it -/")
    o.append("def writerEofChunk : List Nat := " + lean_list(eof))
    o.append("/-- (ovmb type name, kind: 0 = bit-packed bool, 1 = fixed-size raw bytes, 2 = u32-length string, element size) -/")
    kinds = {"b": 0, "f": 1, "s": 2}
    o.append("def codecTable : List (String × Nat × Nat) := " + lean_list('("%s", %d, %d)' % (n, kinds[k], s) for n, k, s in KNOWN))
    o.append("/-- the same table with the names as ASCII code lists (kernel-reducible without String internals) -/")
    o.append("def codecTableB : List (List Nat × Nat × Nat) := " + lean_list('(%s, %d, %d)' % (lean_list(n.encode()), kinds[k], s) for n, k, s in KNOWN))
    o.append("/-- names extracted from PropertyCodecs.cc, in registration order -/")
    o.append("def registeredCodecs : List String := " + lean_list('"%s"' % n for n in names))
    o.append("")
    o.append("end OVM.Gen.Ovmb")
    out = LEAN / "OVM" / "Gen" / "OvmbConsts.lean"
    write_if_changed(out, "\n".join(o) + "\n")
    return {"codecs": names, "thrU8": t8, "thrU16": t16}


def t4():
    return generate()


if __name__ == "__main__":
    print(generate())

#!/usr/bin/env python3
"""T6 -- data members and special member functions of the mesh kernel classes (property C13).

Source of truth: /repo's *current* sources (vlib.common.REPO honours VERIF_REPO).  A probe TU
that includes the three mesh headers and explicitly instantiates GeometryKernel<Vec3d, K> for the
three topology kernels (the mesh types harness/prop_drv.cc uses) is dumped with
    clang++-14 -std=gnu++17 -DNDEBUG -fsyntax-only -Xclang -ast-dump=json
               -Xclang -ast-dump-filter=OpenVolumeMesh
For TopologyKernel, TetrahedralMeshTopologyKernel, HexahedralMeshTopologyKernel, ResourceManager,
the template pattern GeometryKernel<VecT, TopologyKernelT> and its three instantiations the table
records: base classes; every non-static data member (name, canonical type, type as written,
`mutable`); and for copy ctor / copy assignment / move ctor / move assignment / destructor one of
implicit | defaulted | deleted | userProvided | absent.

Every member type is classified BY THIS TRANSLATOR from its canonical type string:
  value    arithmetic / bool / enum; std::vector/array/set/map/.../string/pair/tuple/optional of
           value types; a class of namespace OpenVolumeMesh whose bases and members are all value,
           that has no `mutable` member and whose copy operations are implicit or defaulted
           (recursion through OpenVolumeMeshEdge/Face/Cell, HandleIndexing<Tag, std::vector<T>>,
           the handle classes, ...)
  pointer  raw pointer, reference, function, std::shared_ptr/unique_ptr/weak_ptr/function/
           reference_wrapper, iterators -- or anything containing one
  other    everything the rules above do not recognise (fails closed), incl. classes with
           user-provided or deleted copy operations or a `mutable` member
The canonical type string stays in the table so the classification can be audited.

Output: lean/OVM/Gen/CopyFields.lean (core Lean only).  The theorems over the table live in
lean/OVM/Registry/CopyFields.lean and lean/OVM/Props/C13.lean.
Fails closed: structural surprises raise T6Error."""
import json
import re
import subprocess
import sys
from pathlib import Path

sys.path.insert(0, str(Path(__file__).resolve().parent))
sys.setrecursionlimit(20000)
from vlib import build  # noqa: E402
from vlib.common import BUILD, LEAN, REPO, write_if_changed  # noqa: E402


class T6Error(Exception):
    pass


OUT_LEAN = LEAN / "OVM" / "Gen" / "CopyFields.lean"
WORK = BUILD / "t6"
NS = "OpenVolumeMesh"

PROBE = r"""
#include <OpenVolumeMesh/Mesh/PolyhedralMesh.hh>
#include <OpenVolumeMesh/Mesh/TetrahedralMesh.hh>
#include <OpenVolumeMesh/Mesh/HexahedralMesh.hh>
namespace OpenVolumeMesh {
template class GeometryKernel<Geometry::Vec3d, TopologyKernel>;
template class GeometryKernel<Geometry::Vec3d, TetrahedralMeshTopologyKernel>;
template class GeometryKernel<Geometry::Vec3d, HexahedralMeshTopologyKernel>;
namespace t6probe {
// force the declaration of the implicit special members of the classes in scope
inline void use(const GeometryKernel<Geometry::Vec3d, TopologyKernel>& a,
                const GeometryKernel<Geometry::Vec3d, TetrahedralMeshTopologyKernel>& b,
                const GeometryKernel<Geometry::Vec3d, HexahedralMeshTopologyKernel>& c) {
    GeometryKernel<Geometry::Vec3d, TopologyKernel> x(a); x = a; x = b; x = c;
    GeometryKernel<Geometry::Vec3d, TetrahedralMeshTopologyKernel> y(b); y = b; y = a;
    GeometryKernel<Geometry::Vec3d, HexahedralMeshTopologyKernel> z(c); z = c; z = a;
    TopologyKernel k(a); k = a;
    TetrahedralMeshTopologyKernel tk(b); tk = b;
    HexahedralMeshTopologyKernel hk(c); hk = c;
}
}}
"""

# classes of the table: (display name, qualified record key)
TABLE = [
    ("TopologyKernel", NS + "::TopologyKernel"),
    ("TetrahedralMeshTopologyKernel", NS + "::TetrahedralMeshTopologyKernel"),
    ("HexahedralMeshTopologyKernel", NS + "::HexahedralMeshTopologyKernel"),
    ("ResourceManager", NS + "::ResourceManager"),
    ("GeometryKernel<VecT, TopologyKernelT>", NS + "::GeometryKernel"),       # the template pattern
    ("GeometryKernel<Vec3d, TopologyKernel>", NS + "::GeometryKernel<" + NS + "::Geometry::VectorT<double,3>," + NS + "::TopologyKernel>"),
    ("GeometryKernel<Vec3d, TetrahedralMeshTopologyKernel>",
     NS + "::GeometryKernel<" + NS + "::Geometry::VectorT<double,3>," + NS + "::TetrahedralMeshTopologyKernel>"),
    ("GeometryKernel<Vec3d, HexahedralMeshTopologyKernel>",
     NS + "::GeometryKernel<" + NS + "::Geometry::VectorT<double,3>," + NS + "::HexahedralMeshTopologyKernel>"),
]

RECORD_KINDS = {"CXXRecordDecl", "ClassTemplateSpecializationDecl", "ClassTemplatePartialSpecializationDecl"}

BUILTIN = {"bool", "char", "signed char", "unsigned char", "short", "unsigned short", "int", "unsigned int", "long",
           "unsigned long", "long long", "unsigned long long", "float", "double", "long double", "wchar_t", "char8_t",
           "char16_t", "char32_t", "__int128", "unsigned __int128", "std::byte", "std::size_t", "size_t"}
STD_VALUE = {"std::vector", "std::array", "std::set", "std::map", "std::multiset", "std::multimap", "std::unordered_set",
             "std::unordered_map", "std::unordered_multiset", "std::unordered_multimap", "std::deque", "std::list",
             "std::forward_list", "std::basic_string", "std::pair", "std::tuple", "std::optional", "std::variant",
             "std::bitset", "std::string", "std::allocator", "std::less", "std::greater", "std::equal_to", "std::hash",
             "std::char_traits", "std::monostate"}
STD_POINTER = {"std::shared_ptr", "std::unique_ptr", "std::weak_ptr", "std::function", "std::reference_wrapper",
               "std::basic_string_view", "std::string_view", "std::span", "__gnu_cxx::__normal_iterator",
               "std::initializer_list", "std::_Rb_tree_const_iterator", "std::_Rb_tree_iterator", "std::_Bit_iterator",
               "std::_Bit_const_iterator", "std::auto_ptr"}
RANK = {"value": 0, "other": 1, "pointer": 2}


def norm(s):
    """whitespace-free spelling used as lookup key"""
    s = s.replace("std::__cxx11::", "std::").replace("std::__1::", "std::")
    s = re.sub(r"\b(class|struct|enum)\s+", "", s)
    return re.sub(r"\s+", "", s)


# ------------------------------------------------------------------------------- AST
def dump_ast():
    WORK.mkdir(parents=True, exist_ok=True)
    probe = WORK / "probe.cc"
    probe.write_text(PROBE)
    out = WORK / "probe.json"
    cmd = ["clang++-14", "-std=gnu++17", "-DNDEBUG", "-D" + build.GUARD, "-fsyntax-only", "-w"] + build.include_flags() + [
        "-Xclang", "-ast-dump=json", "-Xclang", "-ast-dump-filter=" + NS, str(probe)]
    with open(out, "w") as f:
        p = subprocess.run(cmd, stdout=f, stderr=subprocess.PIPE, text=True)
    if p.returncode != 0:
        raise T6Error("clang failed on the probe TU:\n" + p.stderr[-3000:])
    s = out.read_text()
    dec = json.JSONDecoder()
    i, n, docs = 0, len(s), []
    while i < n:
        while i < n and s[i].isspace():
            i += 1
        if i >= n:
            break
        if s[i] != "{":      # conda noise or similar: skip the line
            j = s.find("\n", i)
            i = n if j < 0 else j + 1
            continue
        d, i = dec.raw_decode(s, i)
        docs.append(d)
    if len(docs) < 10:
        raise T6Error("AST dump produced only %d documents" % len(docs))
    out.unlink()
    return docs


def tystr(t):
    t = t or {}
    return t.get("desugaredQualType") or t.get("qualType") or ""


def annotate_files(doc):
    """clang prints `file` of a location only when it differs from the previously printed
    location: replay that state in document order."""
    st = {"file": None}

    def visit(o):
        if isinstance(o, dict):
            if "offset" in o:
                if "file" in o:
                    st["file"] = o["file"]
                o["_file"] = st["file"]
                return
            for v in o.values():
                if isinstance(v, (dict, list)):
                    visit(v)
        else:
            for v in o:
                if isinstance(v, (dict, list)):
                    visit(v)
    visit(doc)


def file_of(n):
    l = n.get("loc") or {}
    l = l.get("expansionLoc", l)
    if "_file" not in l:
        l = (n.get("range") or {}).get("begin") or {}
        l = l.get("expansionLoc", l)
    return l.get("_file")


class Index:
    """records (complete definitions) and enums of namespace OpenVolumeMesh, by normalised qualified name"""

    def __init__(self, docs):
        self.records = {}     # key -> node   (pattern: 'NS::Name'; specialisation: 'NS::Name<args>')
        self.enums = set()
        self.file = {}
        for d in docs:
            annotate_files(d)
        for d in docs:
            self._walk(d, [], False)

    def _walk(self, n, scope, in_template):
        k = n.get("kind")
        inner = [c for c in (n.get("inner") or []) if isinstance(c, dict)]
        if k == "NamespaceDecl":
            for c in inner:
                self._walk(c, scope + [n.get("name", "")], in_template)
            return
        if k == "ClassTemplateDecl":
            for c in inner:
                self._walk(c, scope, c.get("kind") == "CXXRecordDecl")
            return
        if k == "EnumDecl" and n.get("name"):
            self.enums.add(norm("::".join(scope + [n["name"]])))
            return
        if k in RECORD_KINDS:
            name = n.get("name", "")
            if not name:
                return
            key = "::".join(scope + [name])
            if k == "ClassTemplateSpecializationDecl":
                args = []
                for c in inner:
                    if c.get("kind") == "TemplateArgument":
                        if "type" in c:
                            args.append(tystr(c["type"]))
                        elif "value" in c:
                            args.append(str(c["value"]))
                        else:
                            args.append("?")
                key = key + "<" + ",".join(args) + ">"
            elif k == "ClassTemplatePartialSpecializationDecl":
                key = key + "<partial>"
            key = norm(key)
            if n.get("completeDefinition") and (key not in self.records):
                self.records[key] = n
                self.file[key] = file_of(n)
            for c in inner:
                self._walk(c, scope + [name], in_template)
            return
        for c in inner:
            if c.get("kind") in RECORD_KINDS or c.get("kind") in ("NamespaceDecl", "ClassTemplateDecl", "EnumDecl",
                                                                     "LinkageSpecDecl"):
                self._walk(c, scope, in_template)


# ------------------------------------------------------------------------------- special members
def strip_cvref(q):
    q = q.strip()
    ref = ""
    if q.endswith("&&"):
        ref, q = "&&", q[:-2]
    elif q.endswith("&"):
        ref, q = "&", q[:-1]
    q = re.sub(r"\b(const|volatile)\b", "", q).strip()
    return q, ref


def base_name(q):
    """'OpenVolumeMesh::GeometryKernel<A, B<C>>' -> 'GeometryKernel'"""
    out, depth = [], 0
    for ch in q:
        if ch == "<":
            depth += 1
        elif ch == ">":
            depth -= 1
        elif depth == 0:
            out.append(ch)
    return "".join(out).strip().split("::")[-1].strip()


def special_members(rec):
    """-> dict copyCtor/copyAssign/moveCtor/moveAssign/dtor -> status, templatedAssign: bool"""
    name = rec.get("name")
    found = {}
    templated_assign = False
    templated_ctor = False

    def status(d):
        if d.get("explicitlyDeleted") or d.get("explicitlyDefaulted") == "deleted":
            return "deleted"
        if d.get("isImplicit"):
            return "implicit"
        if d.get("explicitlyDefaulted"):
            return "defaulted"
        return "userProvided"

    def record(slot, d):
        st = status(d)
        if slot in found and found[slot] != st:
            # several declarations (cannot happen for special members) -> keep the worse one
            order = ["implicit", "defaulted", "deleted", "userProvided"]
            st = max(found[slot], st, key=order.index)
        found[slot] = st

    for c in rec.get("inner") or []:
        k = c.get("kind")
        if k == "FunctionTemplateDecl":
            if c.get("name") == "operator=":
                templated_assign = True
            if c.get("name", "").split("<")[0] == name:
                templated_ctor = True
            continue
        if k == "CXXDestructorDecl":
            record("dtor", c)
            continue
        is_ctor = k == "CXXConstructorDecl"
        is_asg = k == "CXXMethodDecl" and c.get("name") == "operator="
        if not (is_ctor or is_asg):
            continue
        params = [p for p in (c.get("inner") or []) if p.get("kind") == "ParmVarDecl"]
        if not params:
            continue
        if any("init" not in p for p in params[1:]):
            continue
        if is_asg and len(params) != 1:
            continue
        pq = (params[0].get("type") or {}).get("qualType", "")
        core, ref = strip_cvref(pq)
        if base_name(core) != name:
            continue
        if ref == "&&":
            record("moveCtor" if is_ctor else "moveAssign", c)
        elif ref == "&" or (ref == "" and is_asg):      # X& / const X& / (assignment only) by value
            record("copyCtor" if is_ctor else "copyAssign", c)
    dd = rec.get("definitionData") or {}
    for slot in ("copyCtor", "copyAssign", "dtor"):
        if slot not in found:
            info = dd.get(slot)
            if info is None:
                found[slot] = "absent"
            elif info.get("userDeclared"):
                raise T6Error("%s of %s is user-declared but its declaration was not found" % (slot, name))
            else:
                found[slot] = "implicit"          # not yet declared (needsImplicit): the implicit one
    for slot in ("moveCtor", "moveAssign"):
        if slot not in found:
            info = dd.get(slot) or {}
            if info.get("userDeclared"):
                raise T6Error("%s of %s is user-declared but its declaration was not found" % (slot, name))
            found[slot] = "implicit" if info.get("exists") else "absent"
    found["templatedAssign"] = templated_assign
    found["templatedCtor"] = templated_ctor
    return found


# ------------------------------------------------------------------------------- type classification
def split_args(s):
    out, depth, cur = [], 0, []
    for ch in s:
        if ch in "<([":
            depth += 1
        elif ch in ">)]":
            depth -= 1
        if ch == "," and depth == 0:
            out.append("".join(cur).strip())
            cur = []
        else:
            cur.append(ch)
    if "".join(cur).strip():
        out.append("".join(cur).strip())
    return out


class Classifier:
    def __init__(self, ix):
        self.ix = ix
        self.memo = {}        # record key -> (class, why)
        self.busy = set()
        self.aux = {}         # every OVM record judged on the way: key -> (class, why)

    def join(self, parts):
        best = ("value", "")
        for c, why in parts:
            if RANK[c] > RANK[best[0]]:
                best = (c, why)
        return best

    def type(self, q):
        """-> (class, why).  `why` names the first component that is not a value."""
        q = q.strip()
        q = q.replace("std::__cxx11::", "std::").replace("std::__1::", "std::")
        q = re.sub(r"^(class|struct|enum)\s+", "", q)
        if not q:
            return "other", "empty type"
        # function types / pointers to members / pointers / references
        depth = 0
        for ch in q:
            if ch == "<":
                depth += 1
            elif ch == ">":
                depth -= 1
            elif ch == "(" and depth == 0:
                return "pointer", "function or pointer-to-function type " + q
        core = re.sub(r"\s*\b(const|volatile|__restrict)\s*$", "", q).strip()
        if core.endswith("*") or core.endswith("&"):
            return "pointer", "pointer/reference " + q
        core = re.sub(r"^\s*(const|volatile)\b\s*", "", core).strip()
        core = re.sub(r"^\s*(const|volatile)\b\s*", "", core).strip()
        m = re.match(r"^(.*)\[\d*\]$", core)
        if m:
            return self.type(m.group(1))
        if re.fullmatch(r"-?\d+[uUlL]*", core) or core in ("true", "false"):
            return "value", ""                        # non-type template argument
        if core in BUILTIN:
            return "value", ""
        lt = core.find("<")
        if lt < 0:
            head, args, tail = core, None, ""
        else:
            depth, end = 0, -1
            for i in range(lt, len(core)):
                if core[i] == "<":
                    depth += 1
                elif core[i] == ">":
                    depth -= 1
                    if depth == 0:
                        end = i
                        break
            if end < 0:
                return "other", "unparsable type " + q
            head, args, tail = core[:lt].strip(), split_args(core[lt + 1:end]), core[end + 1:].strip()
        if tail:
            return "other", "nested-name type " + q          # e.g. std::vector<int>::iterator
        if head in STD_POINTER:
            return "pointer", head + ("<%s>" % ", ".join(args) if args else "")
        if head in STD_VALUE:
            return self.join([self.type(a) for a in (args or [])])
        key = norm(core)
        if key in self.ix.enums:
            return "value", ""
        if not head.startswith("::") and not head.startswith(NS + "::") and not head.startswith("std::") \
                and (norm(NS + "::" + core) in self.ix.records or norm(NS + "::" + head) in self.ix.records
                     or norm(NS + "::" + core) in self.ix.enums):
            key, head = norm(NS + "::" + core), NS + "::" + head     # dependent spelling without the namespace
            if key in self.ix.enums:
                return "value", ""
        if key in self.ix.records:
            return self.record(key)
        if norm(head) in self.ix.records and args is not None:
            # no such instantiation in the probe TU (dependent context): judge the template pattern
            c, why = self.record(norm(head))
            return c, why or ""
        return "other", "unrecognised type " + q

    def record(self, key):
        if key in self.memo:
            return self.memo[key]
        if key in self.busy:
            return "value", ""          # a cycle is only possible through a pointer, which is flagged where it occurs
        self.busy.add(key)
        rec = self.ix.records[key]
        parts = []
        if rec.get("tagUsed") == "union":
            parts.append(("other", "union " + key))
        for b in rec.get("bases") or []:
            c, why = self.type(tystr(b.get("type")))
            parts.append((c, why and "base of %s: %s" % (key, why)))
        for f in rec.get("inner") or []:
            if f.get("kind") != "FieldDecl":
                continue
            c, why = self.type(tystr(f.get("type")))
            parts.append((c, why and "%s::%s: %s" % (key, f.get("name"), why)))
            if f.get("mutable"):
                parts.append(("other", "mutable member %s::%s" % (key, f.get("name"))))
        sm = special_members(rec)
        for slot in ("copyCtor", "copyAssign"):
            if sm[slot] not in ("implicit", "defaulted"):
                parts.append(("other", "%s of %s is %s" % (slot, key, sm[slot])))
        res = self.join(parts)
        self.busy.discard(key)
        self.memo[key] = res
        self.aux[key] = res
        return res


# ------------------------------------------------------------------------------- table
def rel(path):
    return (path or "?").split("/src/OpenVolumeMesh/")[-1]


def build_table(ix):
    cl = Classifier(ix)
    rows = []
    for disp, key in TABLE:
        rec = ix.records.get(norm(key))
        if rec is None:
            raise T6Error("class %s (%s) not found in the AST dump" % (disp, key))
        sm = special_members(rec)
        fields = []
        for f in rec.get("inner") or []:
            if f.get("kind") == "IndirectFieldDecl":
                raise T6Error("anonymous struct/union member in %s" % disp)
            if f.get("kind") != "FieldDecl":
                continue
            t = f.get("type") or {}
            canon = tystr(t)
            c, why = cl.type(canon)
            fields.append(dict(name=f.get("name", ""), ty=canon, written=t.get("qualType", ""), cls=c,
                               mutable=bool(f.get("mutable")), why=why))
        bases = []
        for b in rec.get("bases") or []:
            if b.get("isVirtual"):
                raise T6Error("virtual base in %s" % disp)
            bases.append(tystr(b.get("type")))
        rows.append(dict(name=disp, key=norm(key), file=rel(ix.file.get(norm(key))), bases=bases, fields=fields,
                         isPattern=rec.get("kind") == "CXXRecordDecl" and disp.endswith(">"), **sm))
    aux = sorted((k, v[0], v[1]) for k, v in cl.aux.items())
    return rows, aux


# ------------------------------------------------------------------------------- output
def lean_str(s):
    return '"' + s.replace("\\", "\\\\").replace('"', '\\"').replace("\n", " ") + '"'


def lean_bool(b):
    return "true" if b else "false"


HEADER = """/-  GENERATED by tools/t6_copyfields.py from the OpenVolumeMesh sources -- do not edit.
    Data members, base classes and special member functions of the mesh kernel classes
    (property C13), read off the clang AST; `cls` is computed by the translator from the
    canonical type `ty` (see the translator's doc string for the rules). -/
namespace OVM.Gen.CopyFields

/-- `value`: copying the member copies everything it denotes; `pointer`: the member is or contains
    a pointer / reference / smart pointer / function object; `other`: not recognised (fails closed) -/
inductive TyClass where
  | value | pointer | other
deriving DecidableEq, Repr

/-- how a special member function comes about -/
inductive SM where
  | implicit | defaulted | deleted | userProvided | absent
deriving DecidableEq, Repr

structure Field where
  name : String
  /-- canonical (desugared) type -/
  ty : String
  /-- the type as written in the source -/
  written : String
  cls : TyClass
  isMutable : Bool
  /-- the first component that makes `cls` differ from `value` (empty otherwise) -/
  why : String := ""
deriving DecidableEq, Repr

structure ClassInfo where
  name : String
  file : String
  /-- uninstantiated class template (member types are dependent) -/
  isPattern : Bool := false
  bases : List String
  fields : List Field
  copyCtor : SM
  copyAssign : SM
  moveCtor : SM
  moveAssign : SM
  dtor : SM
  /-- a member function template `operator=` exists (never a copy assignment operator itself) -/
  templatedAssign : Bool := false
  /-- a constructor template exists (never a copy constructor itself) -/
  templatedCtor : Bool := false
deriving DecidableEq, Repr
"""

SM_LEAN = {"implicit": ".implicit", "defaulted": ".defaulted", "deleted": ".deleted", "userProvided": ".userProvided",
           "absent": ".absent"}


def emit_lean(rows, aux):
    L = [HEADER]
    L.append("def classes : List ClassInfo := [")
    out = []
    for r in rows:
        fs = []
        for f in r["fields"]:
            fs.append("      { name := %s, ty := %s,\n        written := %s, cls := .%s, isMutable := %s, why := %s }" % (
                lean_str(f["name"]), lean_str(f["ty"]), lean_str(f["written"]), f["cls"], lean_bool(f["mutable"]),
                lean_str(f["why"])))
        out.append("  { name := %s, file := %s, isPattern := %s,\n    bases := [%s],\n    copyCtor := %s, copyAssign := %s, moveCtor := %s, "
                   "moveAssign := %s, dtor := %s,\n    templatedAssign := %s, templatedCtor := %s,\n    fields := [%s] }" % (
                       lean_str(r["name"]), lean_str(r["file"]), lean_bool(r["isPattern"]),
                       ", ".join(lean_str(b) for b in r["bases"]),
                       SM_LEAN[r["copyCtor"]], SM_LEAN[r["copyAssign"]], SM_LEAN[r["moveCtor"]], SM_LEAN[r["moveAssign"]],
                       SM_LEAN[r["dtor"]], lean_bool(r["templatedAssign"]), lean_bool(r["templatedCtor"]),
                       ("\n" + ",\n".join(fs)) if fs else ""))
    L.append(",\n".join(out))
    L.append("]")
    L.append("")
    L.append("/-- audit trail: every class of namespace OpenVolumeMesh the classification recursed into,\n"
             "    with its verdict and (if not `value`) the first offending component -/")
    L.append("def auxRecords : List (String × TyClass × String) := [")
    L.append(",\n".join("  (%s, .%s, %s)" % (lean_str(k), c, lean_str(w)) for k, c, w in aux))
    L.append("]")
    L.append("")
    L.append("end OVM.Gen.CopyFields")
    return "\n".join(L) + "\n"


def analyse():
    docs = dump_ast()
    ix = Index(docs)
    rows, aux = build_table(ix)
    tk = next(r for r in rows if r["name"] == "TopologyKernel")
    if len(tk["fields"]) < 10:
        raise T6Error("only %d data members of TopologyKernel extracted: extraction is broken" % len(tk["fields"]))
    rm = next(r for r in rows if r["name"] == "ResourceManager")
    if not rm["fields"]:
        raise T6Error("no data member of ResourceManager extracted: extraction is broken")
    return dict(rows=rows, aux=aux, repo=str(REPO))


def generate():
    """gen callable for proof.proof_stage: (re)write lean/OVM/Gen/CopyFields.lean; returns a dict for the evidence"""
    res = analyse()
    write_if_changed(OUT_LEAN, emit_lean(res["rows"], res["aux"]))
    summary = {}
    for r in res["rows"]:
        summary[r["name"]] = {
            "bases": r["bases"], "n_fields": len(r["fields"]),
            "copyCtor": r["copyCtor"], "copyAssign": r["copyAssign"], "moveCtor": r["moveCtor"], "moveAssign": r["moveAssign"],
            "dtor": r["dtor"],
            "non_value_or_mutable": ["%s : %s [%s%s] %s" % (f["name"], f["ty"], f["cls"], ", mutable" if f["mutable"] else "", f["why"])
                                     for f in r["fields"] if f["cls"] != "value" or f["mutable"]]}
    res["summary"] = summary
    return res


if __name__ == "__main__":
    r = generate()
    print("T6: repo=%s -> %s" % (r["repo"], OUT_LEAN))
    for row in r["rows"]:
        print("  %-55s bases=%s copy=%s/%s move=%s/%s dtor=%s tmplAssign=%s fields=%d" % (
            row["name"], [base_name(b) for b in row["bases"]], row["copyCtor"], row["copyAssign"], row["moveCtor"], row["moveAssign"],
            row["dtor"], row["templatedAssign"], len(row["fields"])))
        for f in row["fields"]:
            print("      %-28s %-8s %s%s  %s" % (f["name"], f["cls"], "mutable " if f["mutable"] else "", f["ty"],
                                                  ("<- " + f["why"]) if f["why"] else ""))
    if "-v" in sys.argv:
        for k, c, w in r["aux"]:
            print("  aux %-8s %s %s" % (c, k, ("<- " + w) if w else ""))

"""Helpers shared by the OVMB checks (C06/C07/C18): robust driver build, compiled Lean judge,
sharded driver runs, replay formatting."""
import os
import re
import shutil
import subprocess
import time
from concurrent.futures import ThreadPoolExecutor
from pathlib import Path

from vlib import build
from vlib.common import BUILD, HARNESS, LEAN, NPROC, REPO, VERIF, flock, log, run, sha

IOB = BUILD / "io"


def _stable_lib(flavor="asan"):
    """build.ovm_lib() may have its output directory purged by a concurrent build of another tree
    (scratch copies); keep a hard link of the archive under .build/io/lib so linking never races."""
    for attempt in range(4):
        lib, flags = build.ovm_lib(flavor)
        dst = IOB / "lib" / (lib.parent.name + ".a")
        dst.parent.mkdir(parents=True, exist_ok=True)
        try:
            if not dst.exists():
                tmp = dst.with_suffix(".tmp%d" % os.getpid())
                try:
                    os.link(lib, tmp)
                except OSError:
                    shutil.copy2(lib, tmp)
                tmp.rename(dst)
            # keep only the 3 most recent private copies
            olds = sorted((IOB / "lib").glob("*.a"), key=lambda p: p.stat().st_mtime, reverse=True)
            for o in olds[3:]:
                if o != dst:
                    o.unlink(missing_ok=True)
            return dst, flags
        except FileNotFoundError:
            time.sleep(0.5 + attempt)
    raise RuntimeError("could not obtain a stable copy of libOVM.a")


def driver(name, flavor="asan", extra=()):
    """Like build.driver, but links against the private hard link of the library."""
    lib, flags = _stable_lib(flavor)
    srcs = [HARNESS / (name + ".cc")]
    hdrs = sorted(HARNESS.glob("*.hh"))
    key = sha(lib.name, flavor, *[p.read_bytes() for p in srcs + hdrs], " ".join(extra))
    exe = IOB / "drv" / ("%s-%s-%s" % (name, flavor, key))
    with flock("io-drv-" + name + flavor):
        if exe.exists():
            return exe
        exe.parent.mkdir(parents=True, exist_ok=True)
        for old in exe.parent.glob("%s-%s-*" % (name, flavor)):
            try:
                if time.time() - old.stat().st_mtime > 3600:
                    old.unlink()
            except OSError:
                pass
        log("[build] driver %s (%s)" % (name, flavor))
        tmp = exe.with_suffix(".tmp%d" % os.getpid())
        cxx = ["ccache", "g++"] if shutil.which("ccache") else ["g++"]
        env = {"CCACHE_DIR": str(VERIF / ".cache" / "ccache"), "CCACHE_BASEDIR": str(REPO), "CCACHE_NOHASHDIR": "1"}
        run(cxx + flags + ["-w", "-I" + str(HARNESS)] + list(extra) + [str(s) for s in srcs] + [str(lib), "-lpthread", "-o", str(tmp)], env=env)
        tmp.rename(exe)
    return exe


# ------------------------------------------------------------------------------ Lean judge
JUDGE_ROOT = "OVM.IO.Driver"


def _module_path(mod):
    return LEAN / (mod.replace(".", "/") + ".lean")


def _import_closure(root):
    seen, todo = [], [root]
    while todo:
        m = todo.pop()
        if m in seen:
            continue
        p = _module_path(m)
        if not p.exists():
            continue            # core / Std module
        seen.append(m)
        for line in p.read_text().splitlines():
            mm = re.match(r"\s*import\s+(\S+)", line)
            if mm:
                todo.append(mm.group(1))
    return seen


def judge_closure():
    return _import_closure(JUDGE_ROOT)


def judge_exe():
    """Compiled OVMB judge.  Uses the lake target `ovmbjudge` when the lakefile defines it; otherwise compiles the C
    files lake emits for the import closure of OVM.IO.Driver with leanc (no change to the lakefile needed)."""
    lakefile = (LEAN / "lakefile.toml").read_text()
    if re.search(r'name\s*=\s*"ovmbjudge"', lakefile):
        ok, lg = build.lake_build(["ovmbjudge"])
        if not ok:
            raise RuntimeError("lake build ovmbjudge failed:\n" + lg[-3000:])
        return LEAN / ".lake" / "build" / "bin" / "ovmbjudge"
    ok, lg = build.lake_build([JUDGE_ROOT])
    if not ok:
        raise RuntimeError("lake build %s failed:\n%s" % (JUDGE_ROOT, lg[-3000:]))
    mods = judge_closure()
    ir = LEAN / ".lake" / "build" / "ir"
    cfiles = [ir / (m.replace(".", "/") + ".c") for m in mods]
    key = sha(*[c.read_bytes() for c in cfiles])
    out = IOB / "judge" / ("ovmbjudge-" + key)
    with flock("io-judge"):
        if out.exists():
            return out
        out.parent.mkdir(parents=True, exist_ok=True)
        for old in out.parent.glob("ovmbjudge-*"):
            try:
                if old.is_file() and time.time() - old.stat().st_mtime > 3600:
                    old.unlink()
            except OSError:
                pass
        objdir = IOB / "judge" / "obj"
        objdir.mkdir(parents=True, exist_ok=True)
        log("[build] compiling OVMB judge (%d modules, leanc)" % len(cfiles))

        def cc(c):
            o = objdir / (sha(c.read_bytes()) + ".o")
            if not o.exists():
                tmp = o.with_suffix(".tmp%d.o" % os.getpid())
                run(["leanc", "-c", "-O2", "-DNDEBUG", str(c), "-o", str(tmp)], cwd=LEAN)
                tmp.rename(o)
            return o
        with ThreadPoolExecutor(NPROC) as ex:
            objs = list(ex.map(cc, cfiles))
        tmp = out.with_suffix(".tmp%d" % os.getpid())
        run(["leanc", "-o", str(tmp)] + [str(o) for o in objs], cwd=LEAN)
        tmp.rename(out)
    return out


# ------------------------------------------------------------------------------ sharded runs
DRV_ENV = {"ASAN_OPTIONS": "detect_leaks=0:allocator_may_return_null=1:max_allocation_size_mb=256:abort_on_error=1:handle_abort=1",
           "UBSAN_OPTIONS": "halt_on_error=1:abort_on_error=1:print_stacktrace=0"}


def workdir(ctx, name):
    d = IOB / ("%s-%s-%d" % (name, ctx.tier, ctx.seed))
    d.mkdir(parents=True, exist_ok=True)
    return d


def run_shards(exe, argv_of_shard, nshards, out_of_shard, seed, timeout=3600, extra_env=None):
    """Run `exe argv_of_shard(i)` for i in range(nshards) in parallel; stdout of shard i -> out_of_shard(i)."""
    env = dict(os.environ)
    env.update(DRV_ENV)
    env["VERIF_SEED"] = str(seed)
    if extra_env:
        env.update(extra_env)

    def one(i):
        out = out_of_shard(i)
        env_i = dict(env)
        env_i["IO_ERRFILE"] = str(Path(out).with_suffix(".err"))
        with open(out, "w") as f:
            p = subprocess.run([str(exe)] + [str(a) for a in argv_of_shard(i)], stdout=f, stderr=subprocess.PIPE,
                               env=env_i, timeout=timeout, text=True, errors="replace")
        if p.returncode != 0:
            raise RuntimeError("%s shard %d exited %d: %s" % (Path(exe).name, i, p.returncode, p.stderr[-2000:]))
        return out
    with ThreadPoolExecutor(min(nshards, NPROC)) as ex:
        return list(ex.map(one, range(nshards)))


def run_judge(judge, args, timeout=7200):
    p = subprocess.run([str(judge)] + [str(a) for a in args], stdout=subprocess.PIPE, stderr=subprocess.PIPE, text=True,
                       errors="replace", timeout=timeout)
    if p.returncode != 0:
        raise RuntimeError("judge %s failed (%d): %s" % (args[0], p.returncode, p.stderr[-2000:]))
    return parse_judge(p.stdout)


def parse_judge(txt):
    fails, stats, samples = [], {}, []
    for l in txt.splitlines():
        if l.startswith("FAIL "):
            head, _, hexpart = l.partition(" | hex=")
            t = head.split(" ", 3)
            what_detail = t[3] if len(t) > 3 else ""
            what, _, detail = what_detail.partition(" | ")
            fails.append({"id": t[1], "what": t[2] if len(t) > 2 else "?", "detail": (what + " " + detail).strip() if False else detail or what,
                          "kind": t[2] if len(t) > 2 else "?", "hex": hexpart.strip()})
        elif l.startswith("STAT "):
            k, _, v = l[5:].rpartition(" ")
            try:
                stats[k] = stats.get(k, 0) + int(v)
            except ValueError:
                pass
        elif l.startswith("SAMPLE "):
            samples.append(l[7:])
    return {"fails": fails, "stats": stats, "samples": samples}


def merge_judge(results):
    out = {"fails": [], "stats": {}, "samples": []}
    for r in results:
        out["fails"] += r["fails"]
        out["samples"] += r["samples"]
        for k, v in r["stats"].items():
            out["stats"][k] = out["stats"].get(k, 0) + v
    return out


def judge_shards(judge, args_of_shard, nshards):
    with ThreadPoolExecutor(min(nshards, NPROC)) as ex:
        return merge_judge(list(ex.map(lambda i: run_judge(judge, args_of_shard(i)), range(nshards))))


# ------------------------------------------------------------------------------ pipeline pieces
def shards_for(ctx):
    return min(NPROC, 16)


def gen_cases(ctx, drv, wd):
    """io_drv gen (sharded) -> one cases file; corpus cases (corpus/C06/*.cases) are put first."""
    N = shards_for(ctx)
    outs = run_shards(drv, lambda i: ["gen", ctx.tier, i, N], N, lambda i: wd / ("cases.%d.txt" % i), ctx.seed)
    cases = wd / "cases.txt"
    with open(cases, "w") as f:
        for c in sorted((VERIF / "corpus" / "C06").glob("*.cases")):
            f.write(c.read_text())
        for o in outs:
            f.write(Path(o).read_text())
    return cases


def case_index(cases_path):
    """id -> (header line, write result, bytes)"""
    idx, cur = {}, None
    with open(cases_path) as f:
        for l in f:
            if l.startswith("CASE "):
                cur = l.split()[1]
                idx[cur] = {"hdr": l.strip(), "w": "", "bytes": b""}
            elif cur and l.startswith("W "):
                idx[cur]["w"] = l[2:].strip()
            elif cur and l.startswith("B "):
                h = l[2:].strip()
                idx[cur]["bytes"] = b"" if h == "-" else bytes.fromhex(h)
            elif l.startswith("END"):
                cur = None
    return idx


def split_lines(path, n, prefix):
    """distribute the lines of `path` starting with `prefix` round-robin over n files; returns their paths"""
    outs = [Path(str(path) + ".%d" % i) for i in range(n)]
    fs = [open(o, "w") for o in outs]
    k = 0
    with open(path) as f:
        for l in f:
            if l.startswith(prefix):
                fs[k % n].write(l)
                k += 1
    for f in fs:
        f.close()
    return outs, k


def read_jobs(drv, jobs_path, wd, tag, seed):
    """run `io_drv read` on a J-lines file, sharded; returns [(jobs_i, results_i)]"""
    N = min(NPROC, 16)
    parts, k = split_lines(jobs_path, N, "J ")
    res = run_shards(drv, lambda i: ["read", parts[i]], N, lambda i: wd / ("%s.res.%d.txt" % (tag, i)), seed)
    return list(zip(parts, res)), k


def ddmin_bytes(data, still_fails, max_tests=400):
    """byte-level delta debugging: smallest subsequence found (removing chunks) that still fails"""
    n, tests = 2, 0
    data = bytes(data)
    while len(data) >= 2 and tests < max_tests:
        chunk = max(1, len(data) // n)
        reduced = False
        for i in range(0, len(data), chunk):
            cand = data[:i] + data[i + chunk:]
            tests += 1
            if cand and still_fails(cand):
                data, n, reduced = cand, max(n - 1, 2), True
                break
            if tests >= max_tests:
                break
        if not reduced:
            if chunk == 1:
                break
            n = min(len(data), n * 2)
    return data


def read_one(drv, mk, tc, bu, data, fail_at=-1, style=0, seed=1, wd=None, timeout_ms=None):
    """one isolated read of `data`; returns (class, detail)"""
    wd = wd or (IOB / "tmp")
    wd.mkdir(parents=True, exist_ok=True)
    jf = wd / ("one.%d.txt" % os.getpid())
    jf.write_text("J x %s %d %d %d %d %s\n" % (mk, tc, bu, fail_at, style, data.hex() if data else "-"))
    env = dict(os.environ)
    env.update(DRV_ENV)
    env["IO_ERRFILE"] = str(jf.with_suffix(".err"))
    if timeout_ms:
        env["IO_TIMEOUT_MS"] = str(timeout_ms)
    p = subprocess.run([str(drv), "read", str(jf)], stdout=subprocess.PIPE, stderr=subprocess.PIPE, env=env, text=True, errors="replace", timeout=600)
    for l in p.stdout.splitlines():
        if l.startswith("R x "):
            t = l.split(" ", 3)
            return t[2], (t[3] if len(t) > 3 else "")
    return "?", p.stderr[-300:]


def report_fails(ctx, drv, fails, label, limit=6):
    """turn judge FAIL records into violations with shrunk replays; returns number reported"""
    seen = set()
    n = 0
    for f in fails:
        sig = "%s:%s" % (label, f["kind"])
        key = (f["kind"], re.sub(r"[0-9]+", "#", f["detail"])[:120])
        if key in seen:
            continue
        seen.add(key)
        if n >= limit:
            break
        n += 1
        data = bytes.fromhex(f["hex"]) if f["hex"] not in ("", "-") else b""
        txt = ["property %s: %s" % (ctx.pid, f["kind"]), "case/job id: %s" % f["id"], "observed vs expected: %s" % f["detail"]]
        m = re.search(r"kind ([pth]), topology_check (true|false), fault (none|\(?some (\d+)\)?)", f["detail"])
        mk, tc, fa = "p", 1, -1
        if m:
            mk, tc = m.group(1), 1 if m.group(2) == "true" else 0
            fa = int(m.group(4)) if m.group(4) else -1
        shrunk = data
        if data and f["kind"] in ("reader-crash", "reader-hang", "ok-but-not-WF", "ok-but-invalid-mesh") and len(data) <= 200000:
            want = "crash" if f["kind"] == "reader-crash" else "hang" if f["kind"] == "reader-hang" else "ok"
            if want != "ok":
                try:
                    shrunk = ddmin_bytes(data, lambda d: read_one(drv, mk, tc, 1, d, fa, 0, ctx.seed)[0] == want, 150)
                except Exception:
                    shrunk = data
        txt.append("reader config: mesh type %s, topology_check %d, bottom_up 1 (and 0), read-fault position %d" % (mk, tc, fa))
        txt.append("replay: echo 'J r %s %d 1 %d 0 <hex>' > j.txt; <io_drv> read j.txt   (driver: tools/ovmb_common.driver('io_drv'))" % (mk, tc, fa))
        if shrunk != data:
            txt.append("minimised bytes (%d of %d): %s" % (len(shrunk), len(data), shrunk.hex()))
        txt.append("bytes (%d): %s" % (len(data), data.hex() if len(data) <= 400000 else data[:2000].hex() + "..."))
        p = ctx.write_replay("%s-%s-%d.txt" % (label, re.sub(r"[^A-Za-z0-9]+", "_", f["kind"])[:40], n), "\n".join(txt) + "\n")
        ctx.violation(p, "%s: %s (%s)" % (f["kind"], f["detail"][:200], f["id"]), found_input=bool(data) or "hex" in f, sig=sig)
    return n

"""Helpers shared by the OVMB checks (C06/C07/C18): robust driver build, compiled Lean judge,
sharded driver runs, replay formatting."""
import os
import re
import shutil
import subprocess
import time
from concurrent.futures import ThreadPoolExecutor
from pathlib import Path

from vlib import build
from vlib.common import BUILD, HARNESS, LEAN, NPROC, REPO, VERIF, flock, log, run, sha

IOB = BUILD / "io"


def _stable_lib(flavor="asan"):
    """build.ovm_lib() may have its output directory purged by a concurrent build of another tree
    (scratch copies); keep a hard link of the archive under .build/io/lib so linking never races."""
    for attempt in range(4):
        lib, flags = build.ovm_lib(flavor)
        dst = IOB / "lib" / (lib.parent.name + ".a")
        dst.parent.mkdir(parents=True, exist_ok=True)
        try:
            if not dst.exists():
                tmp = dst.with_suffix(".tmp%d" % os.getpid())
                try:
                    os.link(lib, tmp)
                except OSError:
                    shutil.copy2(lib, tmp)
                tmp.rename(dst)
            # keep only the 3 most recent private copies
            olds = sorted((IOB / "lib").glob("*.a"), key=lambda p: p.stat().st_mtime, reverse=True)
            for o in olds[3:]:
                if o != dst:
                    o.unlink(missing_ok=True)
            return dst, flags
        except FileNotFoundError:
            time.sleep(0.5 + attempt)
    raise RuntimeError("could not obtain a stable copy of libOVM.a")


def driver(name, flavor="asan", extra=()):
    """Like build.driver, but links against the private hard link of the library."""
    lib, flags = _stable_lib(flavor)
    srcs = [HARNESS / (name + ".cc")]
    hdrs = sorted(HARNESS.glob("*.hh"))
    key = sha(lib.name, flavor, *[p.read_bytes() for p in srcs + hdrs], " ".join(extra))
    exe = IOB / "drv" / ("%s-%s-%s" % (name, flavor, key))
    with flock("io-drv-" + name + flavor):
        if exe.exists():
            return exe
        exe.parent.mkdir(parents=True, exist_ok=True)
        for old in exe.parent.glob("%s-%s-*" % (name, flavor)):
            try:
                if time.time() - old.stat().st_mtime > 3600:
                    old.unlink()
            except OSError:
                pass
        log("[build] driver %s (%s)" % (name, flavor))
        tmp = exe.with_suffix(".tmp%d" % os.getpid())
        cxx = ["ccache", "g++"] if shutil.which("ccache") else ["g++"]
        env = {"CCACHE_DIR": str(VERIF / ".cache" / "ccache"), "CCACHE_BASEDIR": str(REPO), "CCACHE_NOHASHDIR": "1"}
        run(cxx + flags + ["-w", "-I" + str(HARNESS)] + list(extra) + [str(s) for s in srcs] + [str(lib), "-lpthread", "-o", str(tmp)], env=env)
        tmp.rename(exe)
    return exe

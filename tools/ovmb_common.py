"""Helpers shared by the OVMB checks (C06/C07/C18): robust driver build, compiled Lean judge,
sharded driver runs, replay formatting."""
import os
import re
import shutil
import subprocess
import time
from concurrent.futures import ThreadPoolExecutor
from pathlib import Path

from vlib import build
from vlib.common import BUILD, HARNESS, LEAN, NPROC, REPO, VERIF, flock, log, run, sha

IOB = BUILD / "io"


def _stable_lib(flavor="asan"):
    """build.ovm_lib() may have its output directory purged by a concurrent build of another tree
    (scratch copies); keep a hard link of the archive under .build/io/lib so linking never races."""
    for attempt in range(4):
        lib, flags = build.ovm_lib(flavor)
        dst = IOB / "lib" / (lib.parent.name + ".a")
        dst.parent.mkdir(parents=True, exist_ok=True)
        try:
            if not dst.exists():
                tmp = dst.with_suffix(".tmp%d" % os.getpid())
                try:
                    os.link(lib, tmp)
                except OSError:
                    shutil.copy2(lib, tmp)
                tmp.rename(dst)
            # keep only the 3 most recent private copies
            olds = sorted((IOB / "lib").glob("*.a"), key=lambda p: p.stat().st_mtime, reverse=True)
            for o in olds[3:]:
                if o != dst:
                    o.unlink(missing_ok=True)
            return dst, flags
        except FileNotFoundError:
            time.sleep(0.5 + attempt)
    raise RuntimeError("could not obtain a stable copy of libOVM.a")


def driver(name, flavor="asan", extra=()):
    """Like build.driver, but links against the private hard link of the library."""
    lib, flags = _stable_lib(flavor)
    srcs = [HARNESS / (name + ".cc")]
    hdrs = sorted(HARNESS.glob("*.hh"))
    key = sha(lib.name, flavor, *[p.read_bytes() for p in srcs + hdrs], " ".join(extra))
    exe = IOB / "drv" / ("%s-%s-%s" % (name, flavor, key))
    with flock("io-drv-" + name + flavor):
        if exe.exists():
            return exe
        exe.parent.mkdir(parents=True, exist_ok=True)
        for old in exe.parent.glob("%s-%s-*" % (name, flavor)):
            try:
                if time.time() - old.stat().st_mtime > 3600:
                    old.unlink()
            except OSError:
                pass
        log("[build] driver %s (%s)" % (name, flavor))
        tmp = exe.with_suffix(".tmp%d" % os.getpid())
        cxx = ["ccache", "g++"] if shutil.which("ccache") else ["g++"]
        env = {"CCACHE_DIR": str(VERIF / ".cache" / "ccache"), "CCACHE_BASEDIR": str(REPO), "CCACHE_NOHASHDIR": "1"}
        run(cxx + flags + ["-w", "-I" + str(HARNESS)] + list(extra) + [str(s) for s in srcs] + [str(lib), "-lpthread", "-o", str(tmp)], env=env)
        tmp.rename(exe)
    return exe


# ------------------------------------------------------------------------------ Lean judge
JUDGE_ROOT = "OVM.IO.Driver"


def _module_path(mod):
    return LEAN / (mod.replace(".", "/") + ".lean")


def _import_closure(root):
    seen, todo = [], [root]
    while todo:
        m = todo.pop()
        if m in seen:
            continue
        p = _module_path(m)
        if not p.exists():
            continue            # core / Std module
        seen.append(m)
        for line in p.read_text().splitlines():
            mm = re.match(r"\s*import\s+(\S+)", line)
            if mm:
                todo.append(mm.group(1))
    return seen


def judge_closure():
    return _import_closure(JUDGE_ROOT)


def judge_exe():
    """Compiled OVMB judge.  Uses the lake target `ovmbjudge` when the lakefile defines it; otherwise compiles the C
    files lake emits for the import closure of OVM.IO.Driver with leanc (no change to the lakefile needed)."""
    lakefile = (LEAN / "lakefile.toml").read_text()
    if re.search(r'name\s*=\s*"ovmbjudge"', lakefile):
        ok, lg = build.lake_build(["ovmbjudge"])
        if not ok:
            raise RuntimeError("lake build ovmbjudge failed:\n" + lg[-3000:])
        return LEAN / ".lake" / "build" / "bin" / "ovmbjudge"
    ok, lg = build.lake_build([JUDGE_ROOT])
    if not ok:
        raise RuntimeError("lake build %s failed:\n%s" % (JUDGE_ROOT, lg[-3000:]))
    mods = judge_closure()
    ir = LEAN / ".lake" / "build" / "ir"
    cfiles = [ir / (m.replace(".", "/") + ".c") for m in mods]
    key = sha(*[c.read_bytes() for c in cfiles])
    out = IOB / "judge" / ("ovmbjudge-" + key)
    with flock("io-judge"):
        if out.exists():
            return out
        out.parent.mkdir(parents=True, exist_ok=True)
        for old in out.parent.glob("ovmbjudge-*"):
            try:
                if old.is_file() and time.time() - old.stat().st_mtime > 3600:
                    old.unlink()
            except OSError:
                pass
        objdir = IOB / "judge" / "obj"
        objdir.mkdir(parents=True, exist_ok=True)
        log("[build] compiling OVMB judge (%d modules, leanc)" % len(cfiles))

        def cc(c):
            o = objdir / (sha(c.read_bytes()) + ".o")
            if not o.exists():
                tmp = o.with_suffix(".tmp%d.o" % os.getpid())
                run(["leanc", "-c", "-O2", "-DNDEBUG", str(c), "-o", str(tmp)], cwd=LEAN)
                tmp.rename(o)
            return o
        with ThreadPoolExecutor(NPROC) as ex:
            objs = list(ex.map(cc, cfiles))
        tmp = out.with_suffix(".tmp%d" % os.getpid())
        run(["leanc", "-o", str(tmp)] + [str(o) for o in objs], cwd=LEAN)
        tmp.rename(out)
    return out


# ------------------------------------------------------------------------------ sharded runs
DRV_ENV = {"ASAN_OPTIONS": "detect_leaks=0:allocator_may_return_null=1:max_allocation_size_mb=256:abort_on_error=1:handle_abort=1",
           "UBSAN_OPTIONS": "halt_on_error=1:abort_on_error=1:print_stacktrace=0"}


def workdir(ctx, name):
    d = IOB / ("%s-%s-%d" % (name, ctx.tier, ctx.seed))
    d.mkdir(parents=True, exist_ok=True)
    return d


def run_shards(exe, argv_of_shard, nshards, out_of_shard, seed, timeout=3600, extra_env=None):
    """Run `exe argv_of_shard(i)` for i in range(nshards) in parallel; stdout of shard i -> out_of_shard(i)."""
    env = dict(os.environ)
    env.update(DRV_ENV)
    env["VERIF_SEED"] = str(seed)
    if extra_env:
        env.update(extra_env)

    def one(i):
        out = out_of_shard(i)
        env_i = dict(env)
        env_i["IO_ERRFILE"] = str(Path(out).with_suffix(".err"))
        with open(out, "w") as f:
            p = subprocess.run([str(exe)] + [str(a) for a in argv_of_shard(i)], stdout=f, stderr=subprocess.PIPE,
                               env=env_i, timeout=timeout, text=True, errors="replace")
        if p.returncode != 0:
            raise RuntimeError("%s shard %d exited %d: %s" % (Path(exe).name, i, p.returncode, p.stderr[-2000:]))
        return out
    with ThreadPoolExecutor(min(nshards, NPROC)) as ex:
        return list(ex.map(one, range(nshards)))


def run_judge(judge, args, timeout=7200):
    p = subprocess.run([str(judge)] + [str(a) for a in args], stdout=subprocess.PIPE, stderr=subprocess.PIPE, text=True,
                       errors="replace", timeout=timeout)
    if p.returncode != 0:
        raise RuntimeError("judge %s failed (%d): %s" % (args[0], p.returncode, p.stderr[-2000:]))
    return parse_judge(p.stdout)


def parse_judge(txt):
    fails, stats, samples = [], {}, []
    for l in txt.splitlines():
        if l.startswith("FAIL "):
            head, _, hexpart = l.partition(" | hex=")
            t = head.split(" ", 3)
            what_detail = t[3] if len(t) > 3 else ""
            what, _, detail = what_detail.partition(" | ")
            fails.append({"id": t[1], "what": t[2] if len(t) > 2 else "?", "detail": (what + " " + detail).strip() if False else detail or what,
                          "kind": t[2] if len(t) > 2 else "?", "hex": hexpart.strip()})
        elif l.startswith("STAT "):
            k, _, v = l[5:].rpartition(" ")
            try:
                stats[k] = stats.get(k, 0) + int(v)
            except ValueError:
                pass
        elif l.startswith("SAMPLE "):
            samples.append(l[7:])
    return {"fails": fails, "stats": stats, "samples": samples}


def merge_judge(results):
    out = {"fails": [], "stats": {}, "samples": []}
    for r in results:
        out["fails"] += r["fails"]
        out["samples"] += r["samples"]
        for k, v in r["stats"].items():
            out["stats"][k] = out["stats"].get(k, 0) + v
    return out


def judge_shards(judge, args_of_shard, nshards):
    with ThreadPoolExecutor(min(nshards, NPROC)) as ex:
        return merge_judge(list(ex.map(lambda i: run_judge(judge, args_of_shard(i)), range(nshards))))

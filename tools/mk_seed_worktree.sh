#!/bin/bash
# usage: tools/mk_seed_worktree.sh <Cxx> [suffix]  — scratch worktree of /repo HEAD with its own build (bld/) and an empty MUT/
set -eu
id=$1; sfx=${2:-}; W=/var/tmp/ovm-mut-$id$sfx
git -C /repo worktree add --detach "$W" HEAD >/dev/null 2>&1
mkdir -p "$W/MUT"
cmake -G Ninja -S "$W" -B "$W/bld" -DCMAKE_BUILD_TYPE=RelWithDebInfo -DOVM_ENABLE_UNITTESTS=ON -DOVM_ENABLE_APPLICATIONS=OFF \
  -DOVM_ENABLE_EXAMPLES=OFF -DOVM_BUILD_DOCUMENTATION=OFF -DFETCHCONTENT_SOURCE_DIR_GOOGLETEST=/usr/src/googletest \
  -DFETCHCONTENT_FULLY_DISCONNECTED=ON -DCMAKE_CXX_COMPILER_LAUNCHER=ccache >/dev/null
CCACHE_DIR=/verif/.cache/ccache cmake --build "$W/bld" -j8 >/dev/null
echo "$W ready: $(ctest --test-dir "$W/bld" -j1 2>/dev/null | grep 'tests passed')"

#!/usr/bin/env python3
"""T1: translate the handle arithmetic of /repo's *current* sources into Lean definitions.

Sources: Core/Handles.hh (SubHandleT::subidx/full/opp, SuperHandleT::half,
HandleBase::is_valid, the four *HandleCorrection::correctValue) and the static conversion
functions of Core/TopologyKernel.hh.  Method: clang++-14 JSON AST of each function, walk of
the returned / assigned expression over a small grammar; anything outside the grammar raises
(the check fails closed).  Handles are valid (idx >= 0) at every translated site (the C++
asserts it), so `int` expressions are emitted over Nat: `/` and `%` on non-negative ints are
Nat division / modulo, `&` `^` are Nat bit operations.

Output: lean/OVM/Gen/Handles.lean
"""
import json
import subprocess
import sys
from pathlib import Path

sys.path.insert(0, str(Path(__file__).resolve().parent))
from vlib import build  # noqa: E402
from vlib.common import BUILD, LEAN, REPO, write_if_changed  # noqa: E402


class TranslateError(Exception):
    pass


def ast_docs(filter_name):
    probe = BUILD / "t1" / "probe.cc"
    probe.parent.mkdir(parents=True, exist_ok=True)
    probe.write_text("#include <OpenVolumeMesh/Core/TopologyKernel.hh>\n")
    cmd = ["clang++-14", "-std=gnu++17", "-fsyntax-only", "-DNDEBUG"] + build.include_flags() + [
        "-Xclang", "-ast-dump=json", "-Xclang", "-ast-dump-filter=" + filter_name, str(probe)]
    p = subprocess.run(cmd, stdout=subprocess.PIPE, stderr=subprocess.PIPE, text=True)
    if p.returncode != 0:
        raise TranslateError("clang failed: " + p.stderr[-2000:])
    s = p.stdout
    dec = json.JSONDecoder()
    i, docs = 0, []
    while i < len(s):
        while i < len(s) and s[i].isspace():
            i += 1
        if i >= len(s):
            break
        d, i = dec.raw_decode(s, i)
        docs.append(d)
    return docs


PASS = {"ParenExpr", "ImplicitCastExpr", "CStyleCastExpr", "CXXStaticCastExpr", "CXXFunctionalCastExpr",
        "CXXUnresolvedConstructExpr", "CXXConstructExpr", "InitListExpr", "CXXTemporaryObjectExpr",
        "MaterializeTemporaryExpr", "CXXBindTemporaryExpr", "ExprWithCleanups", "ConstantExpr"}

BINOPS = {"+": "+", "-": "-", "*": "*", "/": "/", "%": "%", "&": "&&&", "^": "^^^", "|": "|||"}
CMPOPS = {"==": "==", ">": ">", "<": "<", ">=": "≥", "<=": "≤", "!=": "!="}


def children(n):
    return [c for c in n.get("inner", []) if c.get("kind") not in ("FullComment",)]


def expr(n, env):
    """Lean Nat expression text for a C++ int expression."""
    k = n.get("kind")
    if k == "IntegerLiteral":
        return str(int(n["value"]))
    if k in PASS:
        cs = children(n)
        if len(cs) != 1:
            raise TranslateError("cast/construct with %d operands" % len(cs))
        return expr(cs[0], env)
    if k == "BinaryOperator":
        op = n["opcode"]
        a, b = children(n)
        if op in BINOPS:
            return "(%s %s %s)" % (expr(a, env), BINOPS[op], expr(b, env))
        if op in CMPOPS:
            return "(decide (%s %s %s))" % (expr(a, env), CMPOPS[op], expr(b, env))
        raise TranslateError("unsupported binary operator " + op)
    if k == "ConditionalOperator":
        c, a, b = children(n)
        return "(if %s then %s else %s)" % (cond(c, env), expr(a, env), expr(b, env))
    if k in ("CallExpr", "CXXMemberCallExpr"):
        cs = children(n)
        callee = cs[0]
        name = callee.get("member") or callee.get("name") or (callee.get("referencedMemberDecl") and "")
        if callee.get("kind") in ("MemberExpr", "CXXDependentScopeMemberExpr", "UnresolvedMemberExpr"):
            name = callee.get("member") or callee.get("name")
            base = children(callee)
            if name == "idx" and len(cs) == 1:
                return obj(base[0], env) if base else env["this"]
        raise TranslateError("unsupported call " + json.dumps(callee)[:200])
    if k == "DeclRefExpr":
        nm = n["referencedDecl"]["name"]
        if nm in env:
            return env[nm]
        raise TranslateError("unknown variable " + nm)
    if k == "MemberExpr":
        if n.get("name") == "idx_":
            base = children(n)
            return obj(base[0], env) if base else env["this"]
    raise TranslateError("unsupported expression kind %s" % k)


def obj(n, env):
    """the handle object whose idx() is taken: `this` or a parameter"""
    k = n.get("kind")
    if k == "CXXThisExpr":
        return env["this"]
    if k in PASS or k == "UnaryOperator":
        return obj(children(n)[0], env)
    if k == "DeclRefExpr":
        nm = n["referencedDecl"]["name"]
        if nm in env:
            return env[nm]
    if k == "MemberExpr" and n.get("name") in env:
        return env[n["name"]]
    raise TranslateError("unsupported object expression " + str(k))


def cond(n, env):
    k = n.get("kind")
    if k in PASS:
        return cond(children(n)[0], env)
    if k == "DeclRefExpr":           # `_subIdx ? 1 : 0`
        return "(%s != 0)" % expr(n, env)
    if k == "BinaryOperator" and n["opcode"] in CMPOPS:
        a, b = children(n)
        return "(%s %s %s)" % (expr(a, env), CMPOPS[n["opcode"]], expr(b, env))
    if k == "CXXOperatorCallExpr":    # `_h > thld_` via HandleBase::operator>
        cs = children(n)
        opname = cs[0]
        nm = None
        for c in [opname] + children(opname):
            if c.get("referencedDecl"):
                nm = c["referencedDecl"]["name"]
        ops = {"operator>": ">", "operator<": "<", "operator==": "==", "operator!=": "!="}
        if nm in ops:
            return "(%s %s %s)" % (obj(cs[1], env), ops[nm], obj(cs[2], env))
    raise TranslateError("unsupported condition " + str(k))


def find_method(docs, name, parent_hint=None, nparams=None):
    """first declaration named `name` that has a body"""
    for d in docs:
        if d.get("name") != name:
            continue
        body = [c for c in children(d) if c.get("kind") == "CompoundStmt"]
        if not body:
            continue
        params = [c for c in children(d) if c.get("kind") == "ParmVarDecl"]
        if nparams is not None and len(params) != nparams:
            continue
        if parent_hint and parent_hint not in json.dumps(d.get("type", {})) + json.dumps(params)[:2000] + d.get("mangledName", ""):
            continue
        return d, body[0], params
    raise TranslateError("no definition of %s found" % name)


def return_expr(body):
    rets = [c for c in children(body) if c.get("kind") == "ReturnStmt"]
    if len(rets) != 1:
        raise TranslateError("expected exactly one return statement")
    return children(rets[0])[0]


def other_stmts_ok(body):
    """everything but the return must be an assert residue `(void)0` / null statement"""
    for c in children(body):
        if c.get("kind") in ("ReturnStmt", "NullStmt"):
            continue
        if c.get("kind") == "ParenExpr":
            continue
        raise TranslateError("unexpected statement %s" % c.get("kind"))


def translate():
    out = []
    # --- Handles.hh members (template bodies: dependent expressions) -----------------------
    for fn, lean, env in [("subidx", "subidx", {"this": "idx"}), ("full", "full", {"this": "idx"}), ("opp", "opp", {"this": "idx"})]:
        d, body, params = find_method(ast_docs(fn), fn, nparams=0)
        other_stmts_ok(body)
        out.append("/-- `SubHandleT::%s` (Handles.hh) -/\ndef %s (idx : Nat) : Nat := %s" % (fn, lean, expr(return_expr(body), env)))
    d, body, params = find_method(ast_docs("half"), "half", nparams=1)
    other_stmts_ok(body)
    out.append("/-- `SuperHandleT::half` (Handles.hh) -/\ndef half (idx subidx : Nat) : Nat := %s" % expr(return_expr(body), {"this": "idx", params[0]["name"]: "subidx"}))
    # --- static conversions of TopologyKernel ----------------------------------------------
    for fn in ["halfedge_handle", "halfface_handle"]:
        docs = ast_docs(fn)
        d, body, params = find_method(docs, fn, nparams=2)
        other_stmts_ok(body)
        env = {params[0]["name"]: "idx", params[1]["name"]: "subidx"}
        out.append("/-- `TopologyKernel::%s` (static) -/\ndef %s (idx subidx : Nat) : Nat := %s" % (fn, fn, expr(return_expr(body), env)))
    for fn in ["edge_handle", "face_handle", "opposite_halfedge_handle", "opposite_halfface_handle"]:
        docs = ast_docs(fn)
        # the static one takes the handle as its single parameter (the member versions take none)
        d, body, params = find_method(docs, fn, nparams=1)
        other_stmts_ok(body)
        env = {params[0]["name"]: "idx"}
        out.append("/-- `TopologyKernel::%s` (static) -/\ndef %s (idx : Nat) : Nat := %s" % (fn, fn, expr(return_expr(body), env)))
    # --- handle corrections ----------------------------------------------------------------
    docs = ast_docs("correctValue")
    seen = []
    for d in docs:
        if d.get("name") != "correctValue":
            continue
        body = [c for c in children(d) if c.get("kind") == "CompoundStmt"]
        params = [c for c in children(d) if c.get("kind") == "ParmVarDecl"]
        if not body or len(params) != 1:
            continue
        ty = params[0]["type"]["qualType"]
        stmts = children(body[0])
        if len(stmts) != 1 or stmts[0].get("kind") != "IfStmt":
            raise TranslateError("correctValue: expected a single if statement")
        c, then = children(stmts[0])[:2]
        if len(children(stmts[0])) != 2:
            raise TranslateError("correctValue: unexpected else branch")
        env = {params[0]["name"]: "h", "thld_": "thld"}
        # then-branch: `_h.idx(<expr>)`
        call = then
        while call.get("kind") in PASS or call.get("kind") == "CompoundStmt":
            call = children(call)[0]
        if call.get("kind") != "CXXMemberCallExpr":
            raise TranslateError("correctValue: then-branch is not a call")
        callee = children(call)[0]
        if callee.get("name") != "idx" or len(children(call)) != 2:
            raise TranslateError("correctValue: then-branch is not idx(expr)")
        newv = expr(children(call)[1], env)
        name = {"OpenVolumeMesh::VertexHandle &": "correctV", "OpenVolumeMesh::HalfEdgeHandle &": "correctHE",
                "OpenVolumeMesh::HalfFaceHandle &": "correctHF", "OpenVolumeMesh::CellHandle &": "correctC",
                "VertexHandle &": "correctV", "HalfEdgeHandle &": "correctHE", "HalfFaceHandle &": "correctHF",
                "CellHandle &": "correctC"}.get(ty)
        if name is None:
            raise TranslateError("correctValue: unknown handle type " + ty)
        if name in seen:
            continue
        seen.append(name)
        out.append("/-- `%s::correctValue` (Handles.hh): the shift applied to handles above a deleted slot -/\n"
                   "def %s (thld h : Nat) : Nat := if %s then %s else h" % (ty.split()[0], name, cond(c, env), newv))
    if sorted(seen) != ["correctC", "correctHE", "correctHF", "correctV"]:
        raise TranslateError("expected four correctValue definitions, found %s" % seen)
    # --- is_valid -----------------------------------------------------------------------------
    d, body, params = find_method(ast_docs("is_valid"), "is_valid", nparams=0)
    e = return_expr(body)
    while e.get("kind") in PASS:
        e = children(e)[0]
    if not (e.get("kind") == "BinaryOperator" and e["opcode"] == ">=" and children(e)[1].get("kind") == "IntegerLiteral"
            and int(children(e)[1]["value"]) == 0):
        raise TranslateError("is_valid is no longer `idx_ >= 0`")
    out.append("/-- `HandleBase::is_valid` is `idx_ >= 0`; recorded so that a change is noticed -/\ndef isValid (idx : Int) : Bool := decide (idx ≥ 0)")
    text = ("/- GENERATED by tools/t1_handles.py from /repo/src/OpenVolumeMesh/Core/{Handles.hh,TopologyKernel.hh}.\n"
            "   Do not edit: regenerated on every check run; the theorems in OVM/Props/C08.lean are\n"
            "   re-checked against whatever the sources say now. -/\nnamespace OVM.Gen.Handles\n\n"
            + "\n\n".join(out) + "\n\nend OVM.Gen.Handles\n")
    return text


def generate():
    text = translate()
    write_if_changed(LEAN / "OVM" / "Gen" / "Handles.lean", text)
    return text


if __name__ == "__main__":
    print(generate())

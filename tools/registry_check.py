"""Correspondence + oracle machinery shared by the checks of C13 (mesh copy/assignment) and C14
(property registry): builds `harness/prop_drv.cc` (ASan+UBSan+_GLIBCXX_ASSERTIONS) from /repo's
working tree and the Lean judge `lean/OVM/Registry/Driver.lean` (compiled through lake's object
facets + leanc, interpreter as fall-back), generates traces from the seed, judges them, shrinks
failures by delta debugging over op lines and assembles the evidence."""
import hashlib
import re
import shutil
import time
from collections import Counter
from pathlib import Path

from vlib import build, proof
from vlib.common import BUILD, CORPUS, LEAN, VERIF, flock, log, run, sha

WORK = BUILD / "registry"
JUDGE_MODULES = ["Driver", "World", "Registry"]

# which check owns a model/implementation divergence (XFAIL) on which operation
C13_OPS = {"copy", "assign", "new_mesh", "clear", "add_vertex", "set_vertex", "add_edge", "add_face", "add_cell",
           "delete_vertex", "delete_edge", "delete_face", "delete_cell", "collect_garbage", "deferred"}
C14_OPS = {"request", "create_shared", "create_persistent", "create_private", "get", "exists", "set_shared",
           "set_persistent", "set_name", "write", "hcopy", "hmove", "hdrop", "clear_props", "clear_all_props",
           "destroy"}
OWN_OPS = {"C13": C13_OPS, "C14": C14_OPS}


# ------------------------------------------------------------------------------------ builds
def build_judge():
    """Returns a command prefix that judges a trace file given as last argument."""
    WORK.mkdir(parents=True, exist_ok=True)
    try:
        with flock("registry-judge"):
            return _build_judge_locked()
    except Exception as e:  # fall back to the interpreter (slower, same judgement)
        log("[registry] compiled judge unavailable (%s); using `lean --run`" % str(e)[:200])
        return ["lake", "env", "lean", "--run", str(LEAN / "OVM" / "Registry" / "Driver.lean")]


def _build_judge_locked():
    with flock("lake"):
        run(["lake", "build"] + ["OVM.Registry.%s:o" % m for m in JUDGE_MODULES], cwd=LEAN, timeout=1800)
    objs = []
    for m in JUDGE_MODULES:
        cands = sorted((LEAN / ".lake" / "build" / "ir" / "OVM" / "Registry").glob(m + ".c.o*"))
        cands = [c for c in cands if c.suffix in (".export", ".o", ".noexport") and not c.name.endswith((".hash", ".trace"))]
        pick = next((c for c in cands if c.name.endswith(".export")), cands[0] if cands else None)
        if pick is None:
            raise RuntimeError("no object file for " + m)
        objs.append(pick)
    key = sha(*[o.read_bytes() for o in objs])
    exe = WORK / ("propjudge-" + key)
    if not exe.exists():
        for old in WORK.glob("propjudge-*"):
            old.unlink()
        tmp = exe.with_suffix(".tmp")
        run(["lake", "env", "leanc", "-o", str(tmp)] + [str(o) for o in objs], cwd=LEAN, timeout=600)
        tmp.rename(exe)
    return [str(exe)]




class Tools:
    def __init__(self, ctx, pid):
        self.ctx = ctx
        self.pid = pid
        self.judge = build_judge()
        self.drv = build.driver("prop_drv", flavor="asan")
        self.dir = WORK / ("%s-%d-%s" % (pid, ctx.seed, ctx.tier))
        shutil.rmtree(self.dir, ignore_errors=True)
        self.dir.mkdir(parents=True)
        self.env = {"ASAN_OPTIONS": "detect_leaks=0:abort_on_error=1", "UBSAN_OPTIONS": "print_stacktrace=0"}
        self.n = 0

    def drive(self, args, timeout=3600):
        self.n += 1
        out = self.dir / ("t%03d.trace" % self.n)
        err = self.dir / ("t%03d.err" % self.n)
        with open(out, "w") as f:
            import subprocess, os
            e = dict(os.environ)
            e.update(self.env)
            subprocess.run([str(self.drv)] + [str(a) for a in args] + ["--err", str(err)], stdout=f,
                           stderr=subprocess.DEVNULL, env=e, timeout=timeout, check=False)
        return out

    def judge_file(self, path, timeout=3600):
        p = run(self.judge + [str(path)], cwd=LEAN, timeout=timeout, check=False)
        lines = [l for l in p.stdout.splitlines() if l]
        if p.returncode != 0 or not any(l.startswith("SUMMARY") for l in lines):
            raise RuntimeError("judge failed on %s: rc=%d %s %s" % (path, p.returncode, p.stdout[-500:], p.stderr[-500:]))
        return lines

    def replay_ops(self, ops):
        f = self.dir / "shrink.ops"
        f.write_text("".join("O " + o + "\n" for o in ops))
        tr = self.drive(["--replay", f], timeout=120)
        return tr, self.judge_file(tr, timeout=120)


# ------------------------------------------------------------------------------------ judge output
LINE = re.compile(r"^(XFAIL|ORACLE|ABORT|PARSE) trace=(\S+) step=(\d+) (.*)$")


def parse_fail(l):
    m = LINE.match(l)
    if not m:
        return None
    kind, tid, step, rest = m.group(1), m.group(2), int(m.group(3)), m.group(4)
    d = {"kind": kind, "trace": tid, "step": step, "raw": l}
    if kind == "ORACLE":
        mm = re.match(r"prop=(\S+) rule=(\S+) op=(.*?) witness=(.*)$", rest)
        d.update(prop=mm.group(1), rule=mm.group(2), op=mm.group(3), detail=mm.group(4))
    elif kind == "XFAIL":
        mm = re.match(r"op=(.*?) field=(\S+) model=(.*?) impl=(.*)$", rest)
        d.update(op=mm.group(1), field=mm.group(2), detail="model=%s impl=%s" % (mm.group(3), mm.group(4)))
        d["rule"] = re.sub(r"\d+", "", d["field"])
    elif kind == "ABORT":
        mm = re.match(r"op=(.*?) reason=(.*)$", rest)
        d.update(op=mm.group(1), detail=mm.group(2), rule="abort")
    else:
        d.update(op="?", detail=rest, rule="parse")
    d["opname"] = d["op"].split(" ")[0] if d.get("op") else "?"
    return d


def relevant(pid, f):
    """Is this judge line a failure the check `pid` has to report?"""
    if f["kind"] == "ORACLE":
        return f["prop"] == pid
    if f["kind"] in ("ABORT", "PARSE"):
        return True
    return f["opname"] in OWN_OPS[pid] or f["opname"] not in (C13_OPS | C14_OPS)


def signature(pid, f, ops):
    """Stable signature matched against known_findings.json."""
    names = [o.split(" ")[0] for o in ops]
    if f["kind"] == "ORACLE":
        if f["rule"] in ("shared_implies_named", "shared_unique", "persistent_implies_shared"):
            if f["opname"] == "set_name":
                return "C14:set_name_on_shared"
            if f["opname"] in ("create_shared", "create_persistent"):
                return "C14:create_shared_empty_name"
        if f["rule"] in ("attached_size_eq_count", "assign_handle_sized") and "clear" in names:
            return "C13:clear_keeps_stale_sizes"
        return "%s:%s" % (f["prop"], f["rule"])
    if f["kind"] == "ABORT":
        if f["opname"] in ("copy", "assign"):
            if "clear" in names:
                return "C13:copy_after_clear_crash"
            if any("ovm:position" in o for o in ops) or "set_persistent" in names:
                return "C13:persistent_position_copy"
        return "%s:abort:%s" % (pid, f["opname"])
    if f["kind"] == "XFAIL":
        if f["opname"] == "set_name":
            return "C14:set_name_on_shared"
        if f["opname"] in ("create_shared", "create_persistent") and f["field"] == "result":
            return "C14:create_shared_empty_name"
        return "%s:xfail:%s:%s" % (pid, f["opname"], f["rule"])
    return "%s:parse" % pid


# ------------------------------------------------------------------------------------ traces
def split_traces(path):
    """{trace id: [op line text (without 'O ')]} and per-trace raw text."""
    ops, cur = {}, None
    with open(path) as f:
        for l in f:
            if l.startswith("T "):
                m = re.search(r"trace=(\S+)", l)
                cur = m.group(1) if m else "?"
                ops[cur] = []
            elif l.startswith("O ") and cur is not None:
                ops[cur].append(l[2:].rstrip("\n"))
    return ops


class Stats:
    def __init__(self):
        self.traces = 0
        self.steps = 0
        self.ops = Counter()
        self.results = Counter()
        self.exc_by_op = Counter()
        self.states = set()
        self.nontrivial = set()
        self.aborts = 0
        self.max_meshes = 0
        self.samples = []

    def scan(self, path, keep_sample=True):
        cur_op, dump, indump, sample = None, [], False, []
        with open(path) as f:
            for l in f:
                c = l[0]
                if indump:
                    if l == "E\n":
                        indump = False
                        txt = "".join(dump)
                        h = hashlib.sha1(txt.encode()).digest()[:10]
                        self.states.add(h)
                        nm = sum(1 for d in dump if d.startswith("m "))
                        self.max_meshes = max(self.max_meshes, nm)
                        attached = sum(1 for d in dump if d.startswith("s ") and d.split(" ")[7] == "1" and '"ovm:position"' not in d)
                        if attached >= 1 or nm >= 2:
                            self.nontrivial.add(h)
                    else:
                        dump.append(l)
                    continue
                if c == "T":
                    self.traces += 1
                    if keep_sample and len(self.samples) < 3 and sample:
                        self.samples.append(" ; ".join(sample[:14]))
                    sample = []
                elif l == "S\n":
                    indump, dump = True, []
                elif c == "O":
                    cur_op = l.split(" ")[1].strip()
                    self.ops[cur_op] += 1
                    self.steps += 1
                    sample.append(l[2:].strip())
                elif c == "R":
                    r = l[2:].strip()
                    self.results[r] += 1
                    if r.startswith("exc"):
                        self.exc_by_op[cur_op + ":" + r[4:]] += 1
                elif c == "X":
                    self.aborts += 1
        if keep_sample and len(self.samples) < 3 and sample:
            self.samples.append(" ; ".join(sample[:14]))

    def coverage(self):
        return {
            "traces": self.traces,
            "steps": self.steps,
            "evaluations": self.steps,
            "op_kind_histogram": dict(self.ops.most_common()),
            "result_histogram": dict(self.results.most_common()),
            "exception_kinds_hit": dict(self.exc_by_op.most_common()),
            "distinct_states": len(self.states),
            "distinct_nontrivial": len(self.nontrivial),
            "rule": "state = sha1 of the canonical dump after an operation; non-trivial = at least one attached "
                    "property besides \"ovm:position\" or at least two meshes alive",
            "max_meshes_alive": self.max_meshes,
            "child_aborts": self.aborts,
            "samples": self.samples,
        }


# ------------------------------------------------------------------------------------ shrinking
def ddmin(ops, fails, budget=400):
    """Classic delta debugging over op lines; `fails(list) -> bool`."""
    n = 2
    runs = 0
    while len(ops) >= 2 and runs < budget:
        chunk = max(1, len(ops) // n)
        subsets = [ops[i:i + chunk] for i in range(0, len(ops), chunk)]
        reduced = False
        for i in range(len(subsets)):
            comp = [x for j, s in enumerate(subsets) if j != i for x in s]
            runs += 1
            if comp and fails(comp):
                ops, n, reduced = comp, max(n - 1, 2), True
                break
        if not reduced:
            if n >= len(ops):
                break
            n = min(len(ops), n * 2)
    return ops


def same_failure(a, b):
    return a["kind"] == b["kind"] and a.get("prop") == b.get("prop") and a["rule"] == b["rule"]


def shrink(tools, ops, fail):
    def fails(cand):
        _, lines = tools.replay_ops(cand)
        return any(same_failure(fail, g) for g in (parse_fail(l) for l in lines) if g)
    # cut everything after the failing step first
    ops = ops[:fail["step"]] if fail["step"] <= len(ops) else ops
    if not fails(ops):
        return ops, False
    return ddmin(ops, fails), True


# ------------------------------------------------------------------------------------ the check
def report(tools, fail, ops, found_input=True, note=""):
    ctx, pid = tools.ctx, tools.pid
    minimal, replays = shrink(tools, ops, fail)
    tr, lines = tools.replay_ops(minimal)
    sig = signature(pid, fail, minimal)
    what = "%s %s `%s` on `%s` (trace %s step %d): %s" % (
        pid, {"ORACLE": "oracle", "XFAIL": "model/implementation divergence", "ABORT": "sanitizer abort / crash",
              "PARSE": "unreadable trace"}[fail["kind"]], fail["rule"], fail.get("op", "?"), fail["trace"], fail["step"],
        fail["detail"][:300])
    text = ("# property %s, seed %d, tier %s\n# %s\n# signature: %s\n# %s\n"
            "# re-run:  cd /verif && ./check %s --replay <this file>\n"
            "# minimal operation sequence (prop_drv --replay):\n" % (
                pid, ctx.seed, ctx.tier, what, sig, note or ("replays: %s" % replays), pid))
    text += "".join("O " + o + "\n" for o in minimal)
    text += "# judge output on the minimal sequence:\n" + "".join("# " + l + "\n" for l in lines if not l.startswith("OK"))
    text += "# full trace of the minimal sequence:\n" + "".join("# " + l for l in open(tr))
    name = "%s-%s.trace" % (fail["kind"].lower(), re.sub(r"[^A-Za-z0-9_]+", "_", fail["rule"]))
    p = ctx.write_replay(name, text)
    ctx.violation(p, what, found_input=found_input, sig=sig)
    return sig


def run_check(ctx, pid, theorems_min=1, gen=(), explain=None, extra_coverage=None):
    """`gen`: translator callables run by the proof stage (regenerate lean/OVM/Gen fragments from the current
    sources); `explain(res) -> [str]`: rewrites the failure list of a failed proof stage (names the theorems);
    `extra_coverage() -> dict`: merged into the evidence."""
    t0 = time.time()
    res = proof.proof_stage(ctx, pid, gen=list(gen))
    if explain is not None and not res["ok"]:
        res["failures"] = explain(res)
    t_proof = time.time() - t0
    tools = Tools(ctx, pid)
    stats = Stats()
    fails = []          # (fail dict, ops of its trace)
    judged_files = []

    def judge(path, keep=True):
        lines = tools.judge_file(path)
        stats.scan(path, keep_sample=keep)
        ops = None
        for l in lines:
            f = parse_fail(l)
            if f:
                if ops is None:
                    ops = split_traces(path)
                fails.append((f, ops.get(f["trace"], [])))
        judged_files.append(str(path))
        return lines

    # --replay FILE: only that operation sequence
    if ctx.replay:
        tr = tools.drive(["--replay", ctx.replay], timeout=300)
        lines = judge(tr)
        for l in lines:
            log("[replay] " + l)
    else:
        # 1. corpus (minimised past failures / seed sequences), replayed first
        corpus = sorted((CORPUS / pid).glob("*.trace")) if (CORPUS / pid).exists() else []
        for c in corpus:
            judge(tools.drive(["--replay", c], timeout=300), keep=False)
        # 2. generated traces
        seed = ctx.seed * 2 + (1 if pid == "C14" else 0)
        n_main = ctx.pick(220, 8000)
        n_edge = ctx.pick(80, 2000)
        n_ops = 60
        t1 = time.time()
        judge(tools.drive(["--seed", seed, "--traces", n_main, "--ops", n_ops, "--stream", "main"]))
        judge(tools.drive(["--seed", seed, "--traces", n_edge, "--ops", n_ops, "--stream", "edge"]))
        enum_info = None
        if not ctx.quick:
            et = tools.drive(["--enum", 4], timeout=7200)
            judge(et, keep=False)
            nseq = sum(1 for l in open(et) if l.startswith("Q"))
            nstep = sum(1 for l in open(et) if l.startswith("T "))
            enum_info = {"sequences_enumerated": nseq, "distinct_state_op_steps_judged": nstep,
                         "alphabet": "35 operations over one mesh (+ its copy): request/create_shared/create_persistent/get "
                                     "x {a,b} x {int,double}, create_private, request \"\", create_shared \"\", set_shared/"
                                     "set_persistent on/off, set_name a/b/\"\", hdrop last/first, clear_props, add_vertex, "
                                     "clear, copy, assign both ways, destroy; all sequences of length <= 4"}
        t_x = time.time() - t1

    mine = [(f, ops) for (f, ops) in fails if relevant(pid, f)]
    other = [f for (f, ops) in fails if not relevant(pid, f)]
    reported = {}
    searched = None
    if mine:
        # concrete failing inputs first: own oracle hits and aborts
        concrete = [(f, o) for (f, o) in mine if f["kind"] in ("ORACLE", "ABORT")]
        diverge = [(f, o) for (f, o) in mine if f["kind"] in ("XFAIL", "PARSE")]
        for f, ops in concrete:
            key = (f["kind"], f.get("prop"), f["rule"])
            if key in reported or len(reported) >= 6:
                continue
            reported[key] = report(tools, f, ops, found_input=True)
        if diverge and not concrete:
            # the correspondence broke but the property's oracle passed on these traces:
            # directed search for an input on which the property itself fails
            opn = diverge[0][0]["opname"]
            n_search = ctx.pick(2000, 20000)
            searched = {"traces": n_search, "biased_to": opn}
            before = len(fails)
            judge(tools.drive(["--seed", ctx.seed * 7919 + 13, "--traces", n_search // 2, "--ops", 60, "--stream", "main"]), keep=False)
            judge(tools.drive(["--seed", ctx.seed * 7919 + 14, "--traces", n_search // 2, "--ops", 60, "--stream", "edge"]), keep=False)
            hits = [(f, o) for (f, o) in fails[before:] if relevant(pid, f) and f["kind"] in ("ORACLE", "ABORT")]
            if hits:
                for f, ops in hits:
                    key = (f["kind"], f.get("prop"), f["rule"])
                    if key in reported or len(reported) >= 6:
                        continue
                    reported[key] = report(tools, f, ops, found_input=True)
            else:
                seen = set()
                for f, ops in diverge:
                    key = (f["kind"], f["rule"], f["opname"])
                    if key in seen or len(seen) >= 4:
                        continue
                    seen.add(key)
                    reported[key] = report(tools, f, ops, found_input=False,
                                           note="the model (lean/OVM/Registry) and the implementation disagree here; the "
                                                "property's own oracle passed on %d generated traces" % (stats.traces))
    if not res["ok"]:
        p = ctx.write_replay("obligation.txt", "proof stage of %s no longer checks:\n%s\n" % (pid, "\n".join(res["failures"])))
        ctx.violation(p, "proof obligations of %s do not check: %s" % (pid, "; ".join(res["failures"])[:300]), found_input=False)

    cov = proof.proof_coverage(res)
    cov.update(stats.coverage())
    cov.update({
        "traces_validated_against_impl": stats.traces - len({f["trace"] for f, _ in fails}),
        "failing_judge_lines": len(fails),
        "failing_lines_owned_by_other_property": len(other),
        "violation_signatures": sorted(set(reported.values())),
        "oracle_search": searched,
        "explanation": "every step of every trace: model step from the implementation's previous dump vs. the "
                       "implementation's next dump under the canonical (address-free) projection, plus the property "
                       "oracles evaluated on the implementation's dumps; judged by lean/OVM/Registry/Driver.lean",
        "judge": "compiled" if len(tools.judge) == 1 else "interpreted",
    })
    if extra_coverage is not None:
        cov.update(extra_coverage())
    if not ctx.replay:
        cov["timing_s"] = {"proof_stage": round(t_proof, 1), "generate_and_judge": round(t_x, 1)}
        if enum_info:
            cov["exhaustive_enumeration"] = enum_info
        cov["corpus_files_replayed"] = len(corpus)
    ctx.set_evidence(
        level="proof" if res["ok"] else "other", coverage=cov,
        assumptions=[
            "std::shared_ptr / std::set / std::vector behave as specified (ownership is modelled as reachability + gc)",
            "the driver's bookkeeping of which mesh a storage was created on (`own`) identifies its tracker; it is "
            "cross-checked against n_props<>() and the sizes after every topology change",
            "entity counts, erased slots and the topology digest of topology operations are taken from the implementation "
            "(C13/C14 do not specify topology, only that other meshes do not change)",
            "fast deletion is switched off on every mesh (order-preserving erase)",
        ])
    # the traces are reproducible from the seed; replays carry everything needed
    shutil.rmtree(tools.dir, ignore_errors=True)

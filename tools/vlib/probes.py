"""Known-finding probes: the exact replay of a recorded finding (harness/probes.cc) on the current tree.  A reproduced
finding is reported with its own signature, so only that input is covered by the known_findings.json entry."""
from . import build
from .common import run


def probe(ctx, pid, probe_id, sig, what):
    exe = build.driver("probes", flavor="asan")
    p = run([str(exe), probe_id], env={"ASAN_OPTIONS": "detect_leaks=0"}, check=False, timeout=120)
    out = (p.stdout or "").strip()
    reproduced = not out.startswith("NOT-REPRODUCED")
    if reproduced:
        path = ctx.write_replay("probe-%s.txt" % probe_id, "property %s, known-finding probe %s (harness/probes.cc)\n%s\n%s\n" % (pid, probe_id, what, out or p.stderr[-1500:]))
        ctx.violation(path, what, found_input=True, sig=sig)
    return {"probe_" + probe_id: out[:200]}

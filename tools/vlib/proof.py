"""The proof stage shared by every check: regenerate G, build the property's theorem file and
everything it imports, refuse sorry/axioms, audit axioms of every property theorem."""
from .build import (ALLOWED_AXIOMS, audit_axioms, forbidden_tokens, lake_build, theorems_of)
from .common import LEAN, log
import re


def import_closure(modules):
    """Lean source files (under lean/) reachable through `import OVM.*` / `import Judge.*`."""
    seen, todo = {}, list(modules)
    while todo:
        m = todo.pop()
        if m in seen:
            continue
        f = LEAN / (m.replace(".", "/") + ".lean")
        if not f.exists():
            continue
        seen[m] = f
        for im in re.findall(r"^import\s+((?:OVM|Judge)\.[\w.]+)", f.read_text(), re.M):
            todo.append(im)
    return sorted(seen.values())


def proof_stage(ctx, pid, gen=(), extra_targets=("ovmjudge",), min_theorems=1, extra_props=()):
    """`extra_props`: further modules OVM.Props.<name> whose theorems belong to this property (built and audited too)."""
    res = _proof_stage(ctx, pid, gen, extra_targets, min_theorems)
    for name in extra_props:
        r2 = _proof_stage(ctx, name, (), (), min_theorems)
        res["ok"] = res["ok"] and r2["ok"]
        res["theorems"] += r2["theorems"]
        res["axioms"].update(r2["axioms"])
        res["failures"] += r2["failures"]
        res["log"] += r2["log"]
        if "leanchecker" in r2:
            res["leanchecker"] = "ok" if res.get("leanchecker", "ok") == "ok" and r2["leanchecker"] == "ok" else "FAILED"
    return res


def _proof_stage(ctx, pid, gen=(), extra_targets=("ovmjudge",), min_theorems=1):
    """Returns dict(ok, theorems, axioms, failures, log).  Never raises for a failed proof:
    the caller turns a failure into a search for a concrete failing input."""
    res = {"ok": True, "theorems": [], "axioms": {}, "failures": [], "log": ""}
    for g in gen:
        try:
            g()
        except Exception as e:  # translator fails closed
            res["ok"] = False
            res["failures"].append("translator %s: %s" % (getattr(g, "__name__", g), e))
            return res
    module = "OVM.Props." + pid
    ok, lg = lake_build([module] + list(extra_targets))
    res["log"] = lg
    if not ok:
        res["ok"] = False
        errs = [l for l in lg.splitlines() if "error" in l][:20]
        res["failures"].append("lake build %s failed: %s" % (module, " | ".join(errs)))
        return res
    hits = forbidden_tokens(import_closure([module, "Judge.Main"]))
    if hits:
        res["ok"] = False
        res["failures"].append("forbidden tokens: " + "; ".join(hits[:10]))
    names = theorems_of(LEAN / "OVM" / "Props" / (pid + ".lean"))
    res["theorems"] = names
    if len(names) < min_theorems:
        res["ok"] = False
        res["failures"].append("no property theorems found in Props/%s.lean" % pid)
    try:
        ax = audit_axioms(module, names)
    except Exception as e:
        res["ok"] = False
        res["failures"].append(str(e)[:2000])
        return res
    res["axioms"] = ax
    if ctx.tier == "thorough":
        # independent re-check of the compiled property module by the toolchain's leanchecker (one module per call)
        from .common import run
        p = run(["lake", "env", "leanchecker", module], cwd=LEAN, check=False, timeout=3600)
        res["leanchecker"] = "ok" if p.returncode == 0 else "FAILED"
        if p.returncode != 0:
            res["ok"] = False
            res["failures"].append("leanchecker %s: %s" % (module, (p.stdout + p.stderr)[-800:]))
    for n in names:
        if n not in ax:
            res["ok"] = False
            res["failures"].append("theorem %s missing from axiom audit" % n)
        else:
            bad = [a for a in ax[n] if a not in ALLOWED_AXIOMS]
            if bad:
                res["ok"] = False
                res["failures"].append("theorem %s depends on %s" % (n, bad))
    return res


def proof_coverage(res):
    used = sorted({a for v in res["axioms"].values() for a in v})
    return {
        "obligations": len(res["theorems"]),
        "discharged": len([n for n in res["theorems"] if n in res["axioms"]]) if res["ok"] else 0,
        "checker_cmd": "lake build OVM.Props.<id> && lake env lean <#print axioms file> (Lean 4.33 kernel)",
        "trusted_base": ["Lean 4.33 kernel"] + ["axiom " + a for a in used],
        "theorems": res["theorems"],
        **({"leanchecker": res["leanchecker"]} if "leanchecker" in res else {}),
    }

"""Shared plumbing for every check: paths, subprocess helper, locks, context."""
import fcntl
import hashlib
import json
import os
import subprocess
import sys
import time
from contextlib import contextmanager
from pathlib import Path

VERIF = Path(__file__).resolve().parents[2]
REPO = Path(os.environ.get("VERIF_REPO", "/repo"))
BUILD = VERIF / ".build"
CACHE = VERIF / ".cache"
LEAN = VERIF / "lean"
HARNESS = VERIF / "harness"
EVIDENCE = VERIF / "evidence"
REPLAY = VERIF / "replay"
CORPUS = VERIF / "corpus"
NPROC = os.cpu_count() or 4

NOISE = ("Key auto_activate_base",)


def log(*a):
    print(*a, file=sys.stderr, flush=True)


def run(cmd, cwd=None, env=None, timeout=None, check=True, input=None, quiet=True):
    """Run a command, return CompletedProcess with text stdout/stderr (noise lines stripped)."""
    e = dict(os.environ)
    if env:
        e.update(env)
    p = subprocess.run(cmd, cwd=cwd, env=e, timeout=timeout, input=input,
                       stdout=subprocess.PIPE, stderr=subprocess.PIPE, text=True, errors="replace")
    p.stdout = "\n".join(l for l in p.stdout.splitlines() if not l.startswith(NOISE)) + ("\n" if p.stdout else "")
    if check and p.returncode != 0:
        raise RuntimeError("command failed (%d): %s\n--stdout--\n%s\n--stderr--\n%s" % (
            p.returncode, " ".join(map(str, cmd)), p.stdout[-4000:], p.stderr[-4000:]))
    return p


@contextmanager
def flock(name):
    BUILD.mkdir(parents=True, exist_ok=True)
    f = open(BUILD / (name + ".lock"), "w")
    try:
        fcntl.flock(f, fcntl.LOCK_EX)
        yield
    finally:
        fcntl.flock(f, fcntl.LOCK_UN)
        f.close()


def sha(*parts):
    h = hashlib.sha256()
    for p in parts:
        if isinstance(p, (bytes, bytearray)):
            h.update(p)
        else:
            h.update(str(p).encode())
        h.update(b"\0")
    return h.hexdigest()[:16]


def write_if_changed(path: Path, text: str):
    path.parent.mkdir(parents=True, exist_ok=True)
    if path.exists() and path.read_text() == text:
        return False
    path.write_text(text)
    return True


class Ctx:
    """Per-invocation context handed to tools/props/cXX.run(ctx)."""

    def __init__(self, pid, tier, seed, replay=None):
        self.pid = pid
        self.tier = tier
        self.seed = seed
        self.replay = replay
        self.t0 = time.time()
        self.violations = []        # (replay_path, what, found_input, sig)
        self.known = []             # strings printed as KNOWN-FINDING
        self.coverage = {}
        self.assumptions = []
        self.level = "other"
        self.notes = []

    @property
    def quick(self):
        return self.tier == "quick"

    def pick(self, quick, thorough):
        return quick if self.quick else thorough

    # -- reporting -------------------------------------------------------------------
    def write_replay(self, name, text):
        REPLAY.mkdir(exist_ok=True)
        p = REPLAY / ("%s-%d-%s" % (self.pid, self.seed, name))
        p.write_text(text)
        return p

    def violation(self, replay_path, what, found_input=True, sig=None):
        """sig: stable signature of the failure, matched against known_findings.json"""
        self.violations.append((str(replay_path), what, found_input, sig))

    def known_finding(self, what):
        self.known.append(what)

    def set_evidence(self, level, coverage, assumptions=()):
        self.level = level
        self.coverage.update(coverage)
        self.assumptions = list(assumptions)


def load_known_findings():
    p = VERIF / "known_findings.json"
    if not p.exists():
        return []
    return json.loads(p.read_text()).get("findings", [])

"""Build helpers: the OVM library from /repo's *current working tree* (sanitizer flavours),
harness drivers, the Lean project, and the axiom / forbidden-token audit."""
import os
import re
import shutil
from concurrent.futures import ThreadPoolExecutor
from pathlib import Path

from .common import (BUILD, CACHE, HARNESS, LEAN, NPROC, REPO, VERIF, flock, log, run, sha,
                     write_if_changed)

GUARD = "OVM_VERIF_HOOKS"

FLAVORS = {
    # NDEBUG matches the pinned RelWithDebInfo build; _GLIBCXX_ASSERTIONS turns every
    # out-of-range operator[] into a deterministic abort.  UBSan's `vptr` check is off: the
    # CRTP base detail::Tracked<T> downcasts `this` to T* inside its own constructor and
    # destructor (Tracking.hh add()/remove()), which that check reports on every mesh
    # construction although the pointer is only stored / compared, never dereferenced.
    "asan": ["-std=c++17", "-O1", "-g", "-DNDEBUG", "-D_GLIBCXX_ASSERTIONS",
             "-fsanitize=address,undefined", "-fno-sanitize=vptr", "-fno-sanitize-recover=all",
             "-fno-omit-frame-pointer"],
    "tsan": ["-std=c++17", "-O1", "-g", "-DNDEBUG", "-fsanitize=thread", "-fno-omit-frame-pointer"],
    "plain": ["-std=c++17", "-O2", "-DNDEBUG"],
}

EXPORT_HH = """#ifndef OVM_EXPORT_H
#define OVM_EXPORT_H
#define OVM_EXPORT
#define OVM_NO_EXPORT
#define CMAKE_OVM_DEPRECATED __attribute__ ((__deprecated__))
#define CMAKE_OVM_DEPRECATED_EXPORT OVM_EXPORT CMAKE_OVM_DEPRECATED
#define CMAKE_OVM_DEPRECATED_NO_EXPORT OVM_NO_EXPORT CMAKE_OVM_DEPRECATED
#endif
"""
DEPR_HH = "#pragma once\n#define  OVM_ENABLE_DEPRECATED_APIS 0\n"
VERS_HH = ("#pragma once\n#define  OPENVOLUMEMESH_VERSION \"3.4.1\"\n#define  OPENVOLUMEMESH_VERSION_MAJOR 3\n"
           "#define  OPENVOLUMEMESH_VERSION_MINOR 4\n#define  OPENVOLUMEMESH_VERSION_PATCH 1\n")


def config_dir():
    d = BUILD / "config"
    c = d / "OpenVolumeMesh" / "Config"
    write_if_changed(c / "Export.hh", EXPORT_HH)
    write_if_changed(c / "DeprecationConfig.hh", DEPR_HH)
    write_if_changed(c / "Version.hh", VERS_HH)
    return d


def include_flags():
    return ["-I" + str(REPO / "src"), "-I" + str(config_dir())]


def source_files():
    """The library's translation units, read from src/CMakeLists.txt (SOURCE_FILES)."""
    txt = (REPO / "src" / "CMakeLists.txt").read_text()
    m = re.search(r"SET\(SOURCE_FILES(.*?)\)", txt, re.S)
    files = [l.strip() for l in m.group(1).splitlines() if l.strip().endswith(".cc")]
    return [REPO / "src" / f for f in files]


def tree_hash():
    """Content hash of everything under /repo/src/OpenVolumeMesh plus the TU list."""
    items = []
    root = REPO / "src" / "OpenVolumeMesh"
    for p in sorted(root.rglob("*")):
        if p.is_file() and p.suffix in (".cc", ".hh", ".h", ".hpp", ".in"):
            items.append(str(p.relative_to(root)))
            items.append(p.read_bytes())
    items.append((REPO / "src" / "CMakeLists.txt").read_bytes())
    return sha(*items)


def _cc_env():
    (CACHE / "ccache").mkdir(parents=True, exist_ok=True)
    return {"CCACHE_DIR": str(CACHE / "ccache"), "CCACHE_BASEDIR": str(REPO),
            "CCACHE_NOHASHDIR": "1", "ASAN_OPTIONS": "detect_leaks=0"}


def _cxx():
    return ["ccache", "g++"] if shutil.which("ccache") else ["g++"]


def ovm_lib(flavor="asan"):
    """Compile libOVM for `flavor` from the current working tree; returns (lib, flags)."""
    flags = FLAVORS[flavor] + ["-D" + GUARD] + include_flags()
    th = tree_hash()
    key = sha(th, flavor, " ".join(flags))
    out = BUILD / ("ovm-%s-%s" % (flavor, key))
    lib = out / "libOVM.a"
    with flock("ovm-" + flavor):
        if lib.exists():
            return lib, flags
        # drop stale builds of this flavour (disk is limited), keeping the few most recent:
        # several trees (scratch copies via VERIF_REPO) may be in use at the same time
        olds = sorted(BUILD.glob("ovm-%s-*" % flavor), key=lambda d: d.stat().st_mtime, reverse=True)
        for old in olds[5:]:
            shutil.rmtree(old, ignore_errors=True)
        obj = out / "obj"
        obj.mkdir(parents=True, exist_ok=True)
        srcs = source_files()

        def cc(src):
            o = obj / (src.relative_to(REPO / "src").as_posix().replace("/", "_") + ".o")
            run(_cxx() + flags + ["-w", "-c", str(src), "-o", str(o)], env=_cc_env())
            return o

        log("[build] compiling %d TUs (%s) ..." % (len(srcs), flavor))
        with ThreadPoolExecutor(NPROC) as ex:
            objs = list(ex.map(cc, srcs))
        tmp = out / "libOVM.tmp.a"
        run(["ar", "rcs", str(tmp)] + [str(o) for o in objs])
        tmp.rename(lib)
        shutil.rmtree(obj, ignore_errors=True)
    return lib, flags


def driver(name, sources=None, flavor="asan", extra=(), libs=()):
    """Build harness/<name>.cc (+ extra sources) against the freshly built library."""
    lib, flags = ovm_lib(flavor)
    srcs = [HARNESS / s for s in (sources or [name + ".cc"])]
    hdrs = sorted(HARNESS.glob("*.hh"))
    key = sha(lib.parent.name, flavor, *[p.read_bytes() for p in srcs + hdrs], " ".join(extra))
    exe = BUILD / "drv" / ("%s-%s-%s" % (name, flavor, key))
    with flock("drv-" + name + flavor):
        if exe.exists():
            return exe
        exe.parent.mkdir(parents=True, exist_ok=True)
        olds = sorted(exe.parent.glob("%s-%s-*" % (name, flavor)), key=lambda d: d.stat().st_mtime, reverse=True)
        for old in olds[5:]:
            try:
                old.unlink()
            except OSError:
                pass
        log("[build] driver %s (%s)" % (name, flavor))
        tmp = exe.with_suffix(".tmp")
        run(_cxx() + flags + ["-w", "-I" + str(HARNESS)] + list(extra) + [str(s) for s in srcs]
            + [str(lib)] + list(libs) + ["-lpthread", "-o", str(tmp)], env=_cc_env())
        tmp.rename(exe)
    return exe


# ---------------------------------------------------------------------------------- Lean

def lake_build(targets=()):
    """`lake build` (library + judge).  Returns (ok, log)."""
    with flock("lake"):
        p = run(["lake", "build"] + list(targets), cwd=LEAN, check=False, timeout=3600)
    return p.returncode == 0, (p.stdout + p.stderr)


def judge_exe():
    return LEAN / ".lake" / "build" / "bin" / "ovmjudge"


FORBIDDEN = re.compile(r"\bsorry\b|\badmit\b|^\s*axiom\s|native_decide|bv_decide|implemented_by|\bunsafe\s|maxHeartbeats\s+0")


def strip_comments(src):
    """Remove Lean block comments (nested) and line comments."""
    out, i, depth, n = [], 0, 0, len(src)
    while i < n:
        if src.startswith("/-", i):
            depth += 1
            i += 2
        elif depth and src.startswith("-/", i):
            depth -= 1
            i += 2
        elif depth:
            if src[i] == "\n":
                out.append("\n")
            i += 1
        elif src.startswith("--", i):
            while i < n and src[i] != "\n":
                i += 1
        else:
            out.append(src[i])
            i += 1
    return "".join(out)


def forbidden_tokens(paths=None):
    """grep the Lean sources (comments removed) for sorry/admit/axiom/native_decide/..."""
    hits = []
    for p in (paths or sorted((LEAN / "OVM").rglob("*.lean")) + sorted((LEAN / "Judge").rglob("*.lean"))):
        for ln, line in enumerate(strip_comments(p.read_text()).splitlines(), 1):
            if FORBIDDEN.search(line):
                hits.append("%s:%d: %s" % (p.relative_to(VERIF), ln, line.strip()))
    return hits


def theorems_of(module_path: Path):
    """Names of the theorems stated in a Props file (namespaced if the file opens one)."""
    src = strip_comments(module_path.read_text())
    ns = []
    names = []
    for line in src.splitlines():
        m = re.match(r"\s*namespace\s+(\S+)", line)
        if m:
            ns.append(m.group(1))
            continue
        m = re.match(r"\s*end\s+(\S+)", line)
        if m and ns and ns[-1] == m.group(1):
            ns.pop()
            continue
        m = re.match(r"\s*(?:@\[[^\]]*\]\s*)?(?:private\s+|protected\s+)?theorem\s+(\S+)", line)
        if m:
            names.append(".".join(ns + [m.group(1)]))
    return names


ALLOWED_AXIOMS = {"propext", "Quot.sound", "Classical.choice"}


def audit_axioms(module, names):
    """`#print axioms` for every name; returns {name: [axioms]} (raises if lean fails)."""
    if not names:
        return {}
    f = BUILD / "audit" / (module.replace(".", "_") + ".lean")
    f.parent.mkdir(parents=True, exist_ok=True)
    f.write_text("import %s\n" % module + "".join("#print axioms %s\n" % n for n in names))
    p = run(["lake", "env", "lean", str(f)], cwd=LEAN, check=False, timeout=1800)
    out = p.stdout + p.stderr
    if p.returncode != 0:
        raise RuntimeError("axiom audit failed for %s:\n%s" % (module, out[-3000:]))
    res = {}
    for m in re.finditer(r"'([^']+)' (?:depends on axioms: \[([^\]]*)\]|does not depend on any axioms)", out, re.S):
        res[m.group(1)] = [a.strip() for a in (m.group(2) or "").replace("\n", " ").split(",") if a.strip()]
    return res

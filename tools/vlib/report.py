"""VIOLATION / KNOWN-FINDING lines, evidence files."""
import json
import time

from .common import EVIDENCE, load_known_findings, log


class CheckBroken(Exception):
    """A proof obligation, translator or correspondence no longer checks and no concrete
    failing input was found: reported as `VIOLATION ... no-failing-input-found`."""

    def __init__(self, what, detail=""):
        super().__init__(what)
        self.what = what
        self.detail = detail


def finish(ctx):
    known = [k for k in load_known_findings() if k.get("property") == ctx.pid and k.get("kind") == "known"]
    real = []
    seen_known = set()
    for (path, what, found, sig) in ctx.violations:
        hit = next((k for k in known if sig and k.get("signature") == sig), None)
        if hit is not None:
            if hit["id"] not in seen_known:
                seen_known.add(hit["id"])
                print("KNOWN-FINDING: property=%s %s (%s)" % (ctx.pid, hit.get("what", what), hit["id"]))
        else:
            real.append((path, what, found, sig))
    for (path, what, found, sig) in real:
        log("[violation] %s: %s" % (ctx.pid, what))
        print("VIOLATION property=%s replay=%s%s" % (ctx.pid, path, "" if found else " no-failing-input-found"))
    # the level recorded is the one claimed in MANIFEST.json (single source: tools/gen_manifest.py)
    level, cov = ctx.level, dict(ctx.coverage)
    try:
        man = json.loads((EVIDENCE.parent / "MANIFEST.json").read_text())
        c = next(c for c in man["checks"] if c["property_id"] == ctx.pid)
        level = c["level_claimed"]["category"]
        if "explanation" not in cov:
            cov["explanation"] = c.get("technique", "") + " — " + c["level_claimed"]["text"][:600]
    except Exception:
        pass
    ev = {
        "property_id": ctx.pid,
        "tier": ctx.tier,
        "seed": ctx.seed,
        "level": level,
        "coverage": cov,
        "assumptions": ctx.assumptions,
        "wall_s": round(time.time() - ctx.t0, 2),
        "violations": len(real),
        "known_findings_reported": sorted(seen_known),
    }
    EVIDENCE.mkdir(exist_ok=True)
    (EVIDENCE / (ctx.pid + ".json")).write_text(json.dumps(ev, indent=1, sort_keys=True) + "\n")
    return 1 if real else 0

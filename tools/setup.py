#!/usr/bin/env python3
"""MANIFEST.setup_cmd: build everything that can be built ahead of time, offline."""
import sys
from pathlib import Path

sys.path.insert(0, str(Path(__file__).resolve().parent))
from vlib import build  # noqa: E402
from vlib.common import log  # noqa: E402


def main():
    ok, lg = build.lake_build()
    if not ok:
        log(lg[-5000:])
        sys.exit(1)
    build.ovm_lib("asan")
    log("[setup] done")


if __name__ == "__main__":
    main()

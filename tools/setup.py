#!/usr/bin/env python3
"""MANIFEST.setup_cmd: build everything that can be built ahead of time, offline."""
import sys
from pathlib import Path

sys.path.insert(0, str(Path(__file__).resolve().parent))
from vlib import build  # noqa: E402
from vlib.common import LEAN, log  # noqa: E402


def regenerate():
    """Every generated Lean fragment (lean/OVM/Gen) from /repo's current sources: the committed
    copies are only a convenience, the checks regenerate their own fragment again on every run."""
    import importlib
    for name in ("t1_handles", "t2_hextables", "t3_tetlabels", "t4_ovmb_consts", "t5_footprint", "t6_copyfields"):
        try:
            mod = importlib.import_module(name)
            (mod.t5 if name == "t5_footprint" else mod.generate)()   # t5's generate() only analyses, t5() writes the fragment
        except Exception as e:  # the check that owns the fragment reports it (fails closed there)
            log("[setup] translator %s failed: %s" % (name, str(e)[:500]))


def prebuild():
    """compile every harness driver now, in parallel (io_drv alone takes minutes under ASan); each check would
    otherwise build its own on first use.  Failures are left to the check that needs the driver."""
    from concurrent.futures import ThreadPoolExecutor
    import ovmb_common as oc
    from props import c15

    jobs = [lambda: build.driver("kernel_drv"), lambda: build.driver("hex_drv"), lambda: build.driver("vec_drv"),
            lambda: build.driver("conc_drv", extra=("-DCONC_SNAPSHOT",)), lambda: build.driver("conc_drv", flavor="tsan"),
            lambda: build.driver("ascii_drv"), lambda: build.driver("prop_drv"), lambda: build.driver("status_drv"), lambda: build.driver("probes"), lambda: oc.driver("io_drv"), c15.driver]

    def one(j):
        try:
            j()
        except Exception as e:
            log("[setup] driver build failed: %s" % str(e)[:300])
    with ThreadPoolExecutor(len(jobs)) as ex:
        list(ex.map(one, jobs))


def main():
    regenerate()
    ok, lg = build.lake_build()
    if not ok:
        # a file outside every check's import closure may be broken; build what the checks need, target by
        # target (each check builds its own targets again and fails closed by itself)
        log(lg[-3000:])
        log("[setup] full lake build failed; building the checks' targets one by one")
        props = sorted(p.stem for p in (LEAN / "OVM" / "Props").glob("C*.lean"))
        for t in ["OVM.Props." + p for p in props] + ["ovmjudge", "tetjudge", "hexjudge", "ovmbjudge", "asciijudge", "vecjudge", "propjudge", "statusjudge"]:
            ok1, lg1 = build.lake_build([t])
            if not ok1:
                log("[setup] target %s does not build" % t)
    build.ovm_lib("asan")
    build.ovm_lib("tsan")
    prebuild()
    log("[setup] done")


if __name__ == "__main__":
    main()

"""C04, status part — StatusAttrib::garbage_collection (both overloads): status-marked deletion, the
`_preserveManifoldness` pass, remapping of the tracked handles.

proof stage   lake build OVM.Props.C04Status + the judge, forbidden-token grep over everything they
              import, #print axioms on every theorem of Props/C04Status.lean
correspondence
  traces      harness/status_drv.cc (ASan+UBSan build of /repo's current sources): poly and tet meshes
              (glued cells, isolated vertices, dangling edges / faces, duplicate edges), all four
              deletion modes x all eight bottom-up configurations, pending deferred deletions, random
              status marks on all kinds (also on already deleted entities), random tracked handles of all
              four kinds (live, removed, pending-deleted, invalid, duplicates), both overloads (vector /
              list / deque containers), both values of the manifoldness flag; before/after dumps
  judge       lean/OVM/Status/Judge.lean: (X) the Lean model `OVM.Status.statusGC` on the dumped
              before-state against the dumped after-state and the returned handles; (O) the specification
              `OVM.Status.Spec` on the implementation's output alone (renumbering read off the identity
              tokens)
An ORACLE line is a concrete failing input (replay = the setup operations of that trace up to the call,
`status_drv --replay <file>`); a model / implementation disagreement without an oracle hit is reported
as no-failing-input-found.

`run_status(ctx)` is called from tools/props/c04.py; `python3 tools/props/c04_status.py [quick|thorough] [seed]`
runs it alone.
"""
import collections
import re
import shutil
import sys
from concurrent.futures import ThreadPoolExecutor
from pathlib import Path

if __name__ == "__main__":
    sys.path.insert(0, str(Path(__file__).resolve().parents[1]))

from vlib import build, proof
from vlib.common import BUILD, CORPUS, LEAN, NPROC, log
from vlib.common import run as sh
from vlib.report import CheckBroken

PROPS = "C04Status"
JUDGE_MODULE = "OVM.Status.Judge"
JUDGE_EXE = "statusjudge"
LINE_RE = re.compile(r"^(XFAIL|ORACLE|DRIFT) trace=(\S+) step=(\d+) op=(\S+) (.*)$")
# fields of the dump comparison that belong to abs_C04 (DESIGN.md Appendix D) + the returned handles
FIELDS = {"counts", "ndel", "modes", "vdel", "edel", "fdel", "cdel", "edges.live", "faces.live", "cells.live",
          "props.v", "props.e", "props.he", "props.f", "props.hf", "props.c", "props.m", "fault",
          "tracked", "model-vs-spec"}
# compared only when model and implementation agree on which incidence kinds are enabled afterwards
# (the property does not say which bottom-up configuration the call leaves behind)
CACHE_FIELDS = {"outHes.multiset", "incHfs.multiset", "incCell"}

# (kind, traces quick, traces thorough, rounds, size)
PLANS = [
    ("poly", 144, 2400, 3, 8),
    ("tet", 48, 800, 3, 8),
    ("poly", 16, 300, 2, 16),
]


def judge_cmd():
    """The compiled judge if the lakefile has the executable, else the interpreter."""
    lakefile = (LEAN / "lakefile.toml").read_text()
    if re.search(r'name\s*=\s*"%s"' % JUDGE_EXE, lakefile):
        ok, lg = build.lake_build([JUDGE_EXE])
        exe = LEAN / ".lake" / "build" / "bin" / JUDGE_EXE
        if ok and exe.exists():
            return [str(exe)], "lean_exe " + JUDGE_EXE
        log("[c04-status] lake build %s failed, using the interpreter: %s" % (JUDGE_EXE, lg[-500:]))
    return ["lake", "env", "lean", "--run", "OVM/Status/Judge.lean"], "lake env lean --run OVM/Status/Judge.lean"


def judge_file(jcmd, path):
    j = sh(jcmd + [str(path)], cwd=LEAN, check=False, timeout=3600)
    if j.returncode != 0:
        raise RuntimeError("judge failed on %s: %s" % (path, (j.stdout + j.stderr)[-2000:]))
    return j.stdout.splitlines()


def gen_and_judge(drv, jcmd, seed, kind, traces, rounds, size, first0, workdir, tag, compiled):
    workdir.mkdir(parents=True, exist_ok=True)
    nchunks = min(NPROC, max(1, traces // (8 if compiled else 2)))
    per = (traces + nchunks - 1) // nchunks
    jobs = []
    for c in range(nchunks):
        first = c * per
        n = min(per, traces - first)
        if n > 0:
            jobs.append((first0 + first, n, workdir / ("%s-%s-%d.trace" % (tag, kind, c))))

    def one(job):
        first, n, out = job
        env = {"ASAN_OPTIONS": "detect_leaks=0:abort_on_error=1", "UBSAN_OPTIONS": "print_stacktrace=1"}
        p = sh([str(drv), "--kind", kind, "--seed", str(seed), "--first", str(first), "--traces", str(n),
                "--rounds", str(rounds), "--size", str(size), "--out", str(out)], env=env, check=False, timeout=3600)
        return out, judge_file(jcmd, out), p.stderr

    with ThreadPoolExecutor(NPROC) as ex:
        return list(ex.map(one, jobs))


def replay_prefix(tracefile, trace_no, step):
    """Header, setup operations and calls of one trace up to and including call number `step`."""
    out, cur, k = [], False, -1
    with open(tracefile) as f:
        for line in f:
            line = line.rstrip("\n")
            if line.startswith("T "):
                if cur:
                    break
                cur = ("trace=%s" % trace_no) in line.split()
                if cur:
                    out.append(line)
                continue
            if not cur:
                continue
            if line.startswith("G "):
                out.append(line)
            elif line.startswith("O "):
                k += 1
                out.append(line)
                if k >= step:
                    break
    return out


def run_status(ctx):
    """The status part of C04.  Reports violations through ctx, returns the measured coverage."""
    jcmd, jdesc = judge_cmd()
    compiled = jcmd[0] != "lake"
    res = proof.proof_stage(ctx, PROPS, extra_targets=(JUDGE_EXE if compiled else JUDGE_MODULE,))
    if res["ok"]:
        hits = build.forbidden_tokens(proof.import_closure([JUDGE_MODULE, "OVM.Props." + PROPS]))
        if hits:
            res["ok"] = False
            res["failures"].append("forbidden tokens: " + "; ".join(hits[:10]))
    drv = build.driver("status_drv", flavor="asan")
    workdir = BUILD / "work" / ("C04status-%d-%s" % (ctx.seed, ctx.tier))
    shutil.rmtree(workdir, ignore_errors=True)
    workdir.mkdir(parents=True, exist_ok=True)

    stats = collections.Counter()
    hist = collections.defaultdict(collections.Counter)
    oracle_hits, xfails, crashes, driver_bugs = [], [], [], []
    drift = collections.Counter()
    samples = []

    def absorb(tracefile, lines, stderr):
        per_step_bu = set()
        pending = []
        for l in lines:
            if l.startswith("STAT "):
                _, k, v = l.split()
                stats[k] += int(v)
            elif l.startswith("HIST "):
                parts = l.split()
                hist[parts[1]][" ".join(parts[2:-1])] += int(parts[-1])
            else:
                m = LINE_RE.match(l)
                if not m:
                    continue
                kind_, tr, step, op, rest = m.groups()
                step = int(step)
                if kind_ == "DRIFT":
                    drift[rest] += 1
                elif kind_ == "ORACLE":
                    pm = re.match(r"prop=(\S+) witness=(.*)$", rest)
                    prop, wit = pm.group(1), pm.group(2)
                    if prop == "CRASH":
                        crashes.append((tracefile, tr, step, op, wit, stderr))
                    elif prop == "DRIVER":
                        driver_bugs.append((tracefile, tr, step, wit))
                    else:
                        oracle_hits.append((tracefile, tr, step, op, prop, wit))
                else:
                    fm = re.match(r"field=(\S+) ?(.*)$", rest)
                    field, detail = fm.group(1), fm.group(2)
                    if field == "bu":
                        per_step_bu.add((tr, step))
                    pending.append((tracefile, tr, step, op, field, detail))
        for x in pending:
            field = x[4]
            if field in FIELDS or (field in CACHE_FIELDS and (x[1], x[2]) not in per_step_bu):
                xfails.append(x)
            else:
                drift["unspecified:" + field] += 1

    # corpus first: minimised past failures are replayed through the driver and judged
    corpus_dir = CORPUS / "C04"
    n_corpus = 0
    if corpus_dir.is_dir():
        for c in sorted(corpus_dir.glob("status-*.trace")):
            out = workdir / ("corpus-" + c.name)
            env = {"ASAN_OPTIONS": "detect_leaks=0:abort_on_error=1", "UBSAN_OPTIONS": "print_stacktrace=1"}
            p = sh([str(drv), "--replay", str(c), "--out", str(out)], env=env, check=False, timeout=600)
            absorb(out, judge_file(jcmd, out), p.stderr)
            n_corpus += 1

    first0 = 0
    for (kind, tq, tt, rounds, size) in PLANS:
        traces = tq if ctx.quick else tt
        for tracefile, lines, stderr in gen_and_judge(drv, jcmd, ctx.seed, kind, traces, rounds, size, first0, workdir,
                                                      "s%d" % size, compiled):
            absorb(tracefile, lines, stderr)
            if len(samples) < 2:
                tno = re.search(r"trace=(\d+)", open(tracefile).readline())
                if tno:
                    samples.append([l[:160] for l in replay_prefix(tracefile, tno.group(1), 0)[:14]])
        first0 += traces          # the three plans use disjoint trace numbers (= disjoint PRNG streams)

    if driver_bugs:
        t = driver_bugs[0]
        raise CheckBroken("status_drv broke its own contract", "%s trace=%s step=%d: %s" % t)

    # ---- verdict ---------------------------------------------------------------------------
    reported = 0
    by_sig = {}
    for h in oracle_hits:
        clause = h[5].split(" ")[0]
        by_sig.setdefault("C04:status_gc:" + clause, h)
    for sig, (tracefile, tr, step, op, prop, wit) in list(by_sig.items())[:6]:
        pre = replay_prefix(tracefile, tr, step)
        text = "\n".join(pre) + ("\n# property C04 fails on the implementation's own output of the last status_gc call above"
                                 "\n# (O status_gc <overload> <manifold> <nv> v.. <nhe> he.. <nhf> hf.. <nc> c..)\n# %s\n"
                                 "# replay: status_drv --replay <this file> --out t.trace ; %s t.trace\n" % (wit, jdesc))
        p = ctx.write_replay("status-oracle-t%s-s%d.trace" % (tr, step), text)
        ctx.violation(p, "StatusAttrib::garbage_collection: %s" % wit[:300], found_input=True, sig=sig)
        reported += 1
    for (tracefile, tr, step, op, wit, stderr) in crashes[:2]:
        pre = replay_prefix(tracefile, tr, step)
        text = "\n".join(pre) + "\n# the implementation aborted during the last operation above: %s\n# %s\n" % (wit, stderr[-1500:])
        p = ctx.write_replay("status-crash-t%s-s%d.trace" % (tr, step), text)
        ctx.violation(p, "implementation aborted in StatusAttrib::garbage_collection: %s" % wit[:200], found_input=True,
                      sig="C04:status_gc:crash")
        reported += 1
    if not reported and xfails:
        tracefile, tr, step, op, field, detail = xfails[0]
        pre = replay_prefix(tracefile, tr, step)
        text = "\n".join(pre) + ("\n# correspondence X_C04 (OVM.Status.statusGC vs. StatusAttrib::garbage_collection) no longer checks at the "
                                 "last call above: field %s\n# %s\n# (%d such disagreements; the oracle OVM.Status.Spec found no failing "
                                 "input on the implementation's output)\n" % (field, detail[:2000], len(xfails)))
        p = ctx.write_replay("status-xfail-t%s-s%d.trace" % (tr, step), text)
        ctx.violation(p, "model/implementation disagree on %s after StatusAttrib::garbage_collection" % field, found_input=False)
        reported += 1
    if not reported and not res["ok"]:
        p = ctx.write_replay("status-proof.txt", "theorems of OVM/Props/%s.lean no longer check:\n%s\n\n%s" % (
            PROPS, "\n".join(res["failures"]), res["log"][-3000:]))
        ctx.violation(p, "proof obligations of %s no longer check" % PROPS, found_input=False)

    cov = proof.proof_coverage(res)
    cov.update({
        "proof_ok": bool(res["ok"]),
        "judge": jdesc,
        "evaluations": int(stats["steps"]),
        "traces_validated_against_impl": int(stats["traces"]),
        "corpus_traces": n_corpus,
        "distinct_nontrivial": int(stats["distinct_inputs"]),
        "distinct_before_states": int(stats["distinct_before_states"]),
        "rule": "one evaluation = one StatusAttrib::garbage_collection call on a generated mesh (harness/status_drv.cc, seeded by "
                "VERIF_SEED); distinct = hash of (before-state definitions/flags/modes, marks, call arguments)",
        "calls_removing_something": int(stats["steps_removing_something"]),
        "calls_removing_part_of_the_mesh": int(stats["steps_partial_removal"]),
        "calls_with_pending_deferred_deletions": int(stats["steps_with_pending_deletions"]),
        "calls_where_manifold_pass_removes": int(stats["steps_manifold_pass_removes"]),
        "entities": {k: int(stats[k]) for k in ("entities_before", "entities_marked", "entities_pending_before",
                                                 "entities_removed", "removed_by_manifold_pass")},
        "tracked_handles": {k[8:]: int(v) for k, v in sorted(stats.items()) if k.startswith("tracked_")},
        "model_vs_spec_evaluated(dynamic)": int(stats["dyn_model_spec_evaluated"]),
        "histograms": {k: dict(v) for k, v in hist.items()},
        "model_drift(informational)": dict(drift),
        "oracle_failures": len(oracle_hits), "correspondence_failures": len(xfails), "crashes": len(crashes),
        "samples": samples,
        "explanation": "Lean theorems about the model of StatusAttrib::garbage_collection (lean/OVM/Status) + refinement check of the "
                       "model against the ASan/UBSan build of /repo's current sources + the specification OVM.Status.Spec evaluated "
                       "on the implementation's own output, identity carried by token columns",
    })
    return cov


if __name__ == "__main__":
    import json
    import os
    from vlib.common import Ctx
    tier = sys.argv[1] if len(sys.argv) > 1 else "quick"
    seed = int(sys.argv[2]) if len(sys.argv) > 2 else int(os.environ.get("VERIF_SEED", "1"))
    c = Ctx("C04", tier, seed)
    cov = run_status(c)
    for v in c.violations:
        print("VIOLATION", v)
    cov.pop("samples", None)
    print(json.dumps(cov, indent=1, sort_keys=True))
    print("wall_s", round(__import__("time").time() - c.t0, 1))

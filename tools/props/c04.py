"""C04 — garbage collection preserves the logical mesh (collect_garbage / leaving deferred mode)."""
from props.kernel_check import run_kernel
from props.c04_status import run_status


def run(ctx):
    run_kernel(ctx, "C04", [
        dict(profile="c04", kind="poly", traces=(128, 2000), ops=40, queries=0),
        dict(profile="c04", kind="tet", traces=(32, 400), ops=40, queries=0),
    ], level_when_proved="other")
    # StatusAttrib::garbage_collection (both overloads, manifoldness option, tracked handles): tools/props/c04_status.py
    ctx.coverage["status_gc"] = run_status(ctx)

"""C04 — garbage collection preserves the logical mesh (collect_garbage / leaving deferred mode)."""
from props.kernel_check import run_kernel


def run(ctx):
    run_kernel(ctx, "C04", [
        dict(profile="c04", kind="poly", traces=(128, 2000), ops=40, queries=0),
        dict(profile="c04", kind="tet", traces=(32, 400), ops=40, queries=0),
    ], level_when_proved="other")

"""C15 — tetrahedral kernel: shape invariants, vertex-order contracts, label tables, edge collapse.

proof stage   T3 (tools/t3_tetlabels.py: label tables of TetTopology.hh evaluated by the C++ compiler
              -> lean/OVM/Gen/TetLabels.lean), lake build OVM.Props.C15 + the judge, forbidden-token
              grep over everything they import, #print axioms on every theorem of Props/C15.lean
correspondence
  traces      harness/tet_drv.cc (ASan+UBSan build of /repo's current sources): tets glued along faces /
              edges / vertices through every construction path, faces and edges pre-stored in the
              opposite rotation, refused calls, deletions in all modes, GC, swaps, collapses, splits;
              after every step all vertex-order queries for all cells x halffaces x halfedges/vertices,
              TetTopology / TriangleTopology with all accessors for every constructor choice; at the
              end collapse_edge on every halfedge satisfying the link condition in all four modes
  judge       lean/OVM/Tet/Judge.lean: model step vs. next dump (X), shape oracle, every answer against
              the model and against the brute-force contract (oracle on the implementation's own
              state), every collapse against the abstract operation through vertex identity tokens
An ORACLE line is a concrete failing input (replay = the operations up to that step); a model /
implementation disagreement without an oracle hit is reported as no-failing-input-found.
"""
import collections
import re
import shutil
import sys
from concurrent.futures import ThreadPoolExecutor
from pathlib import Path

from vlib import build, proof
from vlib.common import BUILD, CORPUS, LEAN, NPROC, VERIF, log, sha
from vlib.common import run as sh

sys.path.insert(0, str(VERIF / "tools"))
import t3_tetlabels  # noqa: E402

PID = "C15"
LINE_RE = re.compile(r"^(XFAIL|ORACLE|DRIFT) trace=(\S+) step=(\d+) op=(\S+) (.*)$")
# fields of the dump comparison that C15 does not speak about: cache *order* (C09), property columns (C03)
INFORMATIONAL = re.compile(r"^(outHes\.exact|incHfs\.exact|props\.)")


def t3():
    t3_tetlabels.generate()


def judge_cmd():
    """The compiled judge if the lakefile has the `tetjudge` executable, else the interpreter."""
    lakefile = (LEAN / "lakefile.toml").read_text()
    if re.search(r'name\s*=\s*"tetjudge"', lakefile):
        ok, lg = build.lake_build(["tetjudge"])
        exe = LEAN / ".lake" / "build" / "bin" / "tetjudge"
        if ok and exe.exists():
            return [str(exe)], "lean_exe tetjudge"
        log("[c15] lake build tetjudge failed, using the interpreter: " + lg[-500:])
    return ["lake", "env", "lean", "--run", "OVM/Tet/Judge.lean"], "lake env lean --run OVM/Tet/Judge.lean"


def driver():
    inc = BUILD / "t3" / "tetlabels_names.inc"
    if not inc.exists():
        raise RuntimeError("T3 did not produce " + str(inc))
    return build.driver("tet_drv", flavor="asan", extra=("-I" + str(inc.parent), "-DT3_NAMES=" + sha(inc.read_text())))


def gen_and_judge(ctx, traces, ops, probe_cap, workdir, tag, seed):
    drv = driver()
    jcmd, _ = judge_cmd()
    workdir.mkdir(parents=True, exist_ok=True)
    nchunks = min(NPROC, max(1, traces // 2))
    per = (traces + nchunks - 1) // nchunks
    jobs = []
    for c in range(nchunks):
        first = c * per
        n = min(per, traces - first)
        if n > 0:
            jobs.append((first, n, workdir / ("%s-%d.trace" % (tag, c))))

    def one(job):
        first, n, out = job
        env = {"ASAN_OPTIONS": "detect_leaks=0:abort_on_error=1", "UBSAN_OPTIONS": "print_stacktrace=1"}
        p = sh([str(drv), "--seed", str(seed), "--first", str(first), "--traces", str(n), "--ops", str(ops),
                 "--probe-cap", str(probe_cap), "--out", str(out)], env=env, check=False, timeout=3600)
        j = sh(jcmd + [str(out)], cwd=LEAN, check=False, timeout=3600)
        if j.returncode != 0:
            raise RuntimeError("judge failed on %s: %s" % (out, (j.stdout + j.stderr)[-2000:]))
        return out, j.stdout.splitlines(), p.stderr

    with ThreadPoolExecutor(NPROC) as ex:
        return list(ex.map(one, jobs))


def judge_file(path):
    jcmd, _ = judge_cmd()
    j = sh(jcmd + [str(path)], cwd=LEAN, check=False, timeout=3600)
    if j.returncode != 0:
        raise RuntimeError("judge failed on %s: %s" % (path, (j.stdout + j.stderr)[-2000:]))
    return j.stdout.splitlines()


def replay_prefix(tracefile, trace_no, step):
    """A replayable history for `tet_drv --replay`: the I line and the operations of the trace up to
    `step`; of the probe branches only the one the failing step belongs to."""
    main, branch, cur, k = [], [], False, -1
    with open(tracefile) as f:
        for line in f:
            line = line.rstrip("\n")
            if line.startswith("T "):
                cur = ("trace=%s" % trace_no) in line.split()
                if cur:
                    main.append(line)
                continue
            if not cur:
                continue
            if line.startswith("I "):
                main.append(line)
            elif line.startswith("O"):
                k += 1
                name = line.split()[1]
                if name == "probe_mode":
                    branch = [line]
                elif name == "probe_collapse":
                    if k == step:
                        branch.append(line)
                else:
                    main.append(line)
                    branch = []
                if k >= step:
                    break
    return main + branch


def run_c15(ctx):
    res = proof.proof_stage(ctx, PID, gen=[t3], extra_targets=("OVM.Tet.Judge",))
    if res["ok"]:
        hits = build.forbidden_tokens(proof.import_closure(["OVM.Tet.Judge", "OVM.Props." + PID]))
        if hits:
            res["ok"] = False
            res["failures"].append("forbidden tokens: " + "; ".join(hits[:10]))
    workdir = BUILD / "work" / ("%s-%d-%s" % (PID, ctx.seed, ctx.tier))
    shutil.rmtree(workdir, ignore_errors=True)
    stats = collections.Counter()
    hist = collections.defaultdict(collections.Counter)
    drv_stat = collections.Counter()
    oracle_hits, xfails, crashes = [], [], []
    drift = collections.Counter()
    samples = []
    corr_broken = None

    def absorb(tracefile, lines, stderr):
        for l in lines:
            if l.startswith("STAT "):
                _, k, v = l.split()
                if k == "label_choices":
                    stats[k] = max(stats[k], int(v))
                else:
                    stats[k] += int(v)
            elif l.startswith("HIST "):
                _, what, k, v = l.split(None, 3)
                hist[what][k] += int(v)
            else:
                m = LINE_RE.match(l)
                if not m:
                    continue
                kind_, tr, step, op, rest = m.groups()
                step = int(step)
                if kind_ == "DRIFT":
                    drift[rest] += 1
                elif kind_ == "ORACLE":
                    pm = re.match(r"prop=(\S+) witness=(.*)$", rest)
                    prop, wit = pm.group(1), pm.group(2)
                    if prop == "CRASH":
                        crashes.append((tracefile, tr, step, op, wit, stderr))
                    elif prop == PID:
                        oracle_hits.append((tracefile, tr, step, op, wit))
                    else:
                        drift["oracle-of-" + prop] += 1       # bookkeeping oracles of other properties: theirs to report
                elif kind_ == "XFAIL":
                    fm = re.match(r"field=(\S+) (.*)$", rest)
                    field, detail = fm.group(1), fm.group(2)
                    if INFORMATIONAL.match(field):
                        drift["field=" + field] += 1
                    else:
                        xfails.append((tracefile, tr, step, op, field, detail))
        with open(tracefile) as f:
            for line in f:
                if line.startswith("# stat "):
                    _, _, k, v = line.split()
                    drv_stat[k] += int(v)

    have_driver = True
    try:
        driver()
    except Exception as e:  # translator / build failure: nothing can be run
        have_driver = False
        corr_broken = "driver could not be built: %s" % str(e)[-1500:]

    if have_driver:
        # corpus first
        cdir = CORPUS / PID
        drv = driver()
        for cf in sorted(cdir.glob("*.trace")) if cdir.exists() else []:
            out = workdir / ("corpus-" + cf.name)
            workdir.mkdir(parents=True, exist_ok=True)
            p = sh([str(drv), "--replay", str(cf), "--out", str(out)], env={"ASAN_OPTIONS": "detect_leaks=0:abort_on_error=1"}, check=False, timeout=600)
            absorb(out, judge_file(out), p.stderr)
            stats["corpus_traces"] += 1
        traces, ops, cap = ctx.pick((48, 22, 10), (640, 30, 40))
        for (tracefile, lines, stderr) in gen_and_judge(ctx, traces, ops, cap, workdir, "gen", ctx.seed):
            absorb(tracefile, lines, stderr)
            if not samples:
                first = open(tracefile).readline()
                tn = re.search(r"trace=(\S+)", first).group(1)
                samples.append(replay_prefix(tracefile, tn, 14)[:16])
        # the correspondence broke but no oracle fired: search further (more traces, other sub-seed)
        if xfails and not oracle_hits and not crashes:
            extra, eops, ecap = ctx.pick((96, 26, 10), (1280, 30, 40))
            for (tracefile, lines, stderr) in gen_and_judge(ctx, extra, eops, ecap, workdir, "search", ctx.seed * 7919 + 13):
                absorb(tracefile, lines, stderr)
            stats["search_traces"] += extra

    # ---- verdict ---------------------------------------------------------------------------
    reported = 0
    seen_sig = set()
    for (tracefile, tr, step, op, wit) in oracle_hits:
        sig = "%s:%s:%s" % (PID, op, re.sub(r"[0-9\[\],\- ]+", "#", wit)[:60])
        if sig in seen_sig or reported >= 3:
            continue
        seen_sig.add(sig)
        pre = replay_prefix(tracefile, tr, step)
        text = "\n".join(pre) + ("\n# property %s fails on the implementation's own state / answers after the last operation above\n# %s\n"
                                 "# replay: tet_drv --replay <this file> --out t.trace ; lake env lean --run OVM/Tet/Judge.lean t.trace\n" % (PID, wit))
        p = ctx.write_replay("oracle-t%s-s%d.trace" % (tr, step), text)
        ctx.violation(p, "%s: %s" % (op, wit[:300]), found_input=True, sig="%s:%s" % (PID, op))
        reported += 1
    for (tracefile, tr, step, op, wit, stderr) in crashes[:2]:
        pre = replay_prefix(tracefile, tr, step)
        text = "\n".join(pre) + "\n# the implementation aborted during the last operation above: %s\n# %s\n" % (wit, stderr[-1500:])
        p = ctx.write_replay("crash-t%s-s%d.trace" % (tr, step), text)
        ctx.violation(p, "implementation aborted in %s: %s" % (op, wit[:200]), found_input=True, sig="%s:crash:%s" % (PID, op))
        reported += 1
    if not reported and xfails:
        tracefile, tr, step, op, field, detail = xfails[0]
        pre = replay_prefix(tracefile, tr, step)
        text = "\n".join(pre) + ("\n# correspondence X_%s no longer checks at the last operation above: field %s\n# %s\n"
                                 "# (%d such disagreements; the property's oracles found no failing input on the implementation's states, "
                                 "%d further traces searched)\n" % (PID, field, detail[:2000], len(xfails), stats["search_traces"]))
        p = ctx.write_replay("xfail-t%s-s%d.trace" % (tr, step), text)
        ctx.violation(p, "model/implementation disagree on %s after %s" % (field, op), found_input=False)
        reported += 1
    if not reported and corr_broken:
        p = ctx.write_replay("obligation.txt", "correspondence of %s cannot be run: %s\n%s\n" % (PID, corr_broken, "\n".join(res["failures"])))
        ctx.violation(p, "correspondence of %s cannot be run" % PID, found_input=False)
        reported += 1
    if not reported and not res["ok"]:
        p = ctx.write_replay("proof.txt", "theorems of OVM/Props/%s.lean (or the regenerated label tables they are about) no longer check:\n%s\n\n%s" % (
            PID, "\n".join(res["failures"]), res["log"][-3000:]))
        ctx.violation(p, "proof obligations of %s no longer check" % PID, found_input=False)

    cov = proof.proof_coverage(res)
    _, how = judge_cmd()
    cov.update({
        "evaluations": int(stats["steps"]),
        "traces_validated_against_impl": int(stats["traces"]),
        "distinct_nontrivial": int(stats["distinct_nontrivial_states"]),
        "states": int(stats["distinct_states"]),
        "transitions": int(stats["steps"]),
        "rule": "histories from harness/tet_drv.cc (seeded by VERIF_SEED); a state is the (definitions, flags, modes) tuple "
                "after a step, hashed; non-trivial = at least one live cell",
        "queries_compared(model and brute-force contract)": int(stats["queries"]),
        "tet_topologies_constructed": int(stats["topologies"]),
        "label_choices_covered(constructor, halfface position, vertex position)": int(stats["label_choices"]),
        "collapses_judged_per_mode": dict(hist["collapse"]),
        "collapsible_halfedges_seen": int(drv_stat["collapsible_halfedges"]), "live_halfedges_at_probe": int(drv_stat["live_halfedges"]),
        "probe_states": int(drv_stat["probe_states"]), "probe_capped": int(drv_stat["probe_capped"]),
        "refused_calls": int(stats["rejected_calls"]),
        "refused_by_kind": {k[4:]: v for k, v in drv_stat.items() if k.startswith("rej:")},
        "cell_pairs_by_shared_vertices": dict(hist["glue"]),
        "op_histogram": dict(hist["op"]),
        "queries_by_kind": {k[2:]: v for k, v in drv_stat.items() if k.startswith("q_")},
        "model_drift(informational)": dict(drift),
        "oracle_failures": len(oracle_hits), "correspondence_failures": len(xfails), "crashes": len(crashes),
        "judge": how,
        "samples": samples,
        "explanation": "Lean theorems (shape preservation, vertex-order contracts for IsTet cells, label algebra by kernel "
                       "decide over the regenerated tables, abstract collapse, returned-handle arithmetic) + per-step check of "
                       "the model and of the brute-force contracts against the ASan/UBSan build of /repo's current sources",
    })
    level = "proof" if res["ok"] else "other"
    ctx.set_evidence(level, cov, assumptions=[
        "Lean 4.33 kernel; axioms as listed in trusted_base",
        "T3: the C++ compiler evaluates the constexpr label functions; tools/t3_tetlabels.py only re-formats its output",
        "the hand-written mechanism model lean/OVM/Tet mirrors TetrahedralMeshTopologyKernel.cc / TetTopology.cc; tied to the "
        "code by the correspondence run (bounded by the generator); theorems marked _partial name what is not proved",
        "harness/tet_drv.cc uses the public API only; the link condition is evaluated independently in C++ and in Lean",
    ])
    return res


def run(ctx):
    run_c15(ctx)

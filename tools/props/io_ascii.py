"""OVM-ASCII half of C06 (round trip) and C07 (reader robustness).

    run_c06(ctx) -> coverage dict        run_c07(ctx) -> coverage dict

Each does its own proof stage (lean/OVM/Props/C06Ascii.lean resp. C07Ascii.lean), builds
harness/ascii_drv.cc against the *current* tree (ASan+UBSan+_GLIBCXX_ASSERTIONS), runs it, hands the
trace to the Lean judge (lean/OVM/IO/Ascii/Driver.lean, compiled from the C that `lake build` emits,
`lake env lean --run` as a fallback) and turns every FAIL line into `ctx.violation(...)`:

  level=prop  the property's own oracle fails on the implementation's output alone
              (crash / hang / foreign exception / success with an invalid mesh / round trip through
              the implementation differs / pending deletions written)        -> found_input=True
  level=corr  model and implementation disagree while that oracle passes     -> found_input=False
              (after a search: the directed run itself is the search)

Failing texts are shrunk (line level, then token level) keeping the failure signature; the replay
file holds the exact text (escaped and hex), the reader configuration, observed and expected result.
"""
import os
import re
import shutil
import subprocess
import time
from concurrent.futures import ThreadPoolExecutor
from pathlib import Path

from vlib import build, proof
from vlib.common import BUILD, CORPUS, LEAN, NPROC, REPO, VERIF, flock, log, run, sha

WORK = BUILD / "ascii"
ENV = {
    # handle_abort: a stack for _GLIBCXX_ASSERTIONS aborts; allocator_may_return_null + max_allocation_size:
    # declared sizes that cannot be allocated end the child cleanly (ASan's operator new cannot throw)
    "ASAN_OPTIONS": "detect_leaks=0:handle_abort=1:allocator_may_return_null=1:max_allocation_size_mb=1024",
    "UBSAN_OPTIONS": "print_stacktrace=1",
}
MODULES = ["Tokens", "Print", "Parse", "Driver"]


# ------------------------------------------------------------------------------------------ build

def judge_exe():
    """Compile the judge from the C files lake emitted for OVM.IO.Ascii.*; None -> use `lean --run`."""
    if re.search(r'name\s*=\s*"asciijudge"', (LEAN / "lakefile.toml").read_text()):
        ok, lg = build.lake_build(["asciijudge"])
        if not ok:
            raise RuntimeError("lake build asciijudge failed:\n" + lg[-3000:])
        return LEAN / ".lake" / "build" / "bin" / "asciijudge"
    ok, lg = build.lake_build(["OVM.IO.Ascii.Driver"])
    if not ok:
        raise RuntimeError("lake build OVM.IO.Ascii.Driver failed:\n" + lg[-3000:])
    ir = LEAN / ".lake" / "build" / "ir" / "OVM" / "IO" / "Ascii"
    cs = [ir / (m + ".c") for m in MODULES]
    if not all(c.exists() for c in cs) or not shutil.which("leanc"):
        return None
    key = sha(*[c.read_bytes() for c in cs])
    out = WORK / "bin"
    exe = out / ("ascii_judge-" + key)
    with flock("ascii-judge"):
        if exe.exists():
            return exe
        out.mkdir(parents=True, exist_ok=True)
        for old in out.glob("ascii_judge-*"):
            old.unlink()
        objs = []
        try:
            for c in cs:
                o = out / (c.stem + "-" + key + ".o")
                run(["leanc", "-O2", "-c", str(c), "-o", str(o)])
                objs.append(o)
            tmp = out / ("tmp-" + key)
            run(["leanc", "-o", str(tmp)] + [str(o) for o in objs])
            tmp.rename(exe)
        except Exception as e:  # fall back to the interpreter
            log("[ascii] leanc failed (%s); using lean --run" % str(e)[:200])
            return None
        finally:
            for o in objs:
                if o.exists():
                    o.unlink()
    return exe


def run_judge(exe, trace):
    if exe is not None:
        p = run([str(exe), str(trace)], check=False, timeout=3600)
    else:
        p = run(["lake", "env", "lean", "--run", "OVM/IO/Ascii/Driver.lean", str(trace)], cwd=LEAN, check=False, timeout=7200)
    if p.returncode not in (0, 1) or "SUMMARY" not in p.stdout:
        raise RuntimeError("ascii judge failed on %s:\n%s\n%s" % (trace, p.stdout[-2000:], p.stderr[-2000:]))
    return p.stdout.splitlines()


def source_type_names():
    """typeName<> / entityTypeName<> strings registered in TypeNames.cc (regex; fails closed)."""
    txt = (REPO / "src" / "OpenVolumeMesh" / "FileManager" / "TypeNames.cc").read_text()
    ty = re.findall(r"[tT]ypeName<[^;{]*>\s*\(\)\s*\{\s*return\s*\"([^\"]+)\"", txt)
    ents = [t for t in ty if t.endswith("Prop")]
    tys = [t for t in ty if not t.endswith("Prop")]
    if len(tys) < 10 or len(ents) != 7:
        raise RuntimeError("cannot read the type name table of TypeNames.cc")
    return sorted(tys), sorted(ents)


# ------------------------------------------------------------------------------------------ traces

class Rec:
    """one judged read with what is needed to replay it"""
    __slots__ = ("case", "mut", "read", "text", "kind", "chk", "bu", "rline", "mutkind", "casehdr")


def index_trace(path):
    """(case, mut, read#) -> Rec, for the FAIL lines' lookups"""
    idx = {}
    case = casehdr = None
    text = b""
    mut = "-"
    mutkind = ""
    readno = 0
    cur = None
    with open(path, "r", errors="replace") as f:
        for l in f:
            l = l.rstrip("\n")
            if l.startswith("CASE "):
                p = l.split(" ")
                case, casehdr, mut, mutkind, readno, text = p[1], l, "-", "", 0, b""
            elif l.startswith("TEXT"):
                p = l.split(" ")
                text = bytes.fromhex(p[1]) if len(p) > 1 else b""
                mut = "-"
                idx[(case, "-", 0)] = _rec(case, "-", 0, text, "", 0, 0, "", "", casehdr)
            elif l.startswith("MUT "):
                p = l.split(" ")
                mut, mutkind = p[1], p[2]
                text = bytes.fromhex(p[3]) if len(p) > 3 else b""
            elif l.startswith("READ "):
                readno += 1
                kv = dict(x.split("=") for x in l.split(" ")[1:])
                cur = _rec(case, mut, readno, text, kv["kind"], int(kv["chk"]), int(kv["bu"]), "", mutkind, casehdr)
                idx[(case, mut, readno)] = cur
            elif (l.startswith("R ") or l.startswith("X ")) and cur is not None:
                cur.rline = l
    return idx


def _rec(case, mut, read, text, kind, chk, bu, rline, mutkind, casehdr):
    r = Rec()
    r.case, r.mut, r.read, r.text, r.kind, r.chk, r.bu, r.rline, r.mutkind, r.casehdr = case, mut, read, text, kind, chk, bu, rline, mutkind, casehdr
    return r


JLINE = re.compile(r"^J (\S+) (\S+) (\d+) (OK|FAIL|SKIP) level=(\S+) sig=(\S+) kind=(\S*) chk=(\S+) bu=(\S+) mut=(\S*) :: ?(.*)$")


def parse_judge(lines):
    fails, summary, n_ok, n_skip = [], "", 0, 0
    for l in lines:
        m = JLINE.match(l)
        if m:
            if m.group(4) == "FAIL":
                fails.append(m.groups())
            elif m.group(4) == "OK":
                n_ok += 1
            else:
                n_skip += 1
        elif l.startswith("SUMMARY"):
            summary = l
    return fails, summary, n_ok, n_skip


def drv_parallel(exe, mode, seed, n, out_prefix, extra=(), timeout_ms=5000, chunk=None):
    """run the driver over cases 0..n-1 split into ranges; returns the list of trace files"""
    WORK.mkdir(parents=True, exist_ok=True)
    tmp = WORK / "tmp"
    tmp.mkdir(exist_ok=True)
    jobs = max(1, min(NPROC, 8))
    chunk = chunk or max(1, (n + jobs - 1) // jobs)
    ranges = [(a, min(chunk, n - a)) for a in range(0, n, chunk)]

    def one(r):
        out = Path("%s-%d.trace" % (out_prefix, r[0]))
        cmd = [str(exe), "--mode", mode, "--seed", str(seed), "--first", str(r[0]), "--n", str(r[1]),
               "--out", str(out), "--tmp", str(tmp), "--timeout", str(timeout_ms)] + list(extra)
        p = run(cmd, env=ENV, check=False, timeout=7200)
        if p.returncode != 0:
            raise RuntimeError("ascii_drv failed: %s\n%s" % (" ".join(cmd), p.stderr[-2000:]))
        return out

    with ThreadPoolExecutor(jobs) as ex:
        return list(ex.map(one, ranges))


def read_text_all(exe, text, tag, timeout_ms=5000):
    """one text under all 12 reader configurations -> trace path"""
    WORK.mkdir(parents=True, exist_ok=True)
    (WORK / "tmp").mkdir(exist_ok=True)
    inp = WORK / ("in-%s-%d.ovm" % (tag, os.getpid()))
    out = WORK / ("in-%s-%d.trace" % (tag, os.getpid()))
    inp.write_bytes(text)
    run([str(exe), "--mode", "readall", "--in", str(inp), "--out", str(out), "--tmp", str(WORK / "tmp"),
         "--timeout", str(timeout_ms)], env=ENV, timeout=600)
    inp.unlink()
    return out


def read_text_one(exe, text, kind, chk, bu, tag, timeout_ms=5000):
    WORK.mkdir(parents=True, exist_ok=True)
    (WORK / "tmp").mkdir(exist_ok=True)
    inp = WORK / ("one-%s-%d.ovm" % (tag, os.getpid()))
    out = WORK / ("one-%s-%d.trace" % (tag, os.getpid()))
    inp.write_bytes(text)
    run([str(exe), "--mode", "read", "--in", str(inp), "--kind", kind, "--chk", str(chk), "--bu", str(bu),
         "--out", str(out), "--tmp", str(WORK / "tmp"), "--timeout", str(timeout_ms)], env=ENV, timeout=600)
    inp.unlink()
    return out


# ------------------------------------------------------------------------------------------ shrinking

def shrink(drv, jexe, rec, sig, budget_s=60):
    """delta debugging on the text: drop line ranges, then tokens, keeping `sig` for the same reader config"""
    t0 = time.time()
    tests = [0]

    def fails(text):
        if time.time() - t0 > budget_s:
            return False
        tests[0] += 1
        tr = read_text_one(drv, text, rec.kind, rec.chk, rec.bu, "shrink")
        fl, _, _, _ = parse_judge(run_judge(jexe, tr))
        return any(f[5] == sig for f in fl)

    def ddmin(items, join):
        n = 2
        while len(items) >= 2 and time.time() - t0 <= budget_s:
            size = max(1, len(items) // n)
            reduced = False
            for i in range(0, len(items), size):
                cand = items[:i] + items[i + size:]
                if cand and fails(join(cand)):
                    items, n, reduced = cand, max(n - 1, 2), True
                    break
            if not reduced:
                if size == 1:
                    break
                n = min(len(items), n * 2)
        return items

    text = rec.text
    if not fails(text):
        return text, tests[0], False        # not reproducible in isolation (kept as is)
    lines = text.split(b"\n")
    lines = ddmin(lines, lambda ls: b"\n".join(ls))
    text = b"\n".join(lines)
    # token level inside the remaining lines
    toks = []
    for li, l in enumerate(lines):
        for t in l.split(b" "):
            toks.append((li, t))

    def join_toks(ts):
        out = {}
        for li, t in ts:
            out.setdefault(li, []).append(t)
        return b"\n".join(b" ".join(out.get(li, [])) for li in range(len(lines)))

    if len(toks) <= 400:
        toks = ddmin(toks, join_toks)
        cand = join_toks(toks)
        if fails(cand):
            text = cand
    return text, tests[0], True


def esc(b):
    return b.decode("latin1").encode("unicode_escape").decode("ascii").replace("\\n", "\\n\n")


def replay_text(pid, rec, fail, text, shrunk_info, drv):
    (case, mut, read, _v, level, sig, kind, chk, bu, mk, detail) = fail
    lines = [
        "property: %s (OVM-ASCII half)   level=%s   signature=%s" % (pid, level, sig),
        "generated by: VERIF_SEED-derived case %s (%s)%s" % (case, rec.casehdr if rec else "?", (", mutant %s kind=%s" % (mut, mk)) if mut != "-" else ""),
        "reader: FileManager::readStream into %s mesh, _topologyCheck=%s, _computeBottomUpIncidences=%s" % (kind, chk, bu),
        "observed (implementation): %s" % (rec.rline if rec else ""),
        "judge: %s" % detail,
        "shrinking: %s" % shrunk_info,
        "replay: write the bytes below to f.ovm;  ASAN_OPTIONS=%s %s --mode read --in f.ovm --kind %s --chk %s --bu %s --nofork 1"
        % (ENV["ASAN_OPTIONS"], drv, kind or "poly", chk if chk != "-" else 0, bu if bu != "-" else 0),
        "--- text (escaped, one line per line) ---",
        esc(text),
        "--- text (hex) ---",
        text.hex(),
        "",
    ]
    return "\n".join(lines)


def report(ctx, pid, fails, idx, drv, jexe, tag, do_shrink=True):
    """one violation per distinct signature (first occurrence), property-level ones first"""
    seen = {}
    for f in sorted(fails, key=lambda f: 0 if f[4] == "prop" else 1):
        sig = f[5]
        if sig in seen:
            seen[sig] += 1
            continue
        seen[sig] = 1
        rec = idx.get((f[0], f[1], int(f[2])))
        text = rec.text if rec else b""
        if "timeout" in sig and rec is not None and rec.kind:
            # a watchdog hit in the parallel run may be load: repeat alone with a 60 s watchdog
            try:
                tr = read_text_one(drv, text, rec.kind, rec.chk, rec.bu, "confirm", timeout_ms=60000)
                fl, _, _, _ = parse_judge(run_judge(jexe, tr))
                if not any(g[5] == sig for g in fl):
                    log("[ascii] watchdog hit not confirmed in isolation: %s" % sig)
                    del seen[sig]
                    continue
            except Exception:
                pass
        info = "not attempted"
        if do_shrink and rec is not None and rec.kind and f[1] != "-":
            try:
                text, n, ok = shrink(drv, jexe, rec, sig)
                info = "%d -> %d bytes in %d evaluations%s" % (len(rec.text), len(text), n, "" if ok else " (failure did not reproduce in isolation; original text kept)")
            except Exception as e:  # shrinking is best effort
                info = "failed: %s" % str(e)[:200]
        name = "ascii-%s-%s.txt" % (tag, re.sub(r"[^A-Za-z0-9_.-]+", "_", sig)[:80])
        p = ctx.write_replay(name, replay_text(pid, rec, f, text, info, drv))
        Path(str(p)[:-4] + ".ovm").write_bytes(text)       # the exact bytes next to the description
        what = "%s ASCII %s: %s [%s]" % (pid, f[4], sig, f[10][:160])
        ctx.violation(p, what, found_input=(f[4] == "prop"), sig="ascii:" + sig)
    return seen


def proof_part(ctx, pid):
    res = proof.proof_stage(ctx, pid + "Ascii", extra_targets=("OVM.IO.Ascii.Driver",))
    if not res["ok"]:
        p = ctx.write_replay("ascii-proof.txt", "obligation: lake build / audit of OVM.Props.%sAscii no longer checks\n\n%s\n"
                             % (pid, "\n".join(res["failures"])))
        # the directed run below is the search for a concrete input; this line stays if none is found
        ctx.violation(p, "%s ASCII: proof obligation fails: %s" % (pid, "; ".join(res["failures"])[:300]), found_input=False,
                      sig="ascii:proof")
    return res


def type_table_check(ctx, pid, drv):
    tys, ents = source_type_names()
    out = run([str(drv), "--mode", "types"], env=ENV).stdout.split("\n")
    d_tys = sorted(l for l in out if l and not l.startswith("ent "))
    d_ents = sorted(l[4:] for l in out if l.startswith("ent "))
    if tys != d_tys or ents != d_ents:
        p = ctx.write_replay("ascii-typenames.txt", "TypeNames.cc registers %s / %s\nharness + model cover %s / %s\n" % (tys, ents, d_tys, d_ents))
        ctx.violation(p, "%s ASCII: the typeName table of TypeNames.cc differs from the one the model covers" % pid, found_input=False, sig="ascii:typenames")
    return tys, ents


def combos_covered(trace_files):
    """(entity, type) pairs that occur as a property in some source mesh"""
    seen = set()
    for t in trace_files:
        insrc = False
        with open(t, "r", errors="replace") as f:
            for l in f:
                if l.startswith("SRC"):
                    insrc = True
                elif l.startswith("ENDSRC"):
                    insrc = False
                elif insrc and l.startswith("p "):
                    p = l.split(" ", 4)
                    seen.add((p[1], p[2]))
    return seen


def hist(trace_files, prefix, field):
    h = {}
    for t in trace_files:
        with open(t, "r", errors="replace") as f:
            for l in f:
                if l.startswith(prefix):
                    p = l.split(" ")
                    k = p[field].strip() if field < len(p) else "?"
                    h[k] = h.get(k, 0) + 1
    return h


# ------------------------------------------------------------------------------------------ C06

def run_c06(ctx):
    t0 = time.time()
    res = proof_part(ctx, "C06")
    drv = build.driver("ascii_drv", flavor="asan")
    jexe = judge_exe()
    tys, ents = type_table_check(ctx, "C06", drv)
    n = ctx.pick(60, 2000)
    npend = ctx.pick(12, 300)
    WORK.mkdir(parents=True, exist_ok=True)
    traces = drv_parallel(drv, "rt", ctx.seed, n, WORK / ("c06-rt-%d" % ctx.seed))
    ptraces = drv_parallel(drv, "pending", ctx.seed, npend, WORK / ("c06-pend-%d" % ctx.seed))
    fails, judged, okc, skipped = [], 0, 0, 0
    idx = {}
    classes = []
    for t in traces + ptraces:
        fl, summary, n_ok, n_skip = parse_judge(run_judge(jexe, t))
        okc += n_ok
        skipped += n_skip
        judged += n_ok + n_skip + len(fl)
        classes.append(summary)
        if fl:
            idx.update(index_trace(t))
            fails += fl
    seen = report(ctx, "C06", fails, idx, drv, jexe, "rt", do_shrink=False)
    combos = combos_covered(traces)
    shapes = hist(traces, "CASE ", 3)
    kinds = hist(traces, "CASE ", 2)
    reads = hist(traces, "READ ", 1)
    cov = proof.proof_coverage(res)
    cov.update({
        "evaluations": judged,
        "meshes_round_tripped": n,
        "reads_judged_ok": okc,
        "reads_skipped": skipped,
        "failures_by_signature": seen,
        "mesh_kinds": kinds,
        "mesh_shapes": shapes,
        "reads_by_target_kind": reads,
        "pending_deletion_cases": npend,
        "typenames_in_source": len(tys),
        "type_entity_combinations_covered": len(combos),
        "type_entity_combinations_total": len(tys) * len(ents),
        "traces_validated_against_impl": n + npend,
        "rule": "per mesh: model-parse(C++ text) = source dump; model-print = C++ text byte for byte; every C++ read-back "
                "(own type x chk x bu, other types once): result class = model, dump = source dump token for token, second C++ "
                "write = first (property blocks as a multiset); isTetrahedralMesh/isHexahedralMesh = spec = model; pending "
                "deletions: refused or logical content",
        "wall_s": round(time.time() - t0, 1),
    })
    return cov


# ------------------------------------------------------------------------------------------ C07

def run_c07(ctx):
    t0 = time.time()
    res = proof_part(ctx, "C07")
    drv = build.driver("ascii_drv", flavor="asan")
    jexe = judge_exe()
    type_table_check(ctx, "C07", drv)
    WORK.mkdir(parents=True, exist_ok=True)
    fails, idx, judged, okc, skipped = [], {}, 0, 0, 0
    # 1. corpus: minimised past failures, every reader configuration
    corpus = sorted((CORPUS / "C07").glob("ascii-*.ovm")) if (CORPUS / "C07").exists() else []
    for c in corpus:
        t = read_text_all(drv, c.read_bytes(), "corpus")
        fl, _, n_ok, n_skip = parse_judge(run_judge(jexe, t))
        judged += n_ok + n_skip + len(fl)
        okc += n_ok
        if fl:
            for k, v in index_trace(t).items():
                idx[("corpus:" + c.name,) + k[1:]] = v
            fails += [("corpus:" + c.name,) + f[1:] for f in fl]
    # 2. mutants of generated files
    n = ctx.pick(60, 120)
    m = ctx.pick(200, 1500)
    traces = drv_parallel(drv, "mut", ctx.seed, n, WORK / ("c07-mut-%d" % ctx.seed), extra=["--mutants", str(m)],
                          chunk=ctx.pick(None, 4))
    summaries = []
    for t in traces:
        fl, summary, n_ok, n_skip = parse_judge(run_judge(jexe, t))
        judged += n_ok + n_skip + len(fl)
        okc += n_ok
        skipped += n_skip
        summaries.append(summary)
        if fl:
            idx.update(index_trace(t))
            fails += fl
    seen = report(ctx, "C07", fails, idx, drv, jexe, "mut", do_shrink=True)
    classes = {}
    wf = 0
    for s in summaries:
        mm = re.search(r"wf_checked=(\d+) classes=\[(.*)\]", s)
        if mm:
            wf += int(mm.group(1))
            for k, v in re.findall(r"\(([^,]+), (\d+)\)", mm.group(2)):
                classes[k] = classes.get(k, 0) + int(v)
    cov = proof.proof_coverage(res)
    cov.update({
        "evaluations": judged,
        "files_mutated": n,
        "mutants_per_file": m,
        "corpus_files": len(corpus),
        "reads_judged_ok": okc,
        "reads_skipped_gray_count": skipped,
        "success_results_checked_WF": wf,
        "result_classes_impl/model": classes,
        "mutation_kinds": hist(traces, "MUT ", 2),
        "reader_configs": hist(traces, "READ ", 1),
        "failures_by_signature": seen,
        "traces_validated_against_impl": judged,
        "rule": "per mutant: implementation result class (ok / false / allocation failure / died) = model's; a death, hang, "
                "foreign exception or success with an out-of-range handle or a wrong property size is a failing input by itself; "
                "on success dump = model file (non-canonical floating tokens not compared)",
        "wall_s": round(time.time() - t0, 1),
    })
    return cov

"""C01 — bottom-up queries are the exact inverse of the definitions."""
from props.kernel_check import run_kernel


def run(ctx):
    run_kernel(ctx, "C01", [
        dict(profile="core", kind="poly", traces=(96, 1600), ops=40, queries=34),
        dict(profile="core", kind="tet", traces=(32, 400), ops=40, queries=34),
    ], level_when_proved="other", extra_props=("C01Reach",))

"""C05 — iterators and circulators enumerate exactly the live / incident entities."""
from props.kernel_check import run_kernel
from vlib import probes


def run(ctx):
    run_kernel(ctx, "C05", [
        dict(profile="c05", kind="poly", traces=(48, 800), ops=32, queries=0),
        dict(profile="c05", kind="tet", traces=(16, 200), ops=32, queries=0),
    ], level_when_proved="other", extra_props=("C05Tet", "C05Cyc"))
    ctx.coverage.update(probes.probe(ctx, "C05", "C05M", "C05M:neighbour-once-per-parallel-edge",
                                     "vv_iter visits a neighbour once per parallel edge (a set relation enumerated with multiplicity)"))

"""C07 — readers are memory-safe and terminate on any bytes; success means a valid mesh.
OVM-ASCII half: tools/props/io_ascii.py (Props/C07Ascii.lean); OVMB half: tools/props/io_ovmb.py (Props/C07.lean)."""
from props import io_ascii, io_ovmb
from props.c06 import merge

ASSUME = [
    "hand-written reader models; unchecked kernel accesses of the C++ (NDEBUG) are ghost errors of the models; the tie to the "
    "code is the differential run under ASan/UBSan/_GLIBCXX_ASSERTIONS in forked children with a watchdog",
    "allocation failure for a declared size is modelled by an allocation limit (ASan: allocator_may_return_null, max_allocation_size)",
]


def run(ctx):
    if ctx.replay:
        cov = io_ovmb.replay(ctx, "C07")
        ctx.set_evidence(level="other", coverage=cov, assumptions=ASSUME)
        return
    a = io_ascii.run_c07(ctx)
    b = io_ovmb.run_c07(ctx)
    cov = merge(a, b)
    cov["explanation"] = ("Lean proof about the ASCII reader model (fault freedom, termination, success => valid file, every byte "
                          "string) and theorems about the OVMB reader model (termination measure, checked reads) + mutants of "
                          "generated files through both real readers under ASan/UBSan in forked children, result class / mesh / "
                          "WFMesh judged against the models by the compiled Lean judges")
    cov["samples"] = sorted(b.get("mutants_by_kind_and_result", {}).items())[:12]
    ctx.set_evidence(level="other", coverage=cov, assumptions=ASSUME)

"""C06 — native formats round-trip.  OVM-ASCII half: tools/props/io_ascii.py (Props/C06Ascii.lean);
OVMB half: tools/props/io_ovmb.py (Props/C06.lean)."""
from props import io_ascii, io_ovmb


def merge(a, b):
    cov = {"ascii": a, "ovmb": b}
    for k in ("obligations", "discharged", "evaluations", "traces_validated_against_impl"):
        cov[k] = a.get(k, 0) + b.get(k, 0)
    cov["theorems"] = a.get("theorems", []) + b.get("theorems", [])
    cov["trusted_base"] = sorted(set(a.get("trusted_base", [])) | set(b.get("trusted_base", [])))
    cov["checker_cmd"] = b.get("checker_cmd", "")
    return cov


ASSUME = [
    "the Lean models of FileManager (ASCII) and of BinaryFileWriter/Reader (OVMB) are hand-written; they are tied to the C++ by the "
    "differential run only (same meshes / bytes to both)",
    "format constants of the OVMB model are regenerated from the sources (T4); the ASCII typeName table is compared with TypeNames.cc",
    "floating point: OVMB positions/values are compared as bit patterns; ASCII tokens are compared as printed (the C++ printf/strtod "
    "pair is trusted for the value <-> token step)",
]


WS_FILE = (b'OVM ASCII\nVertices\n2\n0 0 0\n1 0 0\nEdges\n0\nFaces\n0\nPolyhedra\n0\n'
           b'VProp char "c"\n \na\nMProp int "n"\n7\n')


def probe_known_findings(ctx):
    """A5 (findings/A1-char-whitespace.md): the exact file of the finding through the real reader.  Reported with its
    own signature, so only this input is covered by the known-findings entry."""
    from vlib import build
    drv = build.driver("ascii_drv", flavor="asan")
    tr = io_ascii.read_text_one(drv, WS_FILE, "poly", 0, 1, "a5")
    txt = open(tr).read()
    ok = "\nR ok" in txt
    vals = [l for l in txt.splitlines() if l.startswith("p VProp char")]
    has_n = any(l.startswith("p MProp int") for l in txt.splitlines())
    good = ok and vals and "c32 | c97" in vals[0] and has_n
    if not good:
        p = ctx.write_replay("ascii-A5-char-whitespace.txt",
                             "property C06 (OVM-ASCII): char property [' ', 'a'] followed by MProp int \"n\" = 7\n"
                             "file (hex): %s\nobserved: %s | MProp n present: %s | result ok: %s\nrequired: c32 | c97, MProp n present\n"
                             % (WS_FILE.hex(), vals, has_n, ok))
        ctx.violation(p, "ASCII char property holding a blank does not round-trip", found_input=True, sig="A5:char-whitespace")
    return {"A5_probe_reproduced": not good}


def run(ctx):
    if ctx.replay:
        cov = io_ovmb.replay(ctx, "C06")
        ctx.set_evidence(level="other", coverage=cov, assumptions=ASSUME)
        return
    probe = probe_known_findings(ctx)
    a = io_ascii.run_c06(ctx)
    b = io_ovmb.run_c06(ctx)
    cov = merge(a, b)
    cov["explanation"] = ("Lean theorems (Props/C06Ascii.lean, Props/C06.lean: layer round trips, width selection, refusal of pending "
                          "deletions) + every generated mesh written by the real writers, decoded by the Lean models, re-encoded, read "
                          "back by the real readers in every configuration and through alternative permitted encodings; all judged "
                          "by the compiled Lean judges (asciijudge, ovmbjudge)")
    cov["samples"] = b.get("alternative_layout_samples", [])[:4]
    cov["known_finding_probes"] = probe
    ctx.set_evidence(level="other", coverage=cov, assumptions=ASSUME)

"""C06 — native formats round-trip.  OVM-ASCII half: tools/props/io_ascii.py (Props/C06Ascii.lean);
OVMB half: tools/props/io_ovmb.py (Props/C06.lean)."""
from props import io_ascii, io_ovmb


def merge(a, b):
    cov = {"ascii": a, "ovmb": b}
    for k in ("obligations", "discharged", "evaluations", "traces_validated_against_impl"):
        cov[k] = a.get(k, 0) + b.get(k, 0)
    cov["theorems"] = a.get("theorems", []) + b.get("theorems", [])
    cov["trusted_base"] = sorted(set(a.get("trusted_base", [])) | set(b.get("trusted_base", [])))
    cov["checker_cmd"] = b.get("checker_cmd", "")
    return cov


ASSUME = [
    "the Lean models of FileManager (ASCII) and of BinaryFileWriter/Reader (OVMB) are hand-written; they are tied to the C++ by the "
    "differential run only (same meshes / bytes to both)",
    "format constants of the OVMB model are regenerated from the sources (T4); the ASCII typeName table is compared with TypeNames.cc",
    "floating point: OVMB positions/values are compared as bit patterns; ASCII tokens are compared as printed (the C++ printf/strtod "
    "pair is trusted for the value <-> token step)",
]


def run(ctx):
    a = io_ascii.run_c06(ctx)
    b = io_ovmb.run_c06(ctx)
    cov = merge(a, b)
    cov["explanation"] = ("Lean theorems (Props/C06Ascii.lean, Props/C06.lean: layer round trips, width selection, refusal of pending "
                          "deletions) + every generated mesh written by the real writers, decoded by the Lean models, re-encoded, read "
                          "back by the real readers in every configuration and through alternative permitted encodings; all judged "
                          "by the compiled Lean judges (asciijudge, ovmbjudge)")
    cov["samples"] = b.get("alternative_layout_samples", [])[:4]
    ctx.set_evidence(level="other", coverage=cov, assumptions=ASSUME)

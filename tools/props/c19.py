"""C19 — vector algebra and geometric queries match their defining formulas.

proof stage   lake build OVM.Props.C19 (+ judge), forbidden-token grep, #print axioms on every theorem
correspondence
  lattice     harness/vec_drv.cc evaluates the real VectorT templates (int, unsigned, float, double;
              N = 2,3,4) on the integer lattice and prints one canonical line per evaluation; the
              compiled Lean evaluator OVM/Vec/Driver.lean recomputes every line with the model
              OVM/Vec/Model.lean (Int / UInt32 / Rat) and judges it: `exact`, or — for float/double
              results that are not representable — `rounded` / `sqrt_tol` (exact rational bounds)
  geom        generated tet / hex / polyhedral meshes (Vec3d and Vec3f) with small-integer positions:
              vector, length, barycenter (edge, face, cell), normal, normal(opposite), NormalAttrib;
              the model formulas are evaluated on the vertex positions the mesh enumerates
  special     float/double special + sampled values, judged INSIDE the driver against the same formula in
              plain scalar C++ with a 16-ulp tolerance: this part is testing and is labelled so
A disagreement is a concrete failing input (operator, scalar type, dimension, operands) -> replay.
"""
import os
import re
import shutil
import subprocess
import time
from collections import defaultdict

from vlib import build, proof
from vlib.common import BUILD, CORPUS, LEAN, flock, log, sha
from vlib.common import run as sh

PID = "C19"
ST_NAME = {"i": "int", "u": "unsigned", "f": "float", "d": "double"}
# `apply` is not in the operator list of C19's statement; its defect (findings/C19.md, F-C19-1) is
# recorded in the evidence.  Set to True (with a known_findings.json entry of signature
# "C19-apply") to have it reported as a finding instead.
APPLY_IN_SCOPE = False
EV_ARGV = ["<evaluator>"]


# ------------------------------------------------------------------------------ evaluator
def evaluator():
    """Compile OVM/Vec/Driver.lean to a native executable (leanc on the C files lake emits).
    Returns (argv, how)."""
    ok, lg = build.lake_build(["OVM.Vec.Driver"])
    if not ok:
        raise RuntimeError("lake build OVM.Vec.Driver failed:\n" + lg[-3000:])
    lakefile = (LEAN / "lakefile.toml").read_text()
    if re.search(r'name\s*=\s*"vecjudge"', lakefile):
        ok, lg = build.lake_build(["vecjudge"])
        exe = LEAN / ".lake" / "build" / "bin" / "vecjudge"
        if ok and exe.exists():
            return [str(exe)], "lean_exe vecjudge"
    ir = LEAN / ".lake" / "build" / "ir" / "OVM" / "Vec"
    cs = [ir / "Model.c", ir / "Driver.c"]
    if all(c.exists() for c in cs) and shutil.which("leanc"):
        key = sha(*[c.read_bytes() for c in cs])
        exe = BUILD / "c19" / ("vec_eval-" + key)
        with flock("c19-eval"):
            if not exe.exists():
                exe.parent.mkdir(parents=True, exist_ok=True)
                for old in exe.parent.glob("vec_eval-*"):
                    old.unlink()
                tmp = exe.with_suffix(".tmp")
                p = sh(["leanc", "-O2", "-o", str(tmp)] + [str(c) for c in cs], cwd=LEAN, check=False, timeout=900)
                if p.returncode == 0:
                    tmp.rename(exe)
                else:
                    log("[C19] leanc failed, falling back to the interpreter:\n" + p.stderr[-1500:])
        if exe.exists():
            return [str(exe)], "leanc-compiled OVM/Vec/Driver.lean"
    return ["lake", "env", "lean", "--run", "OVM/Vec/Driver.lean"], "lean --run (interpreter)"


def run_to_file(argv, out_path, stdin_path=None, timeout=900, cwd=None):
    """Run a child with stdout to a file; returns (returncode, stderr_text, seconds)."""
    t0 = time.time()
    env = dict(os.environ)
    env["ASAN_OPTIONS"] = "detect_leaks=0:abort_on_error=0"
    env["UBSAN_OPTIONS"] = "print_stacktrace=1"
    with open(out_path, "wb") as fo:
        fi = open(stdin_path, "rb") if stdin_path else subprocess.DEVNULL
        try:
            p = subprocess.run(argv, stdin=fi, stdout=fo, stderr=subprocess.PIPE, timeout=timeout, env=env, cwd=cwd)
            rc, err = p.returncode, p.stderr.decode("utf-8", "replace")
        except subprocess.TimeoutExpired as e:
            rc, err = -999, "TIMEOUT after %ds\n" % timeout + (e.stderr or b"").decode("utf-8", "replace")
        finally:
            if stdin_path:
                fi.close()
    err = "\n".join(l for l in err.splitlines() if not l.startswith("Key auto_activate_base"))
    return rc, err, time.time() - t0


def distinct_nontrivial(path):
    """Distinct evaluations (line without its result) that have at least one non-zero operand."""
    awk = ('{nz=0; for(i=5;i<=NF;i++){ if($i=="=")break; if($i!="0")nz=1 } '
           'if(nz){s=$1; for(j=2;j<i;j++)s=s" "$j; print s}}')
    p = subprocess.run("awk '%s' %s | LC_ALL=C sort -u | wc -l" % (awk, path), shell=True,
                       stdout=subprocess.PIPE, stderr=subprocess.PIPE, text=True)
    try:
        return int(p.stdout.strip().splitlines()[-1])
    except Exception:
        return 0


def parse_eval_output(path):
    bad, sums, total = [], [], {}
    with open(path, errors="replace") as f:
        for line in f:
            line = line.rstrip("\n")
            if line.startswith("BAD "):
                bad.append(line)
            elif line.startswith("SUM "):
                t = line.split(" ")
                # SUM <st> <N> <op> <class> <count>
                if len(t) >= 6:
                    sums.append((t[1], t[2], t[3], " ".join(t[4:-1]), int(t[-1])))
            elif line.startswith("TOTAL "):
                total = dict(kv.split("=") for kv in line.split(" ")[1:])
    return bad, sums, {k: int(v) for k, v in total.items()}


def describe_bad(bad_line):
    """'BAD <why> :: <driver line>' -> (why, line, op, st, N, operands-text)"""
    m = re.match(r"BAD (.*?) :: (.*)$", bad_line)
    if not m:
        return bad_line, "", "?", "?", "?", ""
    why, line = m.group(1), m.group(2)
    t = line.split(" ")
    if t[0] == "E" and len(t) > 4:
        lhs = line.split(" = ")[0]
        return why, line, t[3], t[1], t[2], " ".join(lhs.split(" ")[4:])
    if t[0] == "G" and len(t) > 4:
        lhs = line.split(" = ")[0]
        return why, line, "G:" + t[2], t[1][:1], "3", " ".join(lhs.split(" ")[4:])
    return why, line, "?", "?", "?", ""


def operand_weight(ops):
    w = 0
    for tok in ops.split():
        try:
            w += abs(int(tok))
        except ValueError:
            w += 1000
    return w


def report_bad(ctx, bad, drv_exe, tag):
    """One violation per operator; the replay lists the disagreeing evaluations, smallest first."""
    groups = defaultdict(list)
    for b in bad:
        why, line, op, st, n, ops = describe_bad(b)
        groups[op].append((operand_weight(ops), why, line, st, n, ops))
    for op, items in sorted(groups.items()):
        items.sort(key=lambda x: (x[0], x[2]))
        w, why, line, st, n, ops = items[0]
        txt = ["C19 correspondence failure (%s stream): the library's result differs from the defining formula" % tag,
               "operator     : %s" % op,
               "scalar type  : %s" % ST_NAME.get(st, st),
               "dimension    : %s" % n,
               "operands     : %s" % ops,
               "judgement    : %s" % why,
               "driver line  : %s" % line,
               "",
               ("re-run:  printf '%s\\n' | %s eval | (cd %s && %s)" % (line.split(" = ")[0], drv_exe, LEAN, " ".join(EV_ARGV)))
               if line.startswith("E ") else
               ("re-run:  VERIF_SEED=%d %s geom %s | grep -F '%s' | (cd %s && %s)"
                % (ctx.seed, drv_exe, ctx.tier, " ".join(line.split(" ")[:4]) + " ", LEAN, " ".join(EV_ARGV))),
               "or:      ./check C19 --replay <this file>   (E lines are re-evaluated by the freshly built library)",
               "",
               "all disagreeing evaluations of this operator (%d, smallest operands first, at most 40):" % len(items)]
        for it in items[:40]:
            txt.append("  %s    [%s]" % (it[2], it[1]))
        p = ctx.write_replay("%s-%s.txt" % (tag, re.sub(r"[^A-Za-z0-9]", "_", op)), "\n".join(txt) + "\n")
        ctx.violation(p, "%s<%s,%s>(%s): %s" % (op, ST_NAME.get(st, st), n, ops, why), found_input=True, sig="C19-" + op)


def strip_results(lines):
    out = []
    for l in lines:
        l = l.strip()
        m = re.search(r"(E [iufd] [234] \w+(?: -?\d+)+)", l)
        if m:
            out.append(m.group(1))
    return out


# ------------------------------------------------------------------------------ the check
def run(ctx):  # noqa: C901
    res = proof.proof_stage(ctx, PID)
    work = BUILD / "c19" / ("run-%d-%s" % (ctx.seed, ctx.tier))
    work.mkdir(parents=True, exist_ok=True)
    timings = {}

    t0 = time.time()
    drv = build.driver("vec_drv", flavor="asan")
    timings["build_driver_s"] = round(time.time() - t0, 1)
    t0 = time.time()
    ev, ev_how = evaluator()
    EV_ARGV[:] = ev
    timings["build_evaluator_s"] = round(time.time() - t0, 1)
    ev_cwd = str(LEAN)

    env_seed = {"VERIF_SEED": str(ctx.seed)}
    os.environ.update(env_seed)
    crashed = False
    all_bad = 0
    sums_all = []
    totals = {}
    distinct = {}
    samples = []

    # -- corpus / --replay: E lines re-evaluated by the driver, then judged
    replay_lines = []
    cdir = CORPUS / PID
    if cdir.is_dir():
        for f in sorted(cdir.glob("*.txt")):
            replay_lines += strip_results(f.read_text().splitlines())
    if ctx.replay and os.path.exists(ctx.replay):
        replay_lines += strip_results(open(ctx.replay, errors="replace").read().splitlines())
    streams = []
    if replay_lines:
        (work / "corpus.in").write_text("\n".join(replay_lines) + "\n")
        streams.append(("corpus", [str(drv), "eval"], str(work / "corpus.in")))
    streams.append(("lattice", [str(drv), "lattice", ctx.tier], None))
    streams.append(("geom", [str(drv), "geom", ctx.tier], None))

    for tag, argv, stdin in streams:
        out = work / (tag + ".txt")
        rc, err, secs = run_to_file(argv, out, stdin, timeout=ctx.pick(600, 3000))
        timings["drv_%s_s" % tag] = round(secs, 1)
        if rc != 0:
            crashed = True
            tail = subprocess.run(["tail", "-n", "5", str(out)], stdout=subprocess.PIPE, text=True).stdout
            p = ctx.write_replay(tag + "-crash.txt",
                                 "vec_drv %s exited with %s (sanitizer abort / timeout) on in-contract input\n"
                                 "command: VERIF_SEED=%d %s\n\nlast lines printed (the evaluation after them aborted):\n%s\n"
                                 "stderr:\n%s\n" % (tag, rc, ctx.seed, " ".join(argv), tail, err[-6000:]))
            ctx.violation(p, "driver abort in %s stream (rc=%s)" % (tag, rc), found_input=True, sig="C19-crash-" + tag)
            continue
        jout = work / (tag + ".judged")
        rc, err, secs = run_to_file(ev, jout, str(out), timeout=ctx.pick(900, 7200), cwd=ev_cwd)
        timings["judge_%s_s" % tag] = round(secs, 1)
        if rc != 0:
            raise RuntimeError("Lean evaluator failed on %s (rc=%s): %s" % (tag, rc, err[-2000:]))
        bad, sums, total = parse_eval_output(jout)
        if not total:
            raise RuntimeError("Lean evaluator printed no TOTAL line for " + tag)
        totals[tag] = total
        sums_all += [(tag,) + s for s in sums]
        all_bad += total.get("bad", 0)
        distinct[tag] = distinct_nontrivial(out)
        if bad:
            report_bad(ctx, bad, drv, tag)
        # a few written-out cases, spread over the stream
        nl = max(total.get("lines", 1), 1)
        step = max(nl // 6, 1)
        p = subprocess.run(["awk", "NR %% %d == %d" % (step, min(step - 1, 3 + ctx.seed % 7)), str(out)],
                           stdout=subprocess.PIPE, text=True, errors="replace")
        samples += [l.strip()[:300] for l in p.stdout.splitlines()[:5]]
        if ctx.tier == "thorough" and out.stat().st_size > 50_000_000:
            out.unlink()        # the thorough lattice stream is ~1 GB

    # -- special-value float stream: judged in the driver (testing)
    t_evals = t_mism = 0
    t_ops = defaultdict(int)
    out = work / "special.txt"
    rc, err, secs = run_to_file([str(drv), "special", ctx.tier], out, None, timeout=ctx.pick(600, 3000))
    timings["drv_special_s"] = round(secs, 1)
    if rc != 0:
        crashed = True
        p = ctx.write_replay("special-crash.txt", "vec_drv special exited with %s\ncommand: VERIF_SEED=%d %s special %s\nstderr:\n%s\n"
                             % (rc, ctx.seed, drv, ctx.tier, err[-6000:]))
        ctx.violation(p, "driver abort in special stream (rc=%s)" % rc, found_input=True, sig="C19-crash-special")
    else:
        tms = defaultdict(list)
        for line in open(out, errors="replace"):
            line = line.strip()
            if line.startswith("T "):
                t = line.split(" ")
                e = int(t[4].split("=")[1])
                m = int(t[5].split("=")[1])
                t_evals += e
                t_mism += m
                t_ops[t[3]] += e
            elif line.startswith("TM "):
                t = line.split(" ")
                tms[t[3]].append(line)
        for op, lines in sorted(tms.items()):
            t = lines[0].split(" ")
            txt = ["C19 special-value float stream: library result differs from the defining formula evaluated in",
                   "plain scalar C++ by more than 16 ulp (nan/inf must match exactly).  This stream is testing.",
                   "operator     : %s" % op, "scalar type  : %s" % ST_NAME.get(t[1], t[1]), "dimension    : %s" % t[2],
                   "operands / lib / ref are printed as C99 hex floats:", ""] + lines[:40] + [
                   "", "re-run: VERIF_SEED=%d %s special %s" % (ctx.seed, drv, ctx.tier)]
            p = ctx.write_replay("special-%s.txt" % op, "\n".join(txt) + "\n")
            ctx.violation(p, "special-value stream: %s<%s,%s> deviates: %s" % (op, ST_NAME.get(t[1], t[1]), t[2], lines[0][:200]),
                          found_input=True, sig="C19-special-" + op)
        if t_mism and not tms:
            p = ctx.write_replay("special-mismatch.txt", open(out).read()[-5000:])
            ctx.violation(p, "special-value stream reports %d mismatches" % t_mism, found_input=True, sig="C19-special")

    # -- fixed witnesses (seed independent): the code against the DEFINING formulas of C19's statement.
    #    Reported only through the two signatures below (known findings V2, V3); pass silently once fixed.
    wit = {"l1_norm_not_manhattan": [], "normal_opposite_nonconvex": []}
    out = work / "witness.txt"
    rc, err, secs = run_to_file([str(drv), "witness"], out, None, timeout=120)
    if rc != 0:
        p = ctx.write_replay("witness-crash.txt", "vec_drv witness exited with %s\ncommand: %s witness\nstderr:\n%s\n" % (rc, drv, err[-6000:]))
        ctx.violation(p, "driver abort in witness mode (rc=%s)" % rc, found_input=True, sig="C19-crash-witness")
    else:
        jout = work / "witness.judged"
        rc, err, secs = run_to_file(ev, jout, str(out), timeout=300, cwd=ev_cwd)
        if rc != 0:
            raise RuntimeError("Lean evaluator failed on the witnesses (rc=%s): %s" % (rc, err[-2000:]))
        for line in open(jout, errors="replace"):
            m = re.match(r"WITNESS (\S+) (PASS|FAIL|INVALID) :: (.*?) :: (.*)$", line.strip())
            if not m:
                continue
            if m.group(2) == "INVALID" or m.group(1) not in wit:
                raise RuntimeError("malformed witness: " + line.strip())
            wit[m.group(1)].append((m.group(2), m.group(3), m.group(4)))
        if len(wit["l1_norm_not_manhattan"]) < 2 or len(wit["normal_opposite_nonconvex"]) < 2:
            raise RuntimeError("witness lines missing: " + open(jout, errors="replace").read()[-1000:])
        fails = [w for w in wit["l1_norm_not_manhattan"] if w[0] == "FAIL"]
        if fails:
            txt = ["C19 fixed witness: l1_norm() against its defining formula, the L1 (Manhattan) norm sum |x_i|",
                   "(Vector11T.hh:494-498, documented 'compute L1 (Manhattan) norm', is std::accumulate of the components, no abs).",
                   "Proved negation in the model that mirrors the code: OVM.Props.C19.l1_ne_manhattan",
                   "(and OVM.Props.C19.l1_eq_manhattan_partial: equal only when no component is negative).",
                   "", "operator     : l1_norm", "scalar type  : int", "dimension    : 2", "operands     : 1 -2",
                   "defining formula (Lean evaluator): |1| + |-2| = 3;   library: Vec2i(1,-2).l1_norm() = -1", "",
                   "witness lines (W l1 <type> <N> <operands> = <library result>) and the Lean judgement:"]
            txt += ["  %s    [%s: %s]" % (w[2], w[0], w[1]) for w in wit["l1_norm_not_manhattan"]]
            txt += ["", "re-run:  %s witness | (cd %s && %s)" % (drv, LEAN, " ".join(ev)),
                    "or:      echo 'E i 2 l1 1 -2' | %s eval" % drv]
            p = ctx.write_replay("witness-l1_norm.txt", "\n".join(txt) + "\n")
            ctx.violation(p, "l1_norm() is the plain sum, not the L1 norm: Vec2i(1,-2).l1_norm() = -1",
                          found_input=True, sig="C19:l1_norm_not_manhattan")
        fails = [w for w in wit["normal_opposite_nonconvex"] if w[0] == "FAIL"]
        if fails:
            txt = ["C19 fixed witness: 'the normals of the two sides of a face being opposite' on a PLANAR, NON-CONVEX face.",
                   "GeometryKernel::normal(hf) (GeometryKernel.hh:187-205) uses the first two halfedges of the side it is given:",
                   "the corner at v1 for halfface 0, the corner at v(k-1) for the opposite halfface (cycle v0, v(k-1), ..., v1).",
                   "When one of the two is the reflex corner both calls return the SAME unit vector.",
                   "Proved negation in the model: OVM.Props.C19.normalU_opposite_same_direction_nonconvex",
                   "(general law: OVM.Props.C19.normalU_opposite_eq_neg_lastCorner; exact for triangles / parallelograms).",
                   "", "witness lines:  W normal_nonconvex <type> <k> <x y z of the k vertices of halfface 0, in hfv_iter order>",
                   "                = <normal(halfface 0)> <normal(halfface 1)>      with the Lean judgement (planarity is checked exactly):"]
            txt += ["  %s\n      [%s: %s]" % (w[2], w[0], w[1]) for w in wit["normal_opposite_nonconvex"]]
            txt += ["", "first failing witness: polyhedral mesh with the single face add_face({v0..}) on the positions above;",
                    "re-run:  %s witness | (cd %s && %s)" % (drv, LEAN, " ".join(ev))]
            p = ctx.write_replay("witness-normal_opposite.txt", "\n".join(txt) + "\n")
            ctx.violation(p, "normal(hf) and normal(opposite hf) are not opposite on a planar non-convex face: " + fails[0][2][:160],
                          found_input=True, sig="C19:normal_opposite_nonconvex")

    # -- proof stage broken and nothing concrete found
    if not res["ok"] and not [v for v in ctx.violations if not str(v[3]).startswith("C19:")]:
        p = ctx.write_replay("obligation.txt",
                             "proof obligation of C19 that no longer checks:\n  " + "\n  ".join(res["failures"]) +
                             "\n\nThe correspondence run found no concrete failing input "
                             "(lattice/geom/special streams all agree with the model).\n")
        ctx.violation(p, "proof stage failed: " + "; ".join(res["failures"])[:300], found_input=False)
    elif not res["ok"]:
        log("[C19] proof stage failed as well: " + "; ".join(res["failures"])[:500])

    # -- evidence
    per_op = defaultdict(lambda: defaultdict(int))
    per_type = defaultdict(int)
    classes = defaultdict(int)
    apply_obs = 0
    for (tag, st, n, op, cls, cnt) in sums_all:
        per_op[op][cls] += cnt
        per_type["%s x N=%s" % (ST_NAME.get(st, st), n)] += cnt
        classes[cls] += cnt
        if "finding:apply" in cls:
            apply_obs += cnt
    if APPLY_IN_SCOPE and apply_obs:
        p = ctx.write_replay("apply.txt", "VectorT::apply transforms the uninitialised `result` instead of *this "
                             "(Vector11T.hh:626-631); %d of the applyinc evaluations disagree with v.map(f).\n"
                             "re-run: echo 'E i 3 applyinc 1 2 3' | %s eval\n" % (apply_obs, drv))
        ctx.violation(p, "apply(f) ignores the vector it is applied to", found_input=True, sig="C19-apply")
    judged = sum(t.get("lines", 0) for t in totals.values())
    cov = proof.proof_coverage(res)
    cov.update({
        "evaluations": judged + t_evals,
        "distinct_nontrivial": sum(distinct.values()),
        "rule": "lattice: every operator of Vector11T.hh x {int,unsigned,float,double} x N in {2,3,4}; operands from "
                "{-2..2}^N ({0..4}^N for unsigned): unary and vector-scalar operators exhaustive, vector-vector operators over "
                "ALL pairs for N=2,3 and (quick tier) for N=4 over all pairs of {-1,0,1}^4 plus 3000 seeded pairs of the full "
                "lattice (thorough: all 390625 pairs); alias spellings (+=, .cross(), free dot, swap...) on a seeded 1/16 stride; "
                "plus Pythagorean vectors (exact norms) and, for int/unsigned, seeded wide values incl. 2^31, 2^32-1 (wrap-around). "
                "geom: every edge/halfedge/face/halfface/cell/vertex of generated tet strips, hex grids (parallelepipeds, 1/3 "
                "perturbed) and prisms over random polygons + free faces, Vec3d and Vec3f, integer positions times a scale in "
                "{1,2,3,6,12,60,120,840}. distinct_nontrivial = number of DISTINCT (stream line without its result) among the "
                "E and G lines that have at least one non-zero operand (awk | sort -u | wc -l); the special stream is not counted in it.",
        "exhaustive": False,
        "samples": samples[:12],
        "traces_validated_against_impl": judged,
        "judged_by_lean": {k: v for k, v in totals.items()},
        "distinct_nontrivial_by_stream": distinct,
        "judgement_classes": dict(classes),
        "per_operator": {op: dict(c) for op, c in sorted(per_op.items())},
        "per_scalar_and_dimension": dict(per_type),
        "exact_vs_tolerance": {
            "exact (Lean, equality with the Int/UInt32/Rat model)": classes.get("exact", 0) + classes.get("opposite_exact", 0),
            "within rounding (Lean, exact rational bound; result not representable)": classes.get("rounded", 0) + classes.get("opposite_rounded", 0),
            "sqrt judged through squares (Lean, tolerance 2^-19 float / 2^-48 double)": classes.get("sqrt_tol", 0),
            "TESTING: special/sampled float values vs plain C++ formula in the driver, 16 ulp": t_evals,
            "no claim / out of contract (zero divisor, zero vector, collinear corner, non-antiparallel corner normals)":
                sum(v for k, v in classes.items() if k.startswith("skip:") and "finding" not in k),
        },
        "special_stream": {"evaluations": t_evals, "mismatches": t_mism, "per_operator": dict(t_ops),
                           "label": "testing (not proof, not model-based)"},
        "fixed_witnesses": {k: [{"verdict": w[0], "detail": w[1], "line": w[2]} for w in v] for k, v in wit.items()},
        "observations": {
            "apply_ignores_its_vector": apply_obs,
            "note": "VectorT::apply (outside C19's operator list) transforms an uninitialised temporary: "
                    "every one of these evaluations disagreed with v.map(f); see findings/C19.md",
        },
        "evaluator": ev_how,
        "timings_s": timings,
        "driver_crashed": crashed,
        "explanation": str(len(res["theorems"])) + " Lean theorems about the executable model (component-wise definitions, strict total lexicographic order, "
                       "dot bilinear/symmetric, cross anticommutative/orthogonal/Lagrange/basis in every commutative ring incl. "
                       "Int, ZMod 2^32, UInt32; reductions as folds with their bounds; truncating mean; minimize/maximize; stream "
                       "round trip; barycenters; normal of the opposite halfface = negated last-corner normal, = -normal for "
                       "triangles and parallelograms, false in general). The model is tied to the compiled C++ by re-evaluating "
                       "every printed library result in Lean.",
    })
    ctx.set_evidence(level="proof" if res["ok"] else "other", coverage=cov, assumptions=[
        "the model OVM/Vec/Model.lean is hand-written; its tie to Vector11T.hh / GeometryKernel.hh is the differential run above (no translator)",
        "float/double: IEEE-754 binary32/binary64 with correctly rounded + - * / sqrt (x86-64 SSE2, no FMA contraction at -O1): "
        "a representable exact result is returned exactly; this is what makes the Rat model comparable by equality",
        "signed overflow, division by zero, abs(INT_MIN), normalising a zero vector and float->int of out-of-range values are outside the contract (never generated)",
        "stream operators are modelled at token level; formatting/parsing of a single scalar is std::iostream's",
        "floating-point special values (inf, nan, denormals, huge magnitudes) are only TESTED against the formula in plain C++ inside the driver",
        "GeometryKernel queries are checked on the vertex lists the public iterators enumerate (C05's subject), not on an independent topology model",
    ])

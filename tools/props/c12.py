"""C12 — bottom-up incidences are optional (paired run against an all-enabled twin)."""
from props.kernel_check import run_kernel


def run(ctx):
    run_kernel(ctx, "C12", [
        dict(profile="c12", kind="poly", traces=(96, 1600), ops=40, queries=10),
        dict(profile="c12", kind="tet", traces=(32, 400), ops=40, queries=10),
    ], level_when_proved="other", extra_props=("C01Reach",))

"""C10 — lookup queries are sound and complete."""
from props.kernel_check import run_kernel
from vlib import probes


def run(ctx):
    run_kernel(ctx, "C10", [
        dict(profile="c10", kind="poly", traces=(64, 1000), ops=30, queries=0),
        dict(profile="c10", kind="tet", traces=(32, 400), ops=30, queries=0),
    ], level_when_proved="other")
    ctx.coverage.update(probes.probe(ctx, "C10", "F11", "F11:parallel-edge-hides-face",
                                     "find_halfface(vertices) misses a face when a parallel duplicate edge joins its first two vertices"))

"""Shared engine of the kernel-level checks (C01 C02 C03 C04 C08 C09 C10 C11 C12 C17 ...):
proof stage, trace generation by harness/kernel_drv.cc against the library built from the
current tree, judgement by the compiled Lean judge (lean/Judge), routing of its findings."""
import collections
import os
import re
import shutil
import subprocess
from concurrent.futures import ThreadPoolExecutor
from pathlib import Path

from vlib import build, proof
from vlib.common import BUILD, CORPUS, NPROC, VERIF, log, run, sha
from vlib.report import CheckBroken

ALL_FIELDS = None  # marker: every field

# which XFAIL fields belong to the projection abs_P of a property (DESIGN.md Appendix D)
FIELDS = {
    "C01": {"counts", "vdel", "edel", "fdel", "cdel", "edges.live", "faces.live", "cells.live", "bu",
            "outHes.multiset", "incHfs.multiset", "incCell", "fault"},
    "C02": {"counts", "ndel", "modes", "vdel", "edel", "fdel", "cdel", "edges.live", "faces.live", "cells.live",
            "return", "fault"},
    "C03": {"props.v", "props.e", "props.he", "props.f", "props.hf", "props.c", "props.m", "counts"},
    "C04": {"counts", "ndel", "modes", "vdel", "edel", "fdel", "cdel", "edges.live", "faces.live", "cells.live",
            "props.v", "props.e", "props.he", "props.f", "props.hf", "props.c", "props.m", "fault",
            "outHes.multiset", "incHfs.multiset", "incCell"},
    "C11": ALL_FIELDS,
    "C12": ALL_FIELDS,
    "C17": ALL_FIELDS,
    "C09": {"incHfs.multiset", "incHfs.exact", "incCell", "fault"},
    "C10": {"lookup"},
    "C08": {"faces.live", "edges.live", "return"},
}
# ops on which a property's correspondence is judged (None = all)
OPS = {
    "C02": re.compile(r"delete_|clear|enable_deferred|enable_fast|collect_garbage|add_"),
    "C04": re.compile(r"collect_garbage|enable_deferred"),
    "C11": re.compile(r"add_"),
    "C17": re.compile(r"swap_"),
    "C08": re.compile(r"add_face"),
}


def field_base(f):
    return f.split(":")[0]


def relevant_xfail(pid, op, field):
    ops = OPS.get(pid)
    if ops is not None and not ops.match(op):
        return False
    fs = FIELDS.get(pid, ALL_FIELDS)
    if fs is ALL_FIELDS:
        return True
    return field_base(field) in fs or (pid == "C01" and field.startswith("query"))


def gen_and_judge(ctx, pid, profile, kind, traces, ops, queries, workdir, tag):
    """Run the driver in chunks over all cores, then the judge; returns list of (tracefile, judge lines)."""
    drv = build.driver("kernel_drv", flavor="asan")
    judge = build.judge_exe()
    workdir.mkdir(parents=True, exist_ok=True)
    nchunks = min(NPROC, max(1, traces // 4))
    # the judge holds one trace file in memory (~20x its size): at most 16 traces per file, so that NPROC judges of a
    # thorough run (1000 traces) stay near 1 GB each instead of 4-5 GB (the kernel killed them on a 62 GB machine)
    per = min(16, (traces + nchunks - 1) // nchunks)
    nchunks = (traces + per - 1) // per
    jobs = []
    for c in range(nchunks):
        first = c * per
        n = min(per, traces - first)
        if n <= 0:
            break
        jobs.append((first, n, workdir / ("%s-%s-%s-%d.trace" % (tag, profile, kind, c))))

    def one(job):
        first, n, out = job
        env = {"ASAN_OPTIONS": "detect_leaks=0:abort_on_error=1", "UBSAN_OPTIONS": "print_stacktrace=1"}
        p = run([str(drv), "--kind", kind, "--profile", profile, "--seed", str(ctx.seed), "--first", str(first),
                 "--traces", str(n), "--ops", str(ops), "--queries", str(queries), "--out", str(out)],
                env=env, check=False, timeout=3600)
        stderr = p.stderr
        j = run([str(judge), str(out)], check=False, timeout=3600)
        if j.returncode != 0:
            raise RuntimeError("judge failed on %s: %s" % (out, j.stderr[-2000:]))
        return out, j.stdout.splitlines(), stderr

    with ThreadPoolExecutor(NPROC) as ex:
        return list(ex.map(one, jobs))


def replay_and_judge(ctx, files, workdir):
    """re-execute the operations of stored traces (corpus / --replay) on the current tree and judge them"""
    drv = build.driver("kernel_drv", flavor="asan")
    judge = build.judge_exe()
    workdir.mkdir(parents=True, exist_ok=True)
    out = []
    env = {"ASAN_OPTIONS": "detect_leaks=0:abort_on_error=1", "UBSAN_OPTIONS": "print_stacktrace=1"}
    for i, f in enumerate(files):
        head = open(f).readline().split()
        profile = head[2] if len(head) > 2 and head[0] == "T" else "core"
        kind = next((w.split("=")[1] for w in head if w.startswith("kind=")), "poly")
        o = workdir / ("corpus-%d-%s" % (i, Path(f).name))
        p = run([str(drv), "--kind", kind, "--profile", profile, "--seed", str(ctx.seed), "--replay", str(f), "--out", str(o)],
                env=env, check=False, timeout=600)
        j = run([str(judge), str(o)], check=False, timeout=600)
        if j.returncode != 0:
            raise RuntimeError("judge failed on %s: %s" % (o, j.stderr[-2000:]))
        out.append((o, j.stdout.splitlines(), p.stderr))
    return out


def trace_prefix(tracefile, trace_no, step):
    """The O-lines (plus I line) of one trace up to and including `step`: a replayable history."""
    out = []
    cur = False
    k = -1
    with open(tracefile) as f:
        for line in f:
            if line.startswith("T "):
                cur = ("trace=%s" % trace_no) in line.split()
                if cur:
                    out.append(line.rstrip("\n"))
                continue
            if not cur:
                continue
            if line.startswith("I "):
                out.append(line.rstrip("\n"))
            elif line.startswith("O"):
                k += 1
                if k > step:
                    break
                out.append(line.rstrip("\n"))
    return out


LINE_RE = re.compile(r"^(XFAIL|ORACLE|DRIFT) trace=(\S+) step=(\d+) op=(\S+) (.*)$")


def run_kernel(ctx, pid, plans, accept_oracle=None, extra_stats=None, level_when_proved="proof", gen=(), extra_props=()):
    """plans: list of dict(profile, kind, traces(q,t), ops, queries).  Reports through ctx."""
    res = proof.proof_stage(ctx, pid, gen=gen, extra_props=extra_props)
    workdir = BUILD / "work" / ("%s-%d-%s" % (pid, ctx.seed, ctx.tier))
    shutil.rmtree(workdir, ignore_errors=True)
    stats = collections.Counter()
    hist_ops = collections.Counter()
    hist_modes = collections.Counter()
    oracle_hits = []      # (tracefile, trace, step, op, text)
    xfails = []
    crashes = []
    drift = collections.Counter()
    samples = []
    # corpus first: minimised past failures (traces that exposed seeded changes or real defects), replayed on the current tree
    corpus_dir = CORPUS / pid
    plans = list(plans)
    batches = []
    corpus_files = sorted(corpus_dir.glob("*.trace")) if corpus_dir.is_dir() else []
    if ctx.replay:
        corpus_files, plans = [Path(ctx.replay)], []
    if corpus_files:
        batches.append(replay_and_judge(ctx, corpus_files, workdir))
    stats["corpus_traces"] += len(corpus_files)
    for plan in plans:
        traces = plan["traces"][0] if ctx.quick else plan["traces"][1]
        batches.append(gen_and_judge(ctx, pid, plan["profile"], plan["kind"], traces, plan["ops"], plan.get("queries", 34),
                                     workdir, pid))
    for results in batches:
        for tracefile, lines, stderr in results:
            for l in lines:
                if l.startswith("STAT "):
                    _, k, v = l.split()
                    stats[k] += int(v)
                elif l.startswith("HIST op "):
                    _, _, k, v = l.split()
                    hist_ops[k] += int(v)
                elif l.startswith("HIST mode "):
                    _, _, k, v = l.split()
                    hist_modes[k] += int(v)
                else:
                    m = LINE_RE.match(l)
                    if not m:
                        continue
                    kind_, tr, step, op, rest = m.groups()
                    step = int(step)
                    if kind_ == "DRIFT":
                        drift[rest] += 1
                    elif kind_ == "ORACLE":
                        pm = re.match(r"prop=(\S+) witness=(.*)$", rest)
                        prop, wit = pm.group(1), pm.group(2)
                        if prop == "CRASH":
                            crashes.append((tracefile, tr, step, op, wit, stderr))
                        elif prop == pid or (accept_oracle and prop in accept_oracle):
                            oracle_hits.append((tracefile, tr, step, op, wit))
                    elif kind_ == "XFAIL":
                        fm = re.match(r"field=(\S+) (.*)$", rest)
                        field, detail = fm.group(1), fm.group(2)
                        if relevant_xfail(pid, op, field):
                            xfails.append((tracefile, tr, step, op, field, detail))
            if not samples:
                pre = trace_prefix(tracefile, tracefile and re.search(r"trace=(\d+)", open(tracefile).readline()).group(1), 6)
                samples.append(pre[:10])

    # ---- verdict ---------------------------------------------------------------------------
    reported = 0
    # one report per distinct signature; a witness of the form "Fnn:what" carries its own signature
    def sig_of(op, wit):
        m = re.match(r"^(F\d+[a-z]?:[\w.-]+)", wit)
        return "%s:%s" % (pid, m.group(1)) if m else "%s:%s" % (pid, op)
    by_sig = {}
    for h in oracle_hits:
        by_sig.setdefault(sig_of(h[3], h[4]), h)
    oracle_first = list(by_sig.values())[:6]
    for (tracefile, tr, step, op, wit) in oracle_first:
        pre = trace_prefix(tracefile, tr, step)
        text = "\n".join(pre) + "\n# property %s fails on the implementation's own state after the last operation above\n# %s\n# replay: kernel_drv --replay <this file> | ovmjudge\n" % (pid, wit)
        p = ctx.write_replay("oracle-t%s-s%d.trace" % (tr, step), text)
        ctx.violation(p, "%s: %s" % (op, wit[:300]), found_input=True, sig=sig_of(op, wit))
        reported += 1
    for (tracefile, tr, step, op, wit, stderr) in crashes[:2]:
        pre = trace_prefix(tracefile, tr, step)
        text = "\n".join(pre) + "\n# the implementation aborted during the last operation above: %s\n# %s\n" % (wit, stderr[-1500:])
        p = ctx.write_replay("crash-t%s-s%d.trace" % (tr, step), text)
        ctx.violation(p, "implementation aborted in %s: %s" % (op, wit[:200]), found_input=True, sig="%s:crash:%s" % (pid, op))
        reported += 1
    if not reported and xfails:
        tracefile, tr, step, op, field, detail = xfails[0]
        pre = trace_prefix(tracefile, tr, step)
        text = "\n".join(pre) + "\n# correspondence X_%s no longer checks at the last operation above: field %s\n# %s\n# (%d such disagreements; the property's oracle found no failing input on the implementation's states)\n" % (
            pid, field, detail[:2000], len(xfails))
        p = ctx.write_replay("xfail-t%s-s%d.trace" % (tr, step), text)
        ctx.violation(p, "model/implementation disagree on %s after %s" % (field, op), found_input=False)
        reported += 1
    if not reported and not res["ok"]:
        p = ctx.write_replay("proof.txt", "theorems of OVM/Props/%s.lean no longer check:\n%s\n\n%s" % (
            pid, "\n".join(res["failures"]), res["log"][-3000:]))
        ctx.violation(p, "proof obligations of %s no longer check" % pid, found_input=False)

    cov = proof.proof_coverage(res)
    cov.update({
        "evaluations": int(stats["steps"]),
        "traces_validated_against_impl": int(stats["traces"]),
        "distinct_nontrivial": int(stats["distinct_nontrivial_states"]),
        "states": int(stats["distinct_states"]),
        "transitions": int(stats["steps"]),
        "rule": "structured random histories from harness/kernel_drv.cc (seeded by VERIF_SEED); a state is the "
                "(definitions, flags, modes) tuple after a step, hashed; non-trivial = at least one cell or a pending deletion",
        "queries_compared": int(stats["queries"]),
        "corpus_traces_replayed_first": int(stats["corpus_traces"]),
        "op_histogram": dict(hist_ops),
        "mode_bu_histogram(deferred,fast,vBU,eBU,fBU)": dict(hist_modes),
        "model_drift(informational)": dict(drift),
        "oracle_failures": len(oracle_hits), "correspondence_failures": len(xfails), "crashes": len(crashes),
        "samples": samples,
        "explanation": "Lean theorems about the kernel model (lean/OVM) + per-step refinement check of the model against the "
                       "ASan/UBSan build of /repo's current sources on generated histories, judged by the compiled Lean judge",
    })
    if extra_stats:
        cov.update(extra_stats)
    level = level_when_proved if res["ok"] else "other"
    ctx.set_evidence(level, cov, assumptions=[
        "Lean 4.33 kernel; axioms as listed in trusted_base",
        "the hand-written mechanism model lean/OVM/Kernel mirrors TopologyKernel.cc; tied to the code only by the correspondence run (bounded by the generator)",
        "harness/kernel_drv.cc dumps the state through the public API only",
    ])
    return res

"""C13 — Mesh copy and assignment are deep and leave the two meshes independent.
Proof stage: lean/OVM/Props/C13.lean (Disjoint invariant, copy/assign postconditions, frame
theorem).  Correspondence + oracles: tools/registry_check.py."""
import registry_check


def run(ctx):
    registry_check.run_check(ctx, "C13")

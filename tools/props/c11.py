"""C11 — construction validates."""
from props.kernel_check import run_kernel


def run(ctx):
    run_kernel(ctx, "C11", [
        dict(profile="c11", kind="poly", traces=(128, 2000), ops=40, queries=0),
        dict(profile="c11", kind="tet", traces=(32, 400), ops=40, queries=0),
    ], level_when_proved="other")

"""C09 — halffaces around an edge in rotational order; in-cell adjacency involutive."""
from props.kernel_check import run_kernel
from vlib import probes


def run(ctx):
    run_kernel(ctx, "C09", [
        dict(profile="c09", kind="poly", traces=(64, 1000), ops=36, queries=0),
        dict(profile="c09", kind="tet", traces=(32, 400), ops=36, queries=0),
    ], level_when_proved="other")
    ctx.coverage.update(probes.probe(ctx, "C09", "C09J", "C09J:pillow-adjacent-invalid",
                                     "adjacent_halfface_in_cell returns Invalid in a closed cell containing both halffaces of a face"))

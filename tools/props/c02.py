"""C02 — deletion removes exactly the upward closure; survivors unchanged."""
from props.kernel_check import run_kernel


def run(ctx):
    run_kernel(ctx, "C02", [
        dict(profile="core", kind="poly", traces=(96, 1600), ops=40, queries=0),
        dict(profile="c04", kind="poly", traces=(48, 800), ops=40, queries=0),
        dict(profile="core", kind="tet", traces=(32, 400), ops=40, queries=0),
    ], level_when_proved="other")

"""C20 -- concurrent read-only use of a mesh is race-free and deterministic.

proof stage : T5 (tools/t5_footprint.py) regenerates lean/OVM/Gen/ConstFootprint.lean from the
              current sources; lake builds OVM.Props.C20 (schedule theorems + kernel `decide` over
              the regenerated table); forbidden-token grep; axiom audit.
dynamic tie : harness/conc_drv.cc, built twice from the current tree
              (i)  ASan flavour, `snap`: byte snapshot of the mesh objects and of every live heap
                   block before/after each const query
              (ii) TSan flavour, `tsan`: 2..16 reader threads, results compared with a
                   single-threaded run, ThreadSanitizer reports are failures.
search      : when the table theorem breaks, a focused 16-thread TSan stress (and a focused
              snapshot diff) on the queries that exercise the flagged methods looks for a concrete
              race / diff / mismatch; otherwise `no-failing-input-found` naming entry + theorem.
"""
import re
import sys
import time
from concurrent.futures import ThreadPoolExecutor
from pathlib import Path

sys.path.insert(0, str(Path(__file__).resolve().parents[1]))
import t5_footprint  # noqa: E402
from vlib import build, proof  # noqa: E402
from vlib.common import REPO, flock, log, run as sh  # noqa: E402

THEOREM_D = "OVM.Props.C20.constAPI_chunks_clean / constAPI_clean"
TSAN_ENV = {"TSAN_OPTIONS": "halt_on_error=1 exitcode=66 report_signal_unsafe=0 history_size=4"}
ASAN_ENV = {"ASAN_OPTIONS": "detect_leaks=0:abort_on_error=0:exitcode=77", "UBSAN_OPTIONS": "halt_on_error=1:exitcode=78"}


def tsan_excerpt(err, n=45):
    lines = err.splitlines()
    for i, l in enumerate(lines):
        if "WARNING: ThreadSanitizer" in l:
            return "\n".join(lines[i:i + n])
    return "\n".join(lines[-n:])


def tsan_signature(err):
    """stable part of a TSan report: kind + the first OpenVolumeMesh frame of each stack"""
    kind = re.search(r"WARNING: ThreadSanitizer: ([a-zA-Z\- ]+)", err)
    frames = re.findall(r"#\d+ (OpenVolumeMesh::[\w:~<>]+)", err) or re.findall(r"#0 ([^\s(]+)", err)
    return "tsan:%s:%s" % (kind.group(1).strip() if kind else "?", frames[0] if frames else "?")


def run_snap(exe, seed, reps, only=None, timeout=1800):
    cmd = [str(exe), "snap", "--reps", str(reps)] + (["--only", only] if only else [])
    t0 = time.time()
    p = sh(cmd, env=dict(ASAN_ENV, VERIF_SEED=str(seed)), check=False, timeout=timeout)
    return dict(cmd=" ".join(cmd), rc=p.returncode, out=p.stdout, err=p.stderr, wall=time.time() - t0)


def run_tsan(exe, seed, ms, threads, only=None, ops=300, timeout=3600):
    cmd = [str(exe), "tsan", "--ms", str(ms), "--threads", threads, "--ops", str(ops)] + (["--only", only] if only else [])
    t0 = time.time()
    p = sh(cmd, env=dict(TSAN_ENV, VERIF_SEED=str(seed)), check=False, timeout=timeout)
    return dict(cmd=" ".join(cmd), rc=p.returncode, out=p.stdout, err=p.stderr, wall=time.time() - t0)


def summary_of(out):
    m = re.search(r"^SUMMARY (.*)$", out, re.M)
    d = {}
    if m:
        for kv in m.group(1).split():
            if "=" in kv:
                k, v = kv.split("=", 1)
                d[k] = int(v) if v.isdigit() else v
    return d


def replay_text(title, r, seed, extra=""):
    return ("%s\nrepo: %s\nVERIF_SEED=%d\ncommand: %s %s\nexit code: %s\n%s\n--- stdout (DIFF / MISMATCH / SUMMARY lines) ---\n%s\n--- stderr ---\n%s\n" % (
        title, REPO, seed, " ".join("%s=%s" % kv for kv in (TSAN_ENV if " tsan " in r["cmd"] else ASAN_ENV).items()), r["cmd"], r["rc"], extra,
        "\n".join(l for l in r["out"].splitlines() if l.startswith(("DIFF", "NONDET", "MISMATCH", "SUMMARY", "INFO"))),
        tsan_excerpt(r["err"]) if r["err"].strip() else "(empty)"))


def judge_dynamic(ctx, what, r, mode, prefix=""):
    """-> True when the run is a concrete failing input (violation recorded)"""
    bad_lines = [l for l in r["out"].splitlines() if l.startswith(("DIFF", "NONDET", "MISMATCH"))]
    if mode == "tsan" and r["rc"] == 66:
        p = ctx.write_replay(prefix + "tsan-race.txt", replay_text("ThreadSanitizer report while %s" % what, r, ctx.seed))
        ctx.violation(p, "data race under concurrent const queries (%s): %s" % (what, tsan_signature(r["err"])), found_input=True,
                      sig=tsan_signature(r["err"]))
        return True
    if bad_lines:
        kind = bad_lines[0].split()[0]
        name = {"DIFF": "snapshot-diff.txt", "NONDET": "nondeterministic.txt", "MISMATCH": "thread-mismatch.txt"}[kind]
        q = re.search(r"query=(\S+)", bad_lines[0])
        p = ctx.write_replay(prefix + name, replay_text("%s while %s" % (kind, what), r, ctx.seed))
        msg = {"DIFF": "a const query changed mesh-owned memory", "NONDET": "a const query is not deterministic",
               "MISMATCH": "a reader thread observed a result different from the single-threaded run"}[kind]
        ctx.violation(p, "%s (%s; %s)" % (msg, q.group(1) if q else "?", what), found_input=True,
                      sig="c20:%s:%s" % (kind.lower(), q.group(1) if q else "?"))
        return True
    if r["rc"] != 0:
        # sanitizer abort / crash of the implementation on in-contract input
        p = ctx.write_replay(prefix + "%s-abort.txt" % mode, replay_text("driver aborted (exit %s) while %s" % (r["rc"], what), r, ctx.seed))
        top = re.search(r"(AddressSanitizer|UndefinedBehaviorSanitizer|runtime error|ThreadSanitizer)[^\n]*", r["err"])
        ctx.violation(p, "implementation aborted under const queries (%s): %s" % (what, top.group(0)[:160] if top else "exit %s" % r["rc"]),
                      found_input=True, sig="c20:abort:%s" % mode)
        return True
    return False


def run(ctx):
    t5res = {}

    def t5_translate():
        with flock("t5"):
            t5res.update(t5_footprint.t5())

    res = proof.proof_stage(ctx, "C20", gen=[t5_translate], extra_targets=())
    table = t5res.get("table", [])
    flagged = [e for e in table if e["writesShared"] and not e["excluded"]]
    excluded = [e for e in table if e["excluded"]]

    # ---- build both flavours from the current tree, run both (in parallel: snapshot is 1 thread)
    snap_exe = build.driver("conc_drv", flavor="asan", extra=("-DCONC_SNAPSHOT",))
    tsan_exe = build.driver("conc_drv", flavor="tsan")
    reps = ctx.pick(4, 60)
    ms = ctx.pick(5000, 120000)
    threads = ctx.pick("2,4,8,16", "2,3,4,6,8,12,16")
    with ThreadPoolExecutor(2) as ex:
        f_snap = ex.submit(run_snap, snap_exe, ctx.seed, reps)
        f_tsan = ex.submit(run_tsan, tsan_exe, ctx.seed, ms, threads)
        snap, tsan = f_snap.result(), f_tsan.result()
    s_snap, s_tsan = summary_of(snap["out"]), summary_of(tsan["out"])
    found = False
    found |= judge_dynamic(ctx, "the full query mix (snapshot diff)", snap, "snap")
    found |= judge_dynamic(ctx, "the full query mix, threads %s" % threads, tsan, "tsan")
    if not found and (not s_snap or not s_tsan):
        raise RuntimeError("conc_drv produced no SUMMARY line:\n%s\n%s" % (snap["err"][-1500:], tsan["err"][-1500:]))

    # ---- the footprint theorem broke: focused search for a concrete race
    focus = None
    if flagged:
        names = sorted({e["name"] for e in flagged} | {e["cls"] for e in flagged if e["kind"] == "iter"})
        only = ",".join(names)
        direct = [e for e in flagged if e["direct"]] or flagged
        what = "focused stress on " + ", ".join("%s::%s" % (e["cls"], e["name"]) for e in direct[:4])
        fms = ctx.pick(8000, 60000)
        ft = run_tsan(tsan_exe, ctx.seed, fms, "16", only=only, ops=400)
        if summary_of(ft["out"]).get("queries", 1) == 0 and ft["rc"] == 4:      # no query covers them: stress everything
            only = None
            ft = run_tsan(tsan_exe, ctx.seed, fms, "16", ops=400)
        fs = run_snap(snap_exe, ctx.seed, ctx.pick(10, 60), only=only)
        focus = dict(only=only, tsan=summary_of(ft["out"]), snap=summary_of(fs["out"]), tsan_rc=ft["rc"], snap_rc=fs["rc"])
        hit = judge_dynamic(ctx, what + " (16 threads)", ft, "tsan", prefix="focused-")
        if not found:
            hit |= judge_dynamic(ctx, what + " (snapshot diff)", fs, "snap", prefix="focused-")
        if not (found or hit):
            lines = ["theorem that no longer checks: %s  (lean/OVM/Props/C20.lean)" % THEOREM_D,
                     "generated table: lean/OVM/Gen/ConstFootprint.lean (from %s)" % REPO,
                     "entries with a non-empty shared write set that the property does not exclude:"]
            for e in flagged[:40]:
                lines.append("  %s::%s  %s\n      via: %s" % (e["cls"], e["name"], e["sig"], e["via"]))
            lines.append("mutable fields now: %s" % "; ".join(t5res.get("mutable", [])))
            lines.append("const_cast sites now: %s" % "; ".join(t5res.get("const_casts", [])))
            lines.append("non-const statics now: %s" % "; ".join(t5res.get("statics", [])))
            lines.append("focused search (VERIF_SEED=%d): %s -> exit %s, %s; snapshot diff -> exit %s, %s" % (
                ctx.seed, ft["cmd"], ft["rc"], summary_of(ft["out"]), fs["rc"], summary_of(fs["out"])))
            p = ctx.write_replay("obligation.txt", "\n".join(lines) + "\n")
            ctx.violation(p, "const API footprint is no longer write-free: %s::%s (%s)" % (
                direct[0]["cls"], direct[0]["name"], direct[0]["via"][:200]), found_input=False, sig="c20:footprint")
        found = found or hit
    elif not res["ok"]:
        p = ctx.write_replay("obligation.txt", "proof stage of C20 failed (no table entry is flagged):\n" + "\n".join(res["failures"]) + "\n")
        ctx.violation(p, "C20 proof stage failed: %s" % "; ".join(res["failures"])[:300], found_input=False, sig="c20:proof")

    # ---- evidence
    cov = proof.proof_coverage(res)
    n_queries = s_snap.get("queries", 0)
    per_class = t5res.get("per_class", {})
    listing = sh([str(snap_exe), "list"], env=dict(ASAN_ENV, VERIF_SEED=str(ctx.seed)), check=False).stdout.splitlines()
    covered_names = set()
    for l in listing:
        m = re.search(r"covers=(.*)$", l)
        if m:
            covered_names.update(m.group(1).split(","))
    api_entries = [e for e in table if e["kind"] == "api" and not e["excluded"]]
    api_hit = [e for e in api_entries if e["name"] in covered_names]
    cov.update({
        "evaluations": int(s_snap.get("calls", 0)) + int(s_tsan.get("concurrent_ops", 0)),
        "distinct_nontrivial": int(s_tsan.get("exercised", 0)),
        "rule": "one case = one const query (iterator/circulator kind, lookup, boundary/valence, definition, geometry, property read) with "
                "seeded random arguments on a polyhedral / tetrahedral / hexahedral mesh with deferred-deleted entities and 8 properties; "
                "distinct_nontrivial counts the distinct queries that were executed concurrently by >= 2 threads in the TSan run",
        "samples": [l for l in listing[:3]] + [l for l in listing if l.startswith(("QUERY tet:tet_", "QUERY hex:hex_"))][:3]
                   + ["table: %s::%s %s writesShared=%s excluded=%s" % (e["cls"], e["name"], e["sig"], e["writesShared"], e["excluded"])
                      for e in (table[:2] + excluded[:2])],
        "methods_in_table": len(table),
        "methods_excluded": len(excluded),
        "methods_flagged_not_excluded": len(flagged),
        "methods_per_class": per_class,
        "const_api_entries_named_by_a_query": "%d of %d non-excluded non-iterator entries" % (len(api_hit), len(api_entries)),
        "mutable_fields": t5res.get("mutable", []),
        "const_cast_sites": t5res.get("const_casts", []),
        "non_const_statics": t5res.get("statics", []),
        "t5_scanned_tus": t5res.get("srcs", []),
        "t5_notes": t5res.get("notes", []),
        "queries_exercised": n_queries,
        "snapshot": s_snap,
        "snapshot_diffs_performed": s_snap.get("snapshot_diffs_performed", 0),
        "tsan": s_tsan,
        "tsan_thread_counts": threads,
        "tsan_run_time_s": round(tsan["wall"], 2),
        "snapshot_run_time_s": round(snap["wall"], 2),
        "focused_search": focus,
        "traces_validated_against_impl": int(s_tsan.get("rounds", 0)),
        "explanation": (
            "Claimed as PARTIAL. Proved in Lean (no axioms beyond the audited ones): for read-only programs any schedule of any number of "
            "threads gives every finished thread its sequential result, leaves memory unchanged and produces no conflicting access pair "
            "(readonly_deterministic, readonly_no_conflict); for programs with writes the same holds whenever every thread obeys the "
            "footprint discipline (confined_deterministic), and hence for threads running arbitrary sequences of non-excluded constAPI "
            "methods under the hypothesis that the extracted footprints are sound (api_deterministic); by kernel decide over the table "
            "regenerated from the current sources every non-excluded entry has an empty shared write set (constAPI_clean). "
            "The tie to the C++ is NOT a proof: T5 is a conservative syntactic effect analysis over clang's AST of one unity TU "
            "(Core/, Mesh/, Serializers, TypeNames; NDEBUG), and it is validated on every run by a byte snapshot of the mesh objects and "
            "every live heap block around each const query (ASan build) and by a ThreadSanitizer run of 2-16 reader threads whose results "
            "are compared with a single-threaded run. Trusted: the C++ memory model, libstdc++'s [res.on.data.races] guarantees "
            "(const container access, atomic shared_ptr reference counts, synchronized std::cerr), T5's accessor whitelist, TSan's "
            "detection ability. A reader-side race that T5's grammar does not express and TSan does not hit would be missed."),
    })
    ctx.set_evidence(level="other", coverage=cov, assumptions=[
        "C++ memory model; libstdc++ [res.on.data.races] / [container.requirements.dataraces]; atomic shared_ptr reference counts",
        "T5 is syntactic and conservative: non-const std members other than the accessor whitelist are writes; calls into std are otherwise trusted",
        "sources compiled with -DNDEBUG as in the pinned build (debug-only std::cerr output is not analysed)",
        "property creation / destruction and tracker registration (request_*/create_*/internal_create_property/storage_tracker/clone) are excluded by the property",
        "Sound(sem): writesShared = false implies the method's accesses obey the discipline -- hypothesis of api_deterministic, tied by extraction + TSan + snapshot diff only",
    ])

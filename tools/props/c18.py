"""C18 — OVMB detects truncation, framing corruption and stream failures (tools/props/io_ovmb.py, Props/C18.lean)."""
from props import io_ovmb

ASSUME = [
    "hand-written reader/writer models (lean/OVM/IO/Ovmb), constants regenerated from the sources (T4); tie = differential run",
    "stream failures are injected by a streambuf that fails from a given position (both badbit and short-read styles)",
]


def run(ctx):
    if ctx.replay:
        cov = io_ovmb.replay(ctx, "C18")
        ctx.set_evidence(level="other", coverage=cov, assumptions=ASSUME)
        return
    cov = io_ovmb.run_c18(ctx)
    cov["explanation"] = ("Lean theorems about the reader/writer models (Ok requires the EOF chunk, short input rejected, chunk loop "
                          "progress, writer Ok only if the sink took the whole file) + truncations, header substitutions, chunk "
                          "surgery, read and write faults on the real code, judged against the model by ovmbjudge")
    cov["samples"] = sorted(cov.get("faults_by_kind_and_result", {}).items())[:16]
    ctx.set_evidence(level="other", coverage=cov, assumptions=ASSUME)

"""C16 — hexahedral kernel: shape and halfface-order invariants, hex navigation.

proof stage   T2 (tools/t2_hextables.py) regenerates lean/OVM/Gen/HexTables.lean from the current
              sources; lake build OVM.Props.C16 (+ judges); forbidden-token grep; #print axioms
correspondence
  harness/hex_drv.cc (ASan+UBSan build of the current tree) writes operation histories on a real
  HexahedralMesh with the full state after every step and the hex queries for every live cell;
  lean/OVM/Hex/Judge.lean (compiled) runs the model lean/OVM/Hex/Kernel.lean on the implementation's
  previous state and compares (X), and evaluates the predicates of lean/OVM/Hex/Spec.lean
  (HexShape, HexConv, orthogonal layout, vertex pattern, sheet neighbours, rejected => unchanged)
  on the implementation's own output (oracles).
An oracle failure or an abort is a concrete failing input (replayable prefix of the trace); a
model/code disagreement without oracle failure is reported as `no-failing-input-found`.
"""
import collections
import re
import shutil
from concurrent.futures import ThreadPoolExecutor

import t2_hextables
from props.kernel_check import LINE_RE, trace_prefix
from vlib import build, proof
from vlib.common import BUILD, CORPUS, LEAN, NPROC, flock, log, write_if_changed
from vlib.common import run as sh

PID = "C16"
# A hexahedron whose diagonally opposite vertices are identified (six proper quads, closed, 7 distinct
# vertices) used to pass the topology check of add_cell (findings/C16-pinched-hex.md, C16J).  Since 7b999c9 the
# override rejects six quads that do not span exactly eight distinct vertices (model: `spanVertCount` guard in
# hexAddCell; Lean: `pinched_rejected`, `checked_add_cell_eight_distinct`), so the driver's `pinched` stream must
# only see rejections.  True: a live cell of six proper quads with fewer than eight distinct vertices in the
# implementation's own output (judge tag C16J) is a violation with signature "C16:pinched-accepted" (the
# known_findings.json entry C16J is of kind "fixed").  False: only counted in the evidence.
PINCHED_IN_SCOPE = True

# abs_C16: on the construction operations everything is compared (a rejected call must leave every field
# unchanged); on deletions, garbage collection, swaps and mode switches C16 only speaks about the
# definitions, flags and counts (the shape / convention of the surviving cells) -- the caches and property
# columns there are the subject of C01/C02/C03/C04/C17 and only counted as informational drift here.
ADD_OPS = re.compile(r"add_|hex_add_")
DEF_FIELDS = {"counts", "ndel", "modes", "bu", "vdel", "edel", "fdel", "cdel", "edges.live", "faces.live", "cells.live",
              "return", "fault", "unknown-op", "retoken"}


def relevant_xfail(op, field):
    return bool(ADD_OPS.match(op)) or field.split(":")[0] in DEF_FIELDS or field.startswith("query")


def hexjudge():
    """The compiled judge: the `hexjudge` lean_exe of lean/lakefile.toml when it is declared there,
    otherwise a side package under .build that requires the main package by path."""
    if re.search(r'name\s*=\s*"hexjudge"', (LEAN / "lakefile.toml").read_text()):
        ok, lg = build.lake_build(["hexjudge"])
        exe = LEAN / ".lake" / "build" / "bin" / "hexjudge"
        if not ok or not exe.exists():
            raise RuntimeError("lake build hexjudge failed:\n" + lg[-3000:])
        return exe, "lean_exe hexjudge"
    side = BUILD / "c16" / "lake"
    write_if_changed(side / "lakefile.toml",
                     'name = "c16judge"\nversion = "0.1.0"\n\n[[require]]\nname = "ovm"\npath = "%s"\n\n'
                     '[[lean_exe]]\nname = "hexjudge"\nroot = "HexJudgeMain"\n' % LEAN)
    write_if_changed(side / "HexJudgeMain.lean", "import OVM.Hex.Judge\n")
    write_if_changed(side / "lean-toolchain", (LEAN / "lean-toolchain").read_text())
    with flock("lake"):
        p = sh(["lake", "build", "hexjudge"], cwd=side, check=False, timeout=3600)
    exe = side / ".lake" / "build" / "bin" / "hexjudge"
    if p.returncode != 0 or not exe.exists():
        raise RuntimeError("building the hex judge failed:\n" + (p.stdout + p.stderr)[-3000:])
    return exe, "side package .build/c16/lake (lean_exe hexjudge not yet in lean/lakefile.toml)"


def gen_and_judge(ctx, drv, judge, traces, workdir):
    workdir.mkdir(parents=True, exist_ok=True)
    nchunks = min(NPROC, max(1, traces // 2))
    per = (traces + nchunks - 1) // nchunks
    jobs = []
    for c in range(nchunks):
        first = c * per
        n = min(per, traces - first)
        if n > 0:
            jobs.append((first, n, workdir / ("C16-%d.trace" % c)))

    def one(job):
        first, n, out = job
        env = {"ASAN_OPTIONS": "detect_leaks=0:abort_on_error=1:handle_abort=1", "UBSAN_OPTIONS": "print_stacktrace=1"}
        p = sh([str(drv), "--seed", str(ctx.seed), "--tier", "q" if ctx.quick else "t", "--first", str(first),
                 "--traces", str(n), "--out", str(out)], env=env, check=False, timeout=7200)
        j = sh([str(judge), str(out)], check=False, timeout=7200)
        if j.returncode != 0:
            raise RuntimeError("hexjudge failed on %s: %s" % (out, j.stderr[-2000:]))
        return out, j.stdout.splitlines(), p.stderr

    with ThreadPoolExecutor(NPROC) as ex:
        return list(ex.map(one, jobs))


def replay_files(ctx, drv, judge, files, workdir):
    """Re-execute stored histories (corpus, --replay) through the driver and judge them."""
    workdir.mkdir(parents=True, exist_ok=True)
    out = []
    env = {"ASAN_OPTIONS": "detect_leaks=0:abort_on_error=1:handle_abort=1", "UBSAN_OPTIONS": "print_stacktrace=1"}
    for i, f in enumerate(files):
        o = workdir / ("replay-%d.trace" % i)
        p = sh([str(drv), "--replay", str(f), "--out", str(o)], env=env, check=False, timeout=1800)
        j = sh([str(judge), str(o)], check=False, timeout=1800)
        if j.returncode != 0:
            raise RuntimeError("hexjudge failed on %s: %s" % (o, j.stderr[-2000:]))
        out.append((o, j.stdout.splitlines(), p.stderr))
    return out


def run_check(ctx):
    res = proof.proof_stage(ctx, PID, gen=[t2_hextables.generate])
    if res["ok"]:
        hits = build.forbidden_tokens(proof.import_closure(["OVM.Hex.Judge"]))
        if hits:
            res["ok"] = False
            res["failures"].append("forbidden tokens: " + "; ".join(hits[:10]))
    drv = build.driver("hex_drv", flavor="asan")
    judge, how = hexjudge()
    workdir = BUILD / "work" / ("%s-%d-%s" % (PID, ctx.seed, ctx.tier))
    shutil.rmtree(workdir, ignore_errors=True)
    traces = ctx.pick(192, 1920)
    if ctx.replay:
        results = replay_files(ctx, drv, judge, [ctx.replay], workdir)
    else:
        corpus = sorted((CORPUS / PID).glob("*.trace")) if (CORPUS / PID).is_dir() else []
        results = replay_files(ctx, drv, judge, corpus, workdir) + gen_and_judge(ctx, drv, judge, traces, workdir)

    stats, hist_ops, hist_modes, drift = (collections.Counter() for _ in range(4))
    oracle_hits, pinched, xfails, crashes, samples = [], [], [], [], []
    for tracefile, lines, stderr in results:
        for l in lines:
            if l.startswith("STAT "):
                _, k, v = l.split()
                stats[k] += int(v)
            elif l.startswith("HIST op "):
                _, _, k, v = l.split()
                hist_ops[k] += int(v)
            elif l.startswith("HIST mode "):
                _, _, k, v = l.split()
                hist_modes[k] += int(v)
            else:
                m = LINE_RE.match(l)
                if not m:
                    continue
                kind_, tr, step, op, rest = m.groups()
                step = int(step)
                if kind_ == "DRIFT":
                    drift[rest] += 1
                elif kind_ == "ORACLE":
                    pm = re.match(r"prop=(\S+) witness=(.*)$", rest)
                    prop, wit = pm.group(1), pm.group(2)
                    if prop == "CRASH":
                        crashes.append((tracefile, tr, step, op, wit, stderr))
                    elif prop == "C16J":
                        pinched.append((tracefile, tr, step, op, wit))
                    else:       # C16 and the bookkeeping oracles (C02/C03) evaluated on hex histories
                        oracle_hits.append((tracefile, tr, step, op, "[%s] %s" % (prop, wit)))
                elif kind_ == "XFAIL":
                    fm = re.match(r"field=(\S+) (.*)$", rest)
                    if relevant_xfail(op, fm.group(1)):
                        xfails.append((tracefile, tr, step, op, fm.group(1), fm.group(2)))
                    else:
                        drift["base-kernel:%s:%s" % (op, fm.group(1))] += 1
        if not samples:
            first = open(tracefile).readline()
            tn = re.search(r"trace=(\d+)", first)
            if tn:
                samples.append([l for l in trace_prefix(tracefile, tn.group(1), 12) if not l.startswith("O retoken")][:10])

    how_to = "# replay: hex_drv --replay <this file> --out t.trace ; hexjudge t.trace\n"
    reported = 0
    seen_sigs = set()
    for (tracefile, tr, step, op, wit) in oracle_hits:
        sig = "%s:%s:%s" % (PID, op, re.sub(r"[0-9]+", "N", wit)[:60])
        if sig in seen_sigs or reported >= 3:
            continue
        seen_sigs.add(sig)
        pre = trace_prefix(tracefile, tr, step)
        text = "\n".join(pre) + "\n# property %s fails on the implementation's own output after the last operation above\n# %s\n%s" % (PID, wit, how_to)
        p = ctx.write_replay("oracle-t%s-s%d.trace" % (tr, step), text)
        ctx.violation(p, "%s: %s" % (op, wit[:300]), found_input=True, sig="%s:%s" % (PID, op))
        reported += 1
    for (tracefile, tr, step, op, wit, stderr) in crashes[:2]:
        pre = trace_prefix(tracefile, tr, step)
        frames = [l.strip() for l in stderr.splitlines() if re.match(r"\s+#\d+ ", l) and "OpenVolumeMesh" in l][:6]
        text = "\n".join(pre) + "\n# the implementation aborted during / right after the last operation above: %s\n# %s\n# %s\n%s" % (
            wit, "\n# ".join(frames), stderr[-600:].replace("\n", "\n# "), how_to)
        p = ctx.write_replay("crash-t%s-s%d.trace" % (tr, step), text)
        ctx.violation(p, "implementation aborted in %s: %s" % (op, wit[:200]), found_input=True, sig="%s:crash:%s" % (PID, op))
        reported += 1
    if PINCHED_IN_SCOPE and pinched:
        tracefile, tr, step, op, wit = pinched[0]
        text = "\n".join(trace_prefix(tracefile, tr, step)) + "\n# %s\n%s" % (wit, how_to)
        p = ctx.write_replay("pinched-t%s-s%d.trace" % (tr, step), text)
        ctx.violation(p, "checked add_cell accepts a hexahedron with identified vertices: " + wit[:200], found_input=True,
                      sig="C16:pinched-accepted")
        reported += 1
    if not reported and xfails:
        tracefile, tr, step, op, field, detail = xfails[0]
        pre = trace_prefix(tracefile, tr, step)
        text = "\n".join(pre) + ("\n# correspondence X_%s no longer checks at the last operation above: field %s\n# %s\n"
                                 "# (%d such disagreements; the property's oracles found no failing input on the implementation's output)\n%s"
                                 % (PID, field, detail[:2000], len(xfails), how_to))
        p = ctx.write_replay("xfail-t%s-s%d.trace" % (tr, step), text)
        ctx.violation(p, "model/implementation disagree on %s after %s" % (field, op), found_input=False)
        reported += 1
    if not reported and not res["ok"]:
        p = ctx.write_replay("proof.txt", "theorems of OVM/Props/%s.lean no longer check (generated tables: lean/OVM/Gen/HexTables.lean):\n%s\n\n%s" % (
            PID, "\n".join(res["failures"]), res["log"][-3000:]))
        ctx.violation(p, "proof obligations of %s no longer check; no failing input found by the oracles on %d steps" % (PID, stats["steps"]),
                      found_input=False)

    def st(prefix):
        return {k[len(prefix):]: int(v) for k, v in sorted(stats.items()) if k.startswith(prefix)}

    cov = proof.proof_coverage(res)
    cov.update({
        "evaluations": int(stats["steps"]),
        "traces_validated_against_impl": int(stats["traces"]),
        "distinct_nontrivial": int(stats["distinct_nontrivial_states"]),
        "states": int(stats["distinct_states"]),
        "transitions": int(stats["steps"]),
        "rule": "structured random histories from harness/hex_drv.cc (seeded by VERIF_SEED): lattice blocks with holes, rings "
                "(closed, optionally twisted sheets), fans around an edge of valence 3..5, outside cells; each hex in a random one "
                "of its 24 orientations, added from 8 vertices or from a halfface list (convention order, permutations, invalid "
                "lists); deletions / garbage collection / swaps / mode switches in between.  A state is the (definitions, flags, "
                "modes) tuple after a step, hashed; non-trivial = at least one cell or a pending deletion",
        "live_cells_judged(HexShape,HexConv,orthogonal layout)": int(stats["cells_checked"]),
        "queries_compared": int(stats["queries"]),
        "queries_by_kind": st("q."),
        "checked_add_cell(halffaces)": {
            "permutations_of_valid_lists": st("addcell.valid."),
            "invalid_lists": st("addcell.invalid."),
            "unchecked_calls": int(stats["addcell.unchecked"]),
        },
        "add_cell(vertices)": st("addcellv."),
        "judgement_call_pinched_hex(in_scope=%s)" % PINCHED_IN_SCOPE: {
            "cells_accepted_with_fewer_than_8_vertices(state observations)": len(pinched),
            "example": pinched[0][4][:300] if pinched else None,
        },
        "op_histogram(! = outside the valid-argument set)": dict(hist_ops),
        "mode_bu_histogram(deferred,fast,vBU,eBU,fBU)": dict(hist_modes),
        "model_drift(informational)": dict(drift),
        "oracle_failures": len(oracle_hits), "correspondence_failures": len(xfails), "crashes": len(crashes),
        "judge": how,
        "samples": samples,
        "explanation": "Lean theorems about the generated hex tables and the hex kernel model (lean/OVM/Hex, lean/OVM/Props/C16.lean) + "
                       "per-step refinement check of the model against the ASan/UBSan build of /repo's current sources and oracle "
                       "evaluation of HexShape / HexConv / vertex pattern / sheet neighbours on the implementation's own dumps",
    })
    ctx.set_evidence("proof" if res["ok"] else "other", cov, assumptions=[
        "Lean 4.33 kernel; axioms as listed in trusted_base",
        "T2 (tools/t2_hextables.py: clang-14 JSON AST + harness/dump_hextables.cc) transcribes the tables faithfully; fails closed",
        "the hand-written model lean/OVM/Hex/Kernel.lean mirrors HexahedralMeshTopologyKernel.cc / HexahedralMeshIterators.cc; tied "
        "to the code only by the correspondence run (bounded by the generator); HexConv for arbitrary accepted cells, HexShape under "
        "immediate deletion / garbage collection and the sheet circulators are judged dynamically, not proved",
        "harness/hex_drv.cc dumps the state through the public API only",
    ])
    return res


def run(ctx):
    return run_check(ctx)

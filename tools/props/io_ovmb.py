"""OVMB half of C06 (round trip, permitted encodings, writer refusal, type detection), C07 (mutants) and
the whole of C18 (truncations, framing substitutions, chunk drop/dup/reorder, read and write faults).

    run_c06(ctx) -> coverage dict     run_c07(ctx) -> coverage dict     run_c18(ctx) -> coverage dict

Pipeline (all stages sharded over the cores, every read in a forked child of harness/io_drv.cc built with
ASan+UBSan+_GLIBCXX_ASSERTIONS from /repo's current tree):
  gen      io_drv gen      meshes of all three kinds -> real writer -> CASE records (dump + bytes)
  cases    ovmbjudge cases (i) model decode of the C++ bytes = dumped mesh, (ii) model encode = C++ bytes,
                           writer refusal of pending deletions, topology type detection; emits J lines: the
                           original bytes for every reader configuration + k alternative permitted encodings
  read     io_drv read     the J lines through the real reader
  xcmp     ovmbjudge xcmp  (iii) every read result: same mesh as the source, same as the model
  mutate   io_drv mutate   byte / field mutants through the real reader           (C07)
  faults   io_drv faults / wfaults   truncations, substitutions, chunk surgery, failing streams   (C18)
  mut      ovmbjudge mut   result class, mesh and WFMesh against the model; truncation-accepted oracle

A FAIL kind in PROP_KINDS is the property's own oracle failing on the implementation's output (a concrete
failing input: found_input=True); the other kinds are model/implementation disagreements (reported as
no-failing-input-found after the directed runs above found no oracle failure for them).
"""
import re
import time
from pathlib import Path

import ovmb_common as oc
import t4_ovmb_consts
from vlib import build, proof
from vlib.common import NPROC, log

# oracle failures on the implementation's own output
PROP_KINDS = {
    "C06": {"pending-deletion-not-refused", "writer-failed", "decode-vs-source", "not-the-source-mesh",
            "valid-encoding-rejected", "topo-type", "reader-crash", "reader-hang", "reader-exception",
            "ok-but-invalid-mesh", "ok-but-not-WF", "ok-without-dump", "source-not-wf"},
    "C07": {"reader-crash", "reader-hang", "reader-exception", "ok-but-invalid-mesh", "ok-but-not-WF",
            "huge-mesh-from-small-header", "ok-without-dump", "unexpected-alloc-failure"},
    "C18": {"truncation-accepted", "write-fault", "write-fault-bytes", "write-fault-run", "reader-crash", "reader-hang",
            "reader-exception", "ok-but-invalid-mesh", "ok-but-not-WF", "accepts-what-model-rejects"},
}


def t4():
    t4_ovmb_consts.generate()


def get_judge(ctx, pid):
    """the compiled judge; if the model no longer compiles (e.g. a regenerated constant breaks a definition) that is a
    broken obligation, reported as such instead of a machinery failure"""
    from vlib.report import CheckBroken
    try:
        return oc.judge_exe()
    except RuntimeError as e:
        raise CheckBroken("%s OVMB: the Lean model / judge no longer builds against the regenerated constants" % pid, str(e)[-3000:])


def proof_part(ctx, pid):
    res = proof.proof_stage(ctx, pid, gen=[t4], extra_targets=("ovmbjudge",))
    if res["ok"]:
        hits = build.forbidden_tokens(proof.import_closure(["OVM.IO.Driver"]))
        if hits:
            res["ok"] = False
            res["failures"].append("forbidden tokens: " + "; ".join(hits[:10]))
    if not res["ok"]:
        p = ctx.write_replay("ovmb-proof.txt", "obligation: lake build / audit of OVM.Props.%s no longer checks\n\n%s\n"
                             % (pid, "\n".join(res["failures"])))
        ctx.violation(p, "%s OVMB: proof obligation fails: %s" % (pid, "; ".join(res["failures"])[:300]),
                      found_input=False, sig="ovmb:proof")
    return res


def confirm_hangs(drv, fails, seed):
    """a watchdog hit in the sharded run may be load (ASan + many properties + a busy machine): the read is repeated
    alone with a 120 s watchdog and only counts as a hang if it still does not finish"""
    out = []
    for f in fails:
        if f["kind"] != "reader-hang":
            out.append(f)
            continue
        m = re.search(r"kind ([pth]), topology_check (true|false), fault (none|\(?some (\d+)\)?)", f["detail"])
        mk, tc, fa = ("p", 1, -1) if not m else (m.group(1), 1 if m.group(2) == "true" else 0, int(m.group(4)) if m.group(4) else -1)
        data = bytes.fromhex(f["hex"]) if f["hex"] not in ("", "-") else b""
        try:
            cls, _ = oc.read_one(drv, mk, tc, 1, data, fa, 0, seed, timeout_ms=120000)
        except Exception:
            cls = "hang"
        if cls == "hang":
            out.append(f)
        else:
            log("[io] watchdog hit not confirmed in isolation (%s): %s" % (cls, f["id"]))
    return out


def report(ctx, pid, drv, fails, label):
    """property-level failures first (concrete inputs), then correspondence-level ones"""
    fails = confirm_hangs(drv, fails, ctx.seed)
    def is_prop(f):
        if f["kind"] in PROP_KINDS[pid]:
            return True
        # C06: the real reader refuses the bytes the real writer has just produced, into a configuration that takes the mesh
        # (the model accepts): the round trip itself fails on a concrete file, whatever the model says
        return pid == "C06" and f["kind"] == "rejects-what-model-accepts" and "[original" in f.get("detail", "")
    prop = [f for f in fails if is_prop(f)]
    corr = [f for f in fails if not is_prop(f)]
    n = _report(ctx, drv, prop, label, True)
    n += _report(ctx, drv, corr, label + "-corr", False)
    return {"property_level": len(prop), "correspondence_level": len(corr), "reported": n}


def _report(ctx, drv, fails, label, found):
    before = len(ctx.violations)
    oc.report_fails(ctx, drv, fails, label)
    # report_fails marks everything as a concrete input; correspondence-level records are not
    for i in range(before, len(ctx.violations)):
        path, what, _f, sig = ctx.violations[i]
        ctx.violations[i] = (path, what, found, sig)
    return len(ctx.violations) - before


def rebalance(files, wd, tag, n):
    """records (an `X`/`WF` line with the lines that follow it) of all files, dealt round-robin into n files:
    the cost of judging a record depends on its case, and cases are not spread evenly over the driver shards"""
    outs = [wd / ("%s.%d.txt" % (tag, i)) for i in range(n)]
    hs = [open(o, "w") for o in outs]
    k = -1
    for f in files:
        with open(f) as h:
            for l in h:
                if l.startswith("FILE "):
                    continue
                if l.startswith("X ") or l.startswith("WF ") or k < 0:
                    k += 1
                hs[k % n].write(l)
    for h in hs:
        h.close()
    return outs


def rebalance_by_case(files, cases, wd, tag, n):
    """records grouped by the case they refer to (`X <rec> <case> …` / `WF <case> …`), groups dealt largest-first onto the
    lightest shard, a group larger than a fair share split over several shards; every shard gets a case file holding ONLY
    the cases its records name.  (The judge keeps every case of its case file in memory: with the union of all cases each
    of the 16 judges of a thorough run needed 7-10 GB and the kernel killed them.)  -> (record files, case files)"""
    groups, order = {}, []
    for f in files:
        cur = None
        with open(f) as h:
            for l in h:
                if l.startswith("FILE "):
                    continue
                if l.startswith("X ") or l.startswith("WF "):
                    w = l.split(" ", 3)
                    cid = w[2] if l.startswith("X ") else w[1]
                    cur = [l]
                    if cid not in groups:
                        groups[cid] = []; order.append(cid)
                    groups[cid].append(cur)
                elif cur is not None:
                    cur.append(l)
    size = {c: sum(len(x) for r in rs for x in r) for c, rs in groups.items()}
    total = sum(size.values()) or 1
    fair = total / n
    parts = []      # (bytes, case id, records)
    for c in order:
        k = max(1, min(n, int(size[c] / (1.25 * fair)) + 1)) if size[c] > 1.25 * fair else 1
        rs = groups[c]
        for j in range(k):
            chunk = rs[j::k]
            if chunk:
                parts.append((sum(len(x) for r in chunk for x in r), c, chunk))
    parts.sort(key=lambda t: -t[0])
    load = [0] * n
    dealt = [[] for _ in range(n)]
    for b, c, chunk in parts:
        i = min(range(n), key=lambda j: (load[j], j))
        load[i] += b
        dealt[i].append((c, chunk))
    blocks = {}
    for f in cases:
        cur, cid = [], None
        with open(f) as h:
            for l in h:
                if l.startswith("CASE "):
                    if cid is not None:
                        blocks[cid] = cur
                    cur, cid = [], l.split()[1]
                cur.append(l)
        if cid is not None:
            blocks[cid] = cur
    recs = [wd / ("%s.%d.txt" % (tag, i)) for i in range(n)]
    cfs = [wd / ("%s.cases.%d.txt" % (tag, i)) for i in range(n)]
    for i in range(n):
        need = []
        with open(recs[i], "w") as h:
            for c, chunk in dealt[i]:
                if c not in need:
                    need.append(c)
                for r in chunk:
                    h.writelines(r)
        with open(cfs[i], "w") as h:
            for c in need:
                h.writelines(blocks.get(c, []))
    return recs, cfs


def all_cases(cases, wd):
    allc = wd / "cases.all.txt"
    with open(allc, "w") as f:
        for c in cases:
            f.write(Path(c).read_text())
    return allc


def shard_files(wd, pattern, n):
    return [wd / (pattern % i) for i in range(n)]


def gen(ctx, drv, wd, n):
    raw = oc.run_shards(drv, lambda i: ["gen", ctx.tier, i, n], n, lambda i: wd / ("cases.raw.%d.txt" % i), ctx.seed)
    return balance_cases(raw, wd, n)


def balance_cases(files, wd, n):
    """the driver deals case k to shard k mod n, which puts all boundary-size meshes (65535 vertices, 32767 faces ...) of the
    three mesh kinds on one shard; every later stage costs time proportional to the bytes of a case, so the CASE..END blocks
    are re-dealt largest first onto the currently lightest shard (deterministic: ties by case order)"""
    blocks = []
    for f in files:
        cur = []
        with open(f) as h:
            for l in h:
                if l.startswith("CASE ") and cur:
                    blocks.append(cur); cur = []
                cur.append(l)
        if cur:
            blocks.append(cur)
        Path(f).unlink()
    order = sorted(range(len(blocks)), key=lambda k: (-sum(len(l) for l in blocks[k]), k))
    load = [0] * n
    dealt = [[] for _ in range(n)]
    for k in order:
        i = min(range(n), key=lambda j: (load[j], j))
        load[i] += sum(len(l) for l in blocks[k])
        dealt[i].append(k)
    outs = [wd / ("cases.%d.txt" % i) for i in range(n)]
    for i, o in enumerate(outs):
        with open(o, "w") as h:
            for k in sorted(dealt[i]):
                h.writelines(blocks[k])
    return outs


def count_cases(files):
    k = 0
    for f in files:
        with open(f) as h:
            k += sum(1 for l in h if l.startswith("CASE "))
    return k


def hist_of(stats, prefix="hist "):
    return {k[len(prefix):]: v for k, v in sorted(stats.items()) if k.startswith(prefix)}


def plain(stats):
    return {k: v for k, v in sorted(stats.items()) if not k.startswith("hist ")}


# ------------------------------------------------------------------------------------------ C06

def run_c06(ctx):
    t0 = time.time()
    res = proof_part(ctx, "C06")
    drv = oc.driver("io_drv")
    judge = get_judge(ctx, "C06")
    wd = oc.workdir(ctx, "c06")
    n = min(NPROC, 16)
    cases = gen(ctx, drv, wd, n)
    k_alt = ctx.pick(4, 12)
    jobs = shard_files(wd, "jobs.%d.txt", n)
    r1 = oc.judge_shards(judge, lambda i: ["cases", cases[i], k_alt, ctx.seed + i, jobs[i]], n)
    results = oc.run_shards(drv, lambda i: ["read", jobs[i]], n, lambda i: wd / ("res.%d.txt" % i), ctx.seed)
    r2 = oc.judge_shards(judge, lambda i: ["xcmp", cases[i], jobs[i], results[i]], n)
    rep = report(ctx, "C06", drv, r1["fails"] + r2["fails"], "ovmb-rt")
    cov = proof.proof_coverage(res)
    cov.update({
        "evaluations": r2["stats"].get("reads", 0) + r1["stats"].get("cases", 0),
        "meshes_written_by_the_real_writer": count_cases(cases),
        "judge_cases": plain(r1["stats"]),
        "judge_reads": plain(r2["stats"]),
        "reads_by_origin_and_result": hist_of(r2["stats"]),
        "alternative_encodings_per_mesh": k_alt,
        "alternative_layout_samples": r1["samples"][:6],
        "failures": rep,
        "traces_validated_against_impl": r2["stats"].get("reads", 0),
        "rule": "per mesh (poly/tet/hex, sizes across the 255/256 and 65535/65536 boundaries in the thorough tier, all "
                "registered codecs x 7 entity kinds): model decode(C++ bytes) = dump; model encode = C++ bytes; C++ read-back under "
                "every (type, topology_check, bottom_up) = source mesh = model; k alternative permitted encodings (split spans, "
                "wider encodings, handle offsets, skippable chunks) read by C++ = source mesh; pending deletions refused; type detection",
        "wall_s": round(time.time() - t0, 1),
    })
    return cov


# ------------------------------------------------------------------------------------------ C07

def run_c07(ctx):
    t0 = time.time()
    res = proof_part(ctx, "C07")
    drv = oc.driver("io_drv")
    judge = get_judge(ctx, "C07")
    wd = oc.workdir(ctx, "c07")
    n = min(NPROC, 16)
    cases = gen(ctx, drv, wd, n)
    per = ctx.pick(25, 100)      # thorough: 400 per file meant > 2 h of judging (15 GB of mutants)
    muts = oc.run_shards(drv, lambda i: ["mutate", cases[i], per, 0, 1], n, lambda i: wd / ("mut.%d.txt" % i), ctx.seed, timeout=14400)
    recs, rcs = rebalance_by_case(muts, cases, wd, "mutrec", n)
    for f in muts:
        Path(f).unlink()            # the records live on in mutrec.*: the thorough tier writes ~15 GB here
    r = oc.judge_shards(judge, lambda i: ["mut", rcs[i], recs[i]], n)
    rep = report(ctx, "C07", drv, r["fails"], "ovmb-mut")
    st = r["stats"]
    cov = proof.proof_coverage(res)
    total = sum(v for k, v in st.items() if k.startswith("hist "))
    cov.update({
        "evaluations": total,
        "files_mutated": count_cases(cases),
        "mutants_per_file": per,
        "judge": plain(st),
        "mutants_by_kind_and_result": hist_of(st),
        "failures": rep,
        "traces_validated_against_impl": total,
        "rule": "per mutant (byte flips/inserts/deletes/duplications/splices, every header / chunk header / sub-header field "
                "replaced by boundary values, pairs of fields): the real reader, in a forked child with watchdog, must end with an "
                "error or Ok; Ok => dumped mesh satisfies WFMesh and equals the model's; result class = model's",
        "wall_s": round(time.time() - t0, 1),
    })
    return cov


# ------------------------------------------------------------------------------------------ C18

def run_c18(ctx):
    t0 = time.time()
    res = proof_part(ctx, "C18")
    drv = oc.driver("io_drv")
    judge = get_judge(ctx, "C18")
    wd = oc.workdir(ctx, "c18")
    n = min(NPROC, 16)
    cases = gen(ctx, drv, wd, n)
    flt = oc.run_shards(drv, lambda i: ["faults", cases[i], ctx.tier, 0, 1], n, lambda i: wd / ("flt.%d.txt" % i), ctx.seed, timeout=14400)
    # write faults rebuild the meshes themselves (shard i of n); they are judged against the union of the cases
    wfl = oc.run_shards(drv, lambda i: ["wfaults", ctx.tier, i, n], n, lambda i: wd / ("wflt.%d.txt" % i), ctx.seed, timeout=14400)
    t1 = time.time()
    recs, rcs = rebalance_by_case(list(flt) + list(wfl), cases, wd, "fltrec", n)
    for f in list(flt) + list(wfl):
        Path(f).unlink()
    r = oc.judge_shards(judge, lambda i: ["mut", rcs[i], recs[i]], n)
    log("[c18] driver %.0fs, judge %.0fs" % (t1 - t0, time.time() - t1))
    rep = report(ctx, "C18", drv, r["fails"], "ovmb-fault")
    st = r["stats"]
    h = hist_of(st)
    total = sum(h.values())
    cov = proof.proof_coverage(res)
    cov.update({
        "evaluations": total,
        "valid_files": count_cases(cases),
        "judge": plain(st),
        "faults_by_kind_and_result": h,
        "truncations": sum(v for k, v in h.items() if k.startswith("trunc")),
        "read_faults": sum(v for k, v in h.items() if k.startswith("readfault")),
        "write_faults": sum(v for k, v in h.items() if k.startswith("writefault")),
        "failures": rep,
        "traces_validated_against_impl": total,
        "rule": "per valid file: every truncation length (all lengths for files <= 1200 bytes, else chunk boundaries +-, head, tail "
                "and a stride), every byte of the file header / chunk headers / sub-headers substituted by boundary values, chunks "
                "dropped / duplicated / reordered, the input stream failing from position p, the output stream failing after p "
                "bytes: result must not be Ok (truncation, read fault, write fault) and must equal the model's class otherwise",
        "wall_s": round(time.time() - t0, 1),
    })
    return cov


# ------------------------------------------------------------------------------------------ replay

def replay(ctx, pid):
    """./check Cxx --replay <file>: the bytes of a replay file written by report_fails (or a raw .ovmb file) through the
    real reader in every configuration, judged against the model and the oracles like any mutant."""
    res = proof_part(ctx, pid)
    drv = oc.driver("io_drv")
    judge = get_judge(ctx, pid)
    wd = oc.workdir(ctx, "replay-" + pid.lower())
    raw = Path(ctx.replay).read_bytes()
    data, fa = None, -1
    try:
        txt = raw.decode("ascii")
        m = re.search(r"^bytes \(\d+\): ([0-9a-f]*)\s*$", txt, re.M)
        if m:
            data = bytes.fromhex(m.group(1))
        m2 = re.search(r"read-fault position (-?\d+)", txt)
        if m2:
            fa = int(m2.group(1))
    except (UnicodeDecodeError, ValueError):
        pass
    if data is None:
        data = raw
    cases = wd / "cases.txt"
    cases.write_text("CASE r p replay gc=0\nW Ok\nB %s\nEND\n" % (data.hex() or "-"))
    cfgs = [(mk, tc, bu) for mk in "pth" for tc in (0, 1) for bu in (0, 1)]
    jobs = wd / "jobs.txt"
    jobs.write_text("".join("J r.%d %s %d %d %d 0 %s\n" % (i, mk, tc, bu, fa, data.hex() or "-") for i, (mk, tc, bu) in enumerate(cfgs)))
    out = oc.run_shards(drv, lambda i: ["read", jobs], 1, lambda i: wd / "res.txt", ctx.seed)[0]
    recs = wd / "recs.txt"
    with open(recs, "w") as f:
        for l in open(out):
            if l.startswith("R "):
                i = int(l.split()[1].split(".")[1])
                mk, tc, bu = cfgs[i]
                f.write("X r.%d r %s %d %d %d 0 replay -\n" % (i, mk, tc, bu, fa))
            f.write(l)
    r = oc.run_judge(judge, ["mut", cases, recs])
    rep = report(ctx, pid, drv, r["fails"], "ovmb-replay")
    cov = proof.proof_coverage(res)
    cov.update({"evaluations": len(cfgs), "judge": plain(r["stats"]), "results": hist_of(r["stats"]), "failures": rep,
                "explanation": "replay of %s (%d bytes) through the real reader in %d configurations, judged against the model" % (ctx.replay, len(data), len(cfgs))})
    return cov

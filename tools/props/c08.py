"""C08 — opposite half-entities are exact mirror images."""
import sys
from pathlib import Path

sys.path.insert(0, str(Path(__file__).resolve().parents[1]))
import t1_handles  # noqa: E402
from props.kernel_check import run_kernel  # noqa: E402


def run(ctx):
    run_kernel(ctx, "C08", [
        dict(profile="c10", kind="poly", traces=(48, 600), ops=30, queries=0),
    ], accept_oracle={"C10"}, gen=[t1_handles.generate], level_when_proved="other")

"""C14 — Property registry: sharing by name, visibility, persistence and lifetime safety.
Proof stage: lean/OVM/Props/C14.lean (registry invariants by induction over op sequences,
tracker/tracked pointer protocol).  Correspondence + oracles: tools/registry_check.py."""
import registry_check


def run(ctx):
    registry_check.run_check(ctx, "C14")

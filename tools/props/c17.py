"""C17 — index swaps are pure relabelings."""
from props.kernel_check import run_kernel


def run(ctx):
    run_kernel(ctx, "C17", [
        dict(profile="c17", kind="poly", traces=(128, 2000), ops=40, queries=0),
        dict(profile="c17", kind="tet", traces=(32, 400), ops=40, queries=0),
    ], level_when_proved="other")

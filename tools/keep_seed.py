#!/usr/bin/env python3
"""usage: tools/keep_seed.py <Cxx> <worktree-suffix> <round> "<needs>" "<checks_run>" "<result>"
Copies a confirmed seeded change from its scratch worktree to /verif/seeded/<Cxx>-r<round>/."""
import json
import shutil
import subprocess
import sys
from pathlib import Path

pid, sfx, rnd, needs, checks, result = sys.argv[1:7]
W = Path("/var/tmp/ovm-mut-%s%s" % (pid, sfx))
D = Path("/verif/seeded/%s-r%s" % (pid, rnd))
D.mkdir(parents=True, exist_ok=True)
shutil.copy(W / "MUT" / "patch.diff", D / "patch.diff")
shutil.copy(W / "MUT" / "demo.cc", D / "demo.cc")
meta_txt = (W / "MUT" / "meta.txt").read_text() if (W / "MUT" / "meta.txt").exists() else ""
conf = subprocess.run(["bash", "-c", "grep -h '^%s%s:' /var/tmp/seedrun*.log | tail -1" % (pid, sfx)], capture_output=True, text=True).stdout.strip()
meta = {
    "id": "%s-r%s" % (pid, rnd),
    "breaks_property": pid,
    "change": meta_txt.strip().splitlines()[0][:400] if meta_txt.strip() else "",
    "needs_to_manifest": needs,
    "author_notes": meta_txt,
    "confirmed_by_lead": "tools/confirm_seed.sh %s %s: %s" % (pid, sfx, conf),
    "checks_run": checks,
    "result": result,
    "author": "independent sub-agent given only the property text and a scratch worktree",
}
(D / "meta.json").write_text(json.dumps(meta, indent=1) + "\n")
print("kept", D)

#!/usr/bin/env python3
"""T2: the tables of the hexahedral kernel, regenerated from /repo's *current* sources.

Two sources of truth, both fail closed:
  * harness/dump_hextables.cc compiled against the current headers: the C++ compiler evaluates
    the public static helpers (orientation constants, `opposite_orientation`,
    `orthogonal_orientation`) over their whole argument space 0..INVALID;
  * clang++-14 JSON AST of Mesh/HexahedralMeshTopologyKernel.cc for what has no public face:
    the `orderTop` / `orderBot` arrays and the offset if-chains of `check_halfface_ordering`, the
    `orderTop` array of the re-ordering path of `add_cell(halffaces)`, and the vertex tables of
    `add_cell(vertices)` (which `_vertices[i]` go into which face, in which order the faces are
    looked up / created / stored).  Anything outside the small statement grammar recognised here
    raises (the check fails closed).

Output: lean/OVM/Gen/HexTables.lean
"""
import json
import subprocess
import sys
from pathlib import Path

sys.path.insert(0, str(Path(__file__).resolve().parent))
from vlib import build  # noqa: E402
from vlib.common import BUILD, HARNESS, LEAN, REPO, flock, sha, write_if_changed  # noqa: E402

CC = REPO / "src" / "OpenVolumeMesh" / "Mesh" / "HexahedralMeshTopologyKernel.cc"
HH = REPO / "src" / "OpenVolumeMesh" / "Mesh" / "HexahedralMeshTopologyKernel.hh"
CLS = "HexahedralMeshTopologyKernel"


class TranslateError(Exception):
    pass


# ------------------------------------------------------------------------------ dump program
def dump_tables():
    src = HARNESS / "dump_hextables.cc"
    flags = ["-std=c++17", "-O0", "-DNDEBUG", "-w"] + build.include_flags()
    key = sha(build.tree_hash(), src.read_bytes(), " ".join(flags))
    exe = BUILD / "t2" / ("dump_hextables-" + key)
    with flock("t2-dump"):
        if not exe.exists():
            exe.parent.mkdir(parents=True, exist_ok=True)
            for old in exe.parent.glob("dump_hextables-*"):
                old.unlink()
            tmp = exe.with_suffix(".tmp")
            p = subprocess.run(["g++"] + flags + [str(src), "-o", str(tmp)], stdout=subprocess.PIPE, stderr=subprocess.PIPE, text=True)
            if p.returncode != 0:
                raise TranslateError("dump_hextables does not compile against the current headers: " + p.stderr[-1500:])
            tmp.rename(exe)
    p = subprocess.run([str(exe)], stdout=subprocess.PIPE, stderr=subprocess.PIPE, text=True, timeout=60)
    if p.returncode != 0:
        raise TranslateError("dump_hextables failed: " + p.stderr[-500:])
    consts, opp, orth = {}, {}, {}
    for line in p.stdout.splitlines():
        t = line.split()
        if not t:
            continue
        if t[0] == "const":
            consts[t[1]] = int(t[2])
        elif t[0] == "opp":
            opp[int(t[1])] = int(t[2])
        elif t[0] == "orth":
            orth[(int(t[1]), int(t[2]))] = int(t[3])
    names = ["XF", "XB", "YF", "YB", "ZF", "ZB", "INVALID"]
    if sorted(consts) != sorted(names):
        raise TranslateError("orientation constants missing: %s" % sorted(consts))
    n = consts["INVALID"]
    if n > 16 or len(opp) != n + 1 or len(orth) != (n + 1) ** 2:
        raise TranslateError("unexpected table sizes (INVALID=%d, %d opp, %d orth entries)" % (n, len(opp), len(orth)))
    return consts, [opp[d] for d in range(n + 1)], [[orth[(a, b)] for b in range(n + 1)] for a in range(n + 1)]


# ------------------------------------------------------------------------------ AST helpers
def ast_docs():
    cmd = ["clang++-14", "-std=gnu++17", "-fsyntax-only", "-DNDEBUG", "-w"] + build.include_flags() + [
        "-Xclang", "-ast-dump=json", "-Xclang", "-ast-dump-filter=" + CLS, str(CC)]
    p = subprocess.run(cmd, stdout=subprocess.PIPE, stderr=subprocess.PIPE, text=True)
    if p.returncode != 0:
        raise TranslateError("clang failed: " + p.stderr[-2000:])
    s, dec, i, docs = p.stdout, json.JSONDecoder(), 0, []
    while i < len(s):
        while i < len(s) and s[i].isspace():
            i += 1
        if i >= len(s):
            break
        d, i = dec.raw_decode(s, i)
        docs.append(d)
    return docs


PASS = {"ParenExpr", "ImplicitCastExpr", "CStyleCastExpr", "CXXStaticCastExpr", "CXXFunctionalCastExpr",
        "CXXConstructExpr", "MaterializeTemporaryExpr", "CXXBindTemporaryExpr", "ExprWithCleanups", "ConstantExpr"}


def kids(n):
    return [c for c in n.get("inner", []) if c.get("kind") != "FullComment"]


def strip(n):
    while n.get("kind") in PASS and len(kids(n)) == 1:
        n = kids(n)[0]
    return n


def ref(n):
    n = strip(n)
    if n.get("kind") == "DeclRefExpr":
        return n["referencedDecl"]["name"]
    return None


def intlit(n):
    n = strip(n)
    if n.get("kind") == "IntegerLiteral":
        return int(n["value"])
    if n.get("kind") == "UnaryOperator" and n.get("opcode") == "-":
        v = intlit(kids(n)[0])
        return None if v is None else -v
    return None


def subscript(n, base):
    """`base[<int literal>]` through std::vector::operator[] → the literal, else None"""
    n = strip(n)
    if n.get("kind") == "CXXOperatorCallExpr":
        cs = kids(n)
        if len(cs) == 3 and ref(cs[0]) == "operator[]" and ref(cs[1]) == base:
            return intlit(cs[2])
    return None


def opcall(n, op):
    """operands of an overloaded binary operator call `a <op> b`, else None"""
    n = strip(n)
    if n.get("kind") == "CXXOperatorCallExpr":
        cs = kids(n)
        if len(cs) == 3 and ref(cs[0]) == op:
            return cs[1], cs[2]
    return None


def member_call(n):
    """(method name, object expr, args) of `obj.m(args)` / `this->m(args)` / `Base::m(args)`"""
    n = strip(n)
    if n.get("kind") != "CXXMemberCallExpr":
        return None
    cs = kids(n)
    callee = cs[0]
    if callee.get("kind") != "MemberExpr":
        return None
    obj = kids(callee)[0] if kids(callee) else None
    return callee.get("name"), obj, cs[1:]


def any_call(n):
    """(function name, args) of a member call or of a call of a static / free function"""
    mc = member_call(n)
    if mc:
        return mc[0], mc[2]
    n = strip(n)
    if n.get("kind") == "CallExpr":
        cs = kids(n)
        nm = ref(cs[0])
        if nm:
            return nm, cs[1:]
    return None


def walk(n):
    yield n
    for c in kids(n):
        yield from walk(c)


def method(docs, name, param_hint):
    for d in docs:
        if d.get("kind") == "CXXMethodDecl" and d.get("name") == name:
            body = [c for c in kids(d) if c.get("kind") == "CompoundStmt"]
            params = [c for c in kids(d) if c.get("kind") == "ParmVarDecl"]
            if body and params and param_hint in params[0]["type"]["qualType"]:
                return body[0], params
    raise TranslateError("no definition of %s(%s…) found" % (name, param_hint))


def int_arrays(body, name):
    out = []
    for n in walk(body):
        if n.get("kind") == "VarDecl" and n.get("name") == name:
            init = [c for c in kids(n) if c.get("kind") == "InitListExpr"]
            if len(init) != 1:
                raise TranslateError("%s is not initialised by a brace list" % name)
            vals = [intlit(c) for c in kids(init[0])]
            if any(v is None for v in vals):
                raise TranslateError("%s has a non-literal entry" % name)
            out.append(vals)
    return out


# ------------------------------------------------------------------------------ check_halfface_ordering
def offset_chain(body, var):
    """`if(ahfh == _hfs[K]) var = V; else if …` → [(K, V), …] in source order"""
    chains = []
    for n in walk(body):
        if n.get("kind") != "IfStmt":
            continue
        cs = kids(n)
        cond = strip(cs[0])
        if not (cond.get("kind") == "BinaryOperator" and cond.get("opcode") == "==" and ref(kids(cond)[0]) == var
                and intlit(kids(cond)[1]) == -1):
            continue
        then = cs[1]
        stm = kids(then)
        if then.get("kind") == "CompoundStmt" and len(stm) == 1 and stm[0].get("kind") == "ReturnStmt":
            continue        # the `if(offset == -1) return false;` after the loop
        if then.get("kind") != "CompoundStmt" or len(stm) != 1 or stm[0].get("kind") != "IfStmt":
            raise TranslateError("unexpected shape of the `%s == -1` branch" % var)
        chain, cur = [], stm[0]
        while cur is not None:
            c = kids(cur)
            eq = opcall(c[0], "operator==")
            if eq is None or ref(eq[0]) != "ahfh":
                raise TranslateError("offset chain of %s: condition is not `ahfh == _hfs[k]`" % var)
            kidx = subscript(eq[1], "_hfs")
            asg = strip(c[1])
            if asg.get("kind") == "CompoundStmt" and len(kids(asg)) == 1:
                asg = strip(kids(asg)[0])
            if not (asg.get("kind") == "BinaryOperator" and asg.get("opcode") == "=" and ref(kids(asg)[0]) == var):
                raise TranslateError("offset chain of %s: branch is not an assignment to it" % var)
            v = intlit(kids(asg)[1])
            if kidx is None or v is None:
                raise TranslateError("offset chain of %s: non-literal index or value" % var)
            chain.append((kidx, v))
            if len(c) == 2:
                cur = None
            elif len(c) == 3 and c[2].get("kind") == "IfStmt":
                cur = c[2]
            else:
                raise TranslateError("offset chain of %s: unexpected else branch" % var)
        chains.append(chain)
    if len(chains) != 1:
        raise TranslateError("expected exactly one `%s == -1` chain, found %d" % (var, len(chains)))
    return chains[0]


def hfs_pos(body, var):
    for n in walk(body):
        if n.get("kind") == "VarDecl" and n.get("name") == var:
            for c in kids(n):
                k = subscript(c, "_hfs")
                if k is not None:
                    return k
    raise TranslateError("%s is not initialised from _hfs[<literal>]" % var)


# ------------------------------------------------------------------------------ add_cell(vertices)
def cellv_tables(body):
    """Linearise the statements that build the six faces.  Events, in source order:
       push i | clear | find hfK | addface (inside `if(!hfK.is_valid())`) | assign hfK side | cellpush hfK"""
    vs, find, add, order, pending = [], {}, [], [], None
    guard = [None]

    def stmt(n):
        nonlocal vs, pending
        k = n.get("kind")
        if k == "CompoundStmt":
            for c in kids(n):
                stmt(c)
            return
        if k == "IfStmt":
            cs = kids(n)
            cond = strip(cs[0])
            g = None
            if cond.get("kind") == "UnaryOperator" and cond.get("opcode") == "!":
                mc = member_call(kids(cond)[0])
                if mc and mc[0] == "is_valid" and ref(mc[1]) is not None:
                    g = ref(mc[1])
            old = guard[0]
            guard[0] = g
            # only the `then` branch of a guard matters; other ifs (size / incidence / topology
            # check) are scanned so that a face construction hidden in them is not missed
            for c in cs[1:]:
                stmt(c)
            guard[0] = old
            return
        if k == "DeclStmt":
            for v in kids(n):
                for c in kids(v):
                    mc = member_call(c)
                    if mc and mc[0] == "add_face":
                        if guard[0] is None:
                            raise TranslateError("add_face outside an `if(!hf.is_valid())` guard")
                        if len(mc[2]) != 1 or ref(mc[2][0]) != "vs":
                            raise TranslateError("add_face is not called on `vs`")
                        pending = (v.get("name"), list(vs))
            return
        e = strip(n)
        mc = member_call(e)
        if mc:
            name, obj, args = mc
            if name == "push_back" and ref(obj) == "vs":
                i = subscript(args[0], "_vertices")
                if i is None:
                    raise TranslateError("vs.push_back of something that is not _vertices[<literal>]")
                vs.append(i)
                return
            if name == "clear" and ref(obj) == "vs":
                vs = []
                return
            if name == "push_back" and ref(obj) == "hfs":
                r = ref(args[0])
                if r is None:
                    raise TranslateError("hfs.push_back of a non-variable")
                order.append(r)
                return
        asg = opcall(e, "operator=")
        if asg:
            tgt = ref(asg[0])
            rhs = member_call(asg[1])
            if rhs and rhs[0] == "find_halfface_extensive":
                if len(rhs[2]) != 1 or ref(rhs[2][0]) != "vs":
                    raise TranslateError("find_halfface_extensive is not called on `vs`")
                if tgt in find:
                    raise TranslateError("%s looked up twice" % tgt)
                find[tgt] = list(vs)
                return
            rhs2 = any_call(asg[1])
            if rhs2 and rhs2[0] == "halfface_handle":
                if pending is None or guard[0] != tgt or len(rhs2[1]) != 2 or ref(rhs2[1][0]) != pending[0]:
                    raise TranslateError("halfface_handle(...) assignment does not follow the guarded add_face")
                side = intlit(rhs2[1][1])
                if side not in (0, 1):
                    raise TranslateError("halfface_handle side is not a literal 0/1")
                add.append((tgt, pending[1], side))
                pending = None
                return
        # anything else must not touch vs / hfs / the halfface variables
        for x in walk(n):
            if x.get("kind") == "DeclRefExpr" and x["referencedDecl"]["name"] == "vs":
                raise TranslateError("unrecognised statement uses `vs`")

    stmt(body)
    if pending is not None:
        raise TranslateError("add_face result never turned into a halfface")
    names = list(find)
    if len(names) != 6 or sorted(order) != sorted(names) or sorted(a[0] for a in add) != sorted(names):
        raise TranslateError("add_cell(vertices): expected six looked-up / created / stored halffaces, got %s / %s / %s"
                             % (names, [a[0] for a in add], order))
    for lst in list(find.values()) + [a[1] for a in add]:
        if len(lst) != 4 or any(not (0 <= i < 8) for i in lst):
            raise TranslateError("face vertex table %s is not four indices below 8" % lst)
    idx = {nm: i for i, nm in enumerate(names)}
    return ([find[nm] for nm in names], [(idx[a[0]], a[1], a[2]) for a in add], [idx[o] for o in order])


# ------------------------------------------------------------------------------ output
def lean_list(l):
    return "[" + ", ".join(str(x) for x in l) + "]"


def translate():
    consts, opp, orth = dump_tables()
    docs = ast_docs()
    chk, _ = method(docs, "check_halfface_ordering", "HalfFaceHandle")
    addc, _ = method(docs, "add_cell", "HalfFaceHandle")
    addv, _ = method(docs, "add_cell", "VertexHandle")
    top_c, bot_c = int_arrays(chk, "orderTop"), int_arrays(chk, "orderBot")
    top_a = int_arrays(addc, "orderTop")
    if len(top_c) != 1 or len(bot_c) != 1 or len(top_a) != 1:
        raise TranslateError("expected one orderTop / orderBot in check_halfface_ordering and one orderTop in add_cell")
    ch_top, ch_bot = offset_chain(chk, "offsetTop"), offset_chain(chk, "offsetBot")
    top_pos, bot_pos = hfs_pos(chk, "hfhTop"), hfs_pos(chk, "hfhBot")
    find, add, order = cellv_tables(addv)
    o = []
    for nm in ["XF", "XB", "YF", "YB", "ZF", "ZB", "INVALID"]:
        o.append("def %s : Nat := %d" % (nm, consts[nm]))
    o.append("\n/-- `opposite_orientation(d)` for d = 0 … INVALID, evaluated by the C++ compiler -/")
    o.append("def oppositeTable : List Nat := " + lean_list(opp))
    o.append("\n/-- `orthogonal_orientation(o1, o2)` for o1, o2 = 0 … INVALID (row o1, column o2) -/")
    o.append("def orthogonalTable : List (List Nat) :=\n  [" + ",\n   ".join(lean_list(r) for r in orth) + "]")
    o.append("\n/-- `orderTop` of the re-ordering path of `add_cell(halffaces)` -/")
    o.append("def orderTopAdd : List Nat := " + lean_list(top_a[0]))
    o.append("/-- `orderTop` / `orderBot` of `check_halfface_ordering` -/")
    o.append("def orderTopCheck : List Nat := " + lean_list(top_c[0]))
    o.append("def orderBotCheck : List Nat := " + lean_list(bot_c[0]))
    o.append("/-- the `if(ahfh == _hfs[k]) offset = v` chains of `check_halfface_ordering`: (k, v) in source order -/")
    o.append("def offsetTopChain : List (Nat × Nat) := [" + ", ".join("(%d, %d)" % p for p in ch_top) + "]")
    o.append("def offsetBotChain : List (Nat × Nat) := [" + ", ".join("(%d, %d)" % p for p in ch_bot) + "]")
    o.append("/-- `hfhTop = _hfs[topPos]`, `hfhBot = _hfs[botPos]` -/")
    o.append("def topPos : Nat := %d\ndef botPos : Nat := %d" % (top_pos, bot_pos))
    o.append("\n/-- `add_cell(vertices)`: the `_vertices` indices pushed before the k-th `find_halfface_extensive` -/")
    o.append("def cellVFind : List (List Nat) := [" + ", ".join(lean_list(f) for f in find) + "]")
    o.append("/-- the guarded `add_face` blocks in source order: (which halfface variable, vertex indices, side) -/")
    o.append("def cellVAdd : List (Nat × List Nat × Nat) := [" + ", ".join("(%d, %s, %d)" % (a[0], lean_list(a[1]), a[2]) for a in add) + "]")
    o.append("/-- the order in which the six halfface variables are pushed into the new cell -/")
    o.append("def cellVOrder : List Nat := " + lean_list(order))
    text = ("/- GENERATED by tools/t2_hextables.py from /repo/src/OpenVolumeMesh/Mesh/HexahedralMeshTopologyKernel.{hh,cc}\n"
            "   (dump program harness/dump_hextables.cc + clang-14 JSON AST).  Do not edit: regenerated on every\n"
            "   check run; the theorems in OVM/Props/C16.lean are re-checked against what the sources say now. -/\n"
            "namespace OVM.Gen.HexTables\n\n" + "\n".join(o) + "\n\nend OVM.Gen.HexTables\n")
    return text


def generate():
    text = translate()
    write_if_changed(LEAN / "OVM" / "Gen" / "HexTables.lean", text)
    return text


if __name__ == "__main__":
    print(generate())

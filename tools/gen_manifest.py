#!/usr/bin/env python3
"""Writes MANIFEST.json from the table below (single source of truth for what is claimed)."""
import json
from pathlib import Path

VERIF = Path(__file__).resolve().parents[1]

# pid -> dict(category, text, note, technique, design_ref) ; only properties with a working check
CLAIMS = {
 "C01": dict(category="other", technique="Lean 4 theorems (cache invariant => every upward query equals the brute-force scan) + per-step model/implementation correspondence judged in Lean",
   text="Lean theorems: under the cache invariant CacheInv every modelled upward query is the brute-force answer and never reports a deleted entity; CacheInv itself is evaluated (decidable form) together with every dumped query against the scan over the dumped definitions on every step of generated histories (4 deletion modes x 8 incidence subsets, poly + tet), and the Lean mechanism model of TopologyKernel.cc is compared step by step with the ASan/UBSan build of the current sources. Preservation of CacheInv by the mutators is not yet proved for all mutators (refinement ladder): that part is sampling, not proof.",
   note="Lean kernel + axioms listed in evidence; hand-written model lean/OVM/Kernel tied to the C++ only through the correspondence run; generator coverage is measured in the evidence"),
 "C02": dict(category="other", technique="Lean 4 theorems (shift renumbering bijective, deferred cell deletion exact) + token-named-mesh oracle and model correspondence judged in Lean",
   text="Lean theorems: the index-shift corrections are order-preserving bijections keeping half-entities with parent and side; deferred cell deletion changes exactly one flag and counter; bookkeeping functions. For every deletion in generated histories the judge checks on the implementation's own states that the surviving token-named mesh is the previous one minus the upward closure (brute force), counts/flags/genus/needs_gc consistency, and agreement with the Lean model in all four modes.",
   note="as C01; entity identity is carried by integer token properties, so a property-transport bug (C03) would also show here"),
 "C03": dict(category="other", technique="Lean 4 theorems about the column operations (resize/erase pair/swap pair keep values on entity and side) + token transport oracle + exact column correspondence",
   text="Lean theorems for columns of any size: resize keeps values and defaults new slots, erasing halfedge slots 2h+1 then 2h moves every surviving halfedge value to the same side of its renumbered edge, swaps exchange exactly the two (pairs of) slots, construction/clear keep one slot per entity. Every tracked column of 5 value types x 7 kinds is compared exactly with the Lean model after every step, and token values are traced through every renumbering on the implementation's states.",
   note="as C01; bool specialisation and value types are C++ glue covered only by the correspondence run"),
 "C04": dict(category="other", technique="Lean 4 theorems (collect_garbage no-op/modes/counters) + logical-mesh oracle on every GC step + model correspondence",
   text="Lean theorems: collect_garbage is the identity when nothing is pending, otherwise restores deferred mode, keeps fast mode and all incidence flags, and leaves no pending counter; leaving deferred mode collects first. On every garbage-collection step of generated histories the token-named logical mesh and all property values before and after are compared (oracle) and the result is compared with the Lean model. StatusAttrib::garbage_collection and tracked-handle remapping are not covered yet.",
   note="as C01"),

 "C05": dict(category="other", technique="Lean 4 theorems about the two iterator state machines (entity skip loops; circulator idx/lap/valid) + every class x centre x max_laps 1..3 compared with the machines on generated meshes",
   text="Lean theorems for every flag array / list / max_laps: entity iteration visits exactly the live slots ascending; a circulator dereferences its list max_laps times, equals make_end_circulator after |L|*max_laps increments (closed form of every intermediate state), stepping back undoes stepping forward at valid positions, empty list => immediately invalid, sort+unique lists are duplicate-free with the same members. All 26 circulator classes, 6 entity iterators (and boundary iterators via C01) are enumerated on every sampled state and compared with the machines and with the brute-force incident sets. Known finding F10: operator-- from the end state stays invalid (proved as a theorem about the machine, observed on the code).",
   note="which list each class's constructor builds is modelled by hand (Kernel/Query.lean) and tied by the correspondence run only"),
 "C09": dict(category="other", technique="Lean 4 theorems about reorder_incident_halffaces (walk = rotation chain, write-back = list + mirrored reverse, frame) + decidable fan-order predicate evaluated on every state of generated histories",
   text="Lean theorems: the forward walk of reorder collects a chain in which each halfface is followed by the opposite of its in-cell neighbour and only a boundary halfface or the return to the start ends it; the write-back stores that list and its mirrored reverse in the two halfedge slots and touches nothing else. Across histories (add_cell in every attachment order, deletions, swaps, GC, incidence toggling) the specification-level fan order (computed from definitions only) is compared with the cached lists for every single-fan edge on every step; adjacent_halfface_in_cell is compared with the model and checked unique/involutive on closed cells.",
   note="preservation of rotational order by all mutators (RotInv) is not a theorem yet: dynamic"),
 "C10": dict(category="other", technique="Lean 4 theorems (find_halfedge / find_halfface sound and complete under the cache invariant) + exhaustive argument enumeration on generated meshes against brute force",
   text="Lean theorems under CacheInv: find_halfedge and find_halfface(halfedges) return a live matching entity iff one exists; find_halfface(vertices) is sound; is_incident and next_halfedge facts. On generated meshes every lookup is asked for all ordered vertex pairs/triples (capped), rotated/reversed/complete vertex tuples of every halfface, all halfedge pairs, all (cell, …) combinations, and compared with the model and with brute-force soundness/completeness criteria.",
   note="completeness of find_halfface(vertices) is only claimed when the two halfedges are unique (parallel duplicate edges can hide a face, F11: documented limitation, not counted as a violation)"),
 "C08": dict(category="other", technique="Lean 4 proof about definitions translated from Handles.hh/TopologyKernel.hh by a clang-AST translator (regenerated every run) + mirror algebra on the model + correspondence",
   text="The handle arithmetic (subidx, full, opp, half, the static conversions, the four correctValue shifts, is_valid) is re-translated from the current sources on every run and the theorems (mutual inverses, opposite involution, same parent / other side, no int overflow below 2^30, member = static forms, shift = renumbering) are re-proved against it; the model's own arithmetic is proved equal to the generated one. On the model: opposite halfedge swaps endpoints, opposite halfface is the reversed list of opposites, twice is the identity, mirrored closed loops stay closed. next/prev/get_halfface_vertices are checked on generated meshes (oracles + model).",
   note="translator tools/t1_handles.py (clang-14 JSON AST, fails closed) is trusted; add_face(vertices) closedness and circulator direction are checked dynamically only"),
 "C11": dict(category="other", technique="Lean 4 theorems (rejected call returns the identical state, accepted call appends exactly one entity, add_face check <=> closed loop, add_edge search sound/complete) + full-state comparison around rejected calls",
   text="Lean theorems for every state and argument list: rejected add_face/add_cell and deduplicated add_edge return the whole state unchanged; accepted calls append exactly the given definition; add_face's check accepts exactly closed loops; the linear edge search returns only live edges and finds one if it exists. The sort/adjacent_find/unique form of add_cell's check is compared with the stated closed-surface predicate on every generated call (oracle), including a malformed stream (empty, open, repeated, missing/doubled face).",
   note="as C01; equivalence of add_cell's check with the closed-surface predicate is not yet a theorem"),
 "C12": dict(category="other", technique="Lean 4 theorems (linear-scan swap variants = relabel everything; disabled caches untouched) + paired run against an all-enabled twin mesh",
   text="Lean theorems: with the guiding incidence kind disabled each swap relabels every definition (equals the relabeling specification), never touches the disabled cache, disabling clears exactly that cache. Every generated history is executed on two meshes, one with a random incidence schedule and one with everything enabled; definitions, flags, counters, properties and (when enabled) caches must agree after every step; every step runs under ASan/UBSan with bounds-checked vectors.",
   note="as C01"),

 "C13": dict(category="other", technique="Lean 4 proof (world model: Disjoint invariant, copy/assign specs, frame theorems by induction over op sequences) + per-step correspondence of registry/handle views judged in Lean",
   text="Lean theorems over a world of meshes, a storage heap and user handles: every reachable world keeps storage ids of distinct meshes disjoint; copy/assign (incl. cross-kind, self) clone exactly the persistent properties into fresh storages with equal values, leave old handles attached-but-anonymous and resized; any operation on mesh A leaves the view of every other mesh and foreign handle unchanged, for every history. Topology itself is an opaque digest in this model (its equality after copy is checked by the correspondence run only), so the property is claimed as partial. 300 traces x ~60 ops per quick run with 1-4 meshes, all value types, copies, assignments, destruction with outstanding handles, under ASan.",
   note="entities/definitions/modes being equal after copy is tied by the differential run, not proved; model hand-written"),
 "C14": dict(category="proof", technique="Lean 4 proof (registry state machine + Tracker/Tracked pointer protocol: 16-clause invariant by induction over all op sequences) + per-step correspondence judged in Lean",
   text="Lean theorems, unbounded induction over every sequence of request/create_*/get/exists/set_shared/set_persistent/set_name/handle copy-move-drop/clear_*/clear/mesh copy/destruction: persistent => shared => named and unique; a storage exists iff referenced or persistent; n_props/n_persistent_props reflect the registry; request returns the existing shared storage or creates; create_* refuses duplicates; private never found; throwing transitions change nothing; handles outliving their mesh keep data and report detached; the tracker pointer protocol never dereferences a dead object. The model mirrors ResourceManager*/Tracking.hh after four fix commits and is compared step by step (result, exception class, full registry and handle views) with the ASan build; thorough tier enumerates all op sequences of length <= 4 over a 35-op alphabet.",
   note="model hand-written, tied by the correspondence run; std::set iteration order is abstracted (views compared as sets)"),
 "C17": dict(category="other", technique="Lean 4 theorems (relabeling involutions, slot-exchange involution, swap twice = identity for the scan variants) + exact-state correspondence and relabeling oracle on every swap",
   text="Lean theorems: swapping a handle with itself is a no-op; the relabel maps and the (paired) slot exchanges are involutions commuting with opposite; for the linear-scan variants swap twice is the identity on the whole record. On every generated swap (all four kinds, deleted handles, all incidence subsets) the implementation's state must equal the Lean model exactly (including cache order), the token-named mesh must be unchanged, and exactly the two handles' tokens and flags exchanged.",
   note="as C01; cache-guided variants = relabeling under CacheInv is not yet a theorem"),
 "C19": dict(category="proof", technique="Lean 4 proof (ring identities in every commutative ring, order, reductions) + every library result re-evaluated by the Lean model",
   text="67 Lean theorems about the executable vector model (component-wise definitions, strict total lexicographic order, dot/cross identities in any commutative ring incl. Int, ZMod 2^32, UInt32, reductions, truncating mean, minimize/maximize, stream round trip, barycenters, opposite-halfface normal); the model is tied to Vector11T.hh/GeometryKernel.hh by recomputing in Lean every result the compiled library prints over the integer lattice (exhaustive for N=2,3) and generated meshes. Two genuine defects are recorded as known findings (l1_norm, non-convex normals).",
   note="model is hand-written (no translator); floating-point special values are only tested against the plain formula; IEEE exactness on representable results is assumed"),
 "C20": dict(category="other", technique="Lean 4 proof (schedule independence of confined programs; decide over the const-method write-footprint table regenerated from the sources by a clang-AST translator) + snapshot diff and ThreadSanitizer runs",
   text="Lean theorems: any interleaving of read-only (or confined) threads gives every thread its sequential result with no conflicting accesses; every non-excluded const method in the regenerated footprint table writes no shared state (kernel decide over the whole table). The link table => C++ behaviour is an extraction (T5) validated on every run by byte-snapshot diffs around 287 const queries and TSan runs with 2-16 threads; this part is dynamic, hence partial.",
   note="T5 extraction is syntactic and conservative; libstdc++ const-access race freedom and the hardware memory model are trusted"),
}

NOT_YET = "check not built yet (build phase in progress; see DESIGN.md section 4)"

ALL = ["C%02d" % i for i in range(1, 21)]


def main():
    checks = []
    for pid in ALL:
        c = CLAIMS.get(pid)
        if not c:
            continue
        checks.append({
            "property_id": pid,
            "quick_cmd": "./check %s --tier quick" % pid,
            "thorough_cmd": "./check %s --tier thorough" % pid,
            "evidence_file": "/verif/evidence/%s.json" % pid,
            "replay_cmd_template": "./check %s --replay {path}" % pid,
            "engine": "lean4+correspondence",
            "level_claimed": {"category": c["category"], "text": c["text"], "design_ref": c.get("design_ref", "DESIGN.md section 4 " + pid)},
            "level_note": c["note"],
            "technique": c["technique"],
        })
    man = {
        "version": 1,
        "setup_cmd": "python3 tools/setup.py",
        "hooks": {
            "guard": "OVM_VERIF_HOOKS",
            "enable": "checks compile /repo/src with -DOVM_VERIF_HOOKS (no hook code exists; everything needed is public API)",
            "baseline_off_cmd": "cmake --build /repo/_build -j16 && ctest --test-dir /repo/_build -j8 --timeout 900",
            "source_commits": [],
            "add_only": True,
        },
        "engines": [
            {"name": "lean4+correspondence", "path": "/verif/lean", "serves_properties": sorted(CLAIMS),
             "kind_free_text": "Lean 4 model + theorems (lake build, #print axioms audit), regenerated fragments from /repo sources, differential correspondence of the model against the freshly compiled C++ (ASan/UBSan) through trace files judged by a compiled Lean executable"},
        ],
        "checks": checks,
        "not_applicable": [{"property_id": p, "reason": NOT_YET} for p in ALL if p not in CLAIMS],
        "notes": "See DESIGN.md. Every check rebuilds the OVM library from /repo's working tree (content-hash keyed cache under /verif/.build).",
    }
    (VERIF / "MANIFEST.json").write_text(json.dumps(man, indent=1) + "\n")


if __name__ == "__main__":
    main()

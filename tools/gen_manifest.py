#!/usr/bin/env python3
"""Writes MANIFEST.json from the table below (single source of truth for what is claimed)."""
import json
from pathlib import Path

VERIF = Path(__file__).resolve().parents[1]

# pid -> dict(category, text, note, technique, design_ref) ; only properties with a working check
CLAIMS = {
}

NOT_YET = "check not built yet (build phase in progress; see DESIGN.md section 4)"

ALL = ["C%02d" % i for i in range(1, 21)]


def main():
    checks = []
    for pid in ALL:
        c = CLAIMS.get(pid)
        if not c:
            continue
        checks.append({
            "property_id": pid,
            "quick_cmd": "./check %s --tier quick" % pid,
            "thorough_cmd": "./check %s --tier thorough" % pid,
            "evidence_file": "/verif/evidence/%s.json" % pid,
            "replay_cmd_template": "./check %s --replay {path}" % pid,
            "engine": "lean4+correspondence",
            "level_claimed": {"category": c["category"], "text": c["text"], "design_ref": c.get("design_ref", "DESIGN.md section 4 " + pid)},
            "level_note": c["note"],
            "technique": c["technique"],
        })
    man = {
        "version": 1,
        "setup_cmd": "python3 tools/setup.py",
        "hooks": {
            "guard": "OVM_VERIF_HOOKS",
            "enable": "checks compile /repo/src with -DOVM_VERIF_HOOKS (no hook code exists; everything needed is public API)",
            "baseline_off_cmd": "cmake --build /repo/_build -j16 && ctest --test-dir /repo/_build -j8 --timeout 900",
            "source_commits": [],
            "add_only": True,
        },
        "engines": [
            {"name": "lean4+correspondence", "path": "/verif/lean", "serves_properties": sorted(CLAIMS),
             "kind_free_text": "Lean 4 model + theorems (lake build, #print axioms audit), regenerated fragments from /repo sources, differential correspondence of the model against the freshly compiled C++ (ASan/UBSan) through trace files judged by a compiled Lean executable"},
        ],
        "checks": checks,
        "not_applicable": [{"property_id": p, "reason": NOT_YET} for p in ALL if p not in CLAIMS],
        "notes": "See DESIGN.md. Every check rebuilds the OVM library from /repo's working tree (content-hash keyed cache under /verif/.build).",
    }
    (VERIF / "MANIFEST.json").write_text(json.dumps(man, indent=1) + "\n")


if __name__ == "__main__":
    main()

#!/bin/bash
# usage: tools/try_mutation.sh <patch.diff> <Cxx> [more Cxx...]
# Applies the patch to a scratch copy of /repo (never /repo itself), runs the checks against it
# through VERIF_REPO, and restores the copy.  SEEDS="1 2 3" TIER=quick|thorough
set -u
patch=$1; shift
M=/var/tmp/ovm-mutrepo
mkdir -p $M
rsync -a --delete --exclude _build --exclude .git /repo/ $M/
(cd $M && patch -p1 -s < "$patch") || { echo "PATCH DOES NOT APPLY"; exit 3; }
cd /verif
for p in "$@"; do
  for seed in ${SEEDS:-1}; do
    out=$(VERIF_REPO=$M VERIF_SEED=$seed ./check $p --tier ${TIER:-quick} 2>/dev/null | grep -v auto_activate | grep -E "VIOLATION|KNOWN" | head -3)
    echo "[$p seed=$seed] :: ${out:-<no alarm>}"
  done
done
rsync -a --delete --exclude _build --exclude .git /repo/ $M/

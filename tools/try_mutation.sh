#!/bin/bash
# usage: tools/try_mutation.sh <patch.diff> <Cxx> [more Cxx...]   — applies the patch to /repo, runs the checks, undoes it
set -u
patch=$1; shift
cd /repo && git apply "$patch" || { echo "PATCH DOES NOT APPLY"; exit 3; }
cd /verif
for p in "$@"; do
  for seed in ${SEEDS:-1}; do
    out=$(VERIF_SEED=$seed ./check $p --tier quick 2>/dev/null | grep -v auto_activate | grep -E "VIOLATION|KNOWN" | head -3)
    echo "[$p seed=$seed] exit=$? :: ${out:-<no alarm>}"
  done
done
git -C /repo checkout -- .
